#!/usr/bin/env python3
"""Entry point of the runtime-monitoring checks for a2lfile (see DESIGN.md).

  vcheck.py setup                       build the harness (offline)
  vcheck.py <ID> [--tier quick|thorough] run one property check (C01..C20)
  vcheck.py replay <path>               re-run the case stored in a replay file

Environment: VERIF_SEED (default 1), VERIF_TIER (quick|thorough), VERIF_JOBS (default 16).
Exit codes: 0 held on everything explored, 1 violation, 2 inconclusive.
"""
import array
import json
import os
import resource
import shutil
import signal
import subprocess
import sys
import time

VERIF = os.path.dirname(os.path.abspath(__file__))
# The registered commands use the defaults (/verif/harness against /repo). The overrides exist for
# tools/regress_seeds.sh, which runs the checks against a scratch copy of the repository with a
# scratch copy of the harness, without touching /repo or the evidence files.
HARNESS = os.environ.get("VERIF_HARNESS_DIR", os.path.join(VERIF, "harness"))
REPO = os.environ.get("VERIF_REPO", "/repo")
TARGET = os.path.join(HARNESS, "target")
PROFILE = "verif"
EVIDENCE = os.environ.get("VERIF_EVIDENCE_DIR", os.path.join(VERIF, "evidence"))
REPLAY = os.environ.get("VERIF_REPLAY_DIR", os.path.join(VERIF, "replay"))
KNOWN = os.path.join(VERIF, "known_findings.json")
MAX_CONFIRMED_ABORTS = 6

# property -> (binary, level, worker time limit quick, thorough [s])
PROPS = {
    "C01": ("a2lprobe", "exploration", 600, 3600),
    "C02": ("a2lprobe", "exploration", 600, 3600),
    "C03": ("a2lprobe", "exploration", 600, 3600),
    "C04": ("a2lprobe", "exploration", 600, 3600),
    "C05": ("a2lprobe", "exploration", 600, 3600),
    "C06": ("a2lprobe", "exploration", 600, 3600),
    "C07": ("a2lprobe", "exploration", 600, 3600),
    "C08": ("a2lprobe", "exploration", 600, 3600),
    "C09": ("a2lprobe", "exploration", 600, 3600),
    "C10": ("a2lprobe", "exploration", 600, 3600),
    "C11": ("a2lprobe", "exploration", 600, 3600),
    "C12": ("a2lprobe", "exploration", 600, 3600),
    "C13": ("a2lprobe", "exploration", 600, 3600),
    "C14": ("a2lprobe", "exploration", 600, 3600),
    "C15": ("a2lprobe", "exploration", 600, 3600),
    "C16": ("a2lprobe", "fault_enumeration", 600, 3600),
    "C17": ("a2lprobe", "exploration", 600, 3600),
    "C18": ("a2lprobe", "exploration", 600, 3600),
    "C19": ("a2lprobe", "exploration", 600, 3600),
    "C20": ("probe20", "translation_validation", 900, 3600),
}


def env_offline():
    e = dict(os.environ)
    e["CARGO_NET_OFFLINE"] = "true"
    e["CARGO_TARGET_DIR"] = TARGET
    e.setdefault("RUST_BACKTRACE", "0")
    return e


def make_regen_farm():
    """(re)create harness/regen/src as a symlink farm of /repo/a2lfile/src with
    specification.rs -> specification_orig.rs (the macro form)."""
    src = os.path.join(REPO, "a2lfile", "src")
    dst = os.path.join(HARNESS, "regen", "src")
    if not os.path.isdir(os.path.join(HARNESS, "regen")):
        return
    want = {}
    for name in sorted(os.listdir(src)):
        if name == "specification_orig.rs":
            continue
        target = os.path.join(src, name)
        if name == "specification.rs":
            target = os.path.join(src, "specification_orig.rs")
        want[name] = target
    os.makedirs(dst, exist_ok=True)
    for name in os.listdir(dst):
        p = os.path.join(dst, name)
        if name not in want or not os.path.islink(p) or os.readlink(p) != want[name]:
            if os.path.islink(p) or os.path.isfile(p):
                os.unlink(p)
            else:
                shutil.rmtree(p)
    for name, target in want.items():
        p = os.path.join(dst, name)
        if not os.path.lexists(p):
            os.symlink(target, p)


def build(binary):
    """build the needed binary against /repo's current working tree"""
    lock = os.path.join(HARNESS, "Cargo.lock")
    if not os.path.exists(lock):
        shutil.copy(os.path.join(REPO, "Cargo.lock"), lock)
    if binary == "probe20":
        make_regen_farm()
    cmd = ["cargo", "build", "--offline", "--profile", PROFILE, "--bin", binary]
    t0 = time.time()
    p = subprocess.run(cmd, cwd=HARNESS, env=env_offline(), stdout=subprocess.PIPE,
                       stderr=subprocess.STDOUT, text=True)
    if p.returncode != 0:
        sys.stdout.write(p.stdout[-6000:])
        return None, time.time() - t0
    return os.path.join(TARGET, PROFILE, binary), time.time() - t0


def limit_resources():
    # 6 GiB of address space per worker: an allocation bomb aborts one worker, not the sandbox
    lim = 6 * 1024 * 1024 * 1024
    resource.setrlimit(resource.RLIMIT_AS, (lim, lim))
    resource.setrlimit(resource.RLIMIT_CORE, (0, 0))
    os.setsid()


def read_journal(path):
    try:
        with open(path) as f:
            txt = f.read()
        parts = txt.split("\n")
        case = int(parts[0].strip())
        label = parts[1].strip() if len(parts) > 1 else ""
        return case, label
    except Exception:
        return None, ""


def sig_name(rc):
    if rc is not None and rc < 0:
        try:
            return signal.Signals(-rc).name
        except Exception:
            return "SIG%d" % (-rc)
    return "exit%s" % rc


class Shard:
    def __init__(self, idx):
        self.idx = idx
        self.proc = None
        self.out = None
        self.journal = None
        self.log = None
        self.resume = 0
        self.summaries = []
        self.done = False
        self.started = 0.0
        self.generation = 0


def run_worker_single(binpath, prop, seed, tier, case, tmpdir, timeout, tag):
    """run one case alone in a fresh process; returns (status, summary or None)
    status: 'ok' | 'died:<sig>' | 'timeout'"""
    out = os.path.join(tmpdir, "single_%s.json" % tag)
    if os.path.exists(out):
        os.unlink(out)
    cmd = [binpath, prop, "--seed", str(seed), "--tier", tier, "--shard", "0", "--nshards", "1",
           "--only-case", str(case), "--out", out, "--replay-dir", REPLAY]
    try:
        p = subprocess.run(cmd, stdout=subprocess.PIPE, stderr=subprocess.STDOUT, timeout=timeout,
                           preexec_fn=limit_resources, env=env_offline())
    except subprocess.TimeoutExpired:
        return "timeout", None, ""
    tail = p.stdout.decode("utf-8", "replace")[-1500:]
    if p.returncode != 0 or not os.path.exists(out):
        return "died:" + sig_name(p.returncode), None, tail
    with open(out) as f:
        return "ok", json.load(f), tail


def run_check(prop, tier, seed):
    t0 = time.time()
    binary, level, tq, tt = PROPS[prop]
    limit = tt if tier == "thorough" else tq
    jobs = int(os.environ.get("VERIF_JOBS", "16"))
    binpath, build_s = build(binary)
    if binpath is None:
        print("INCONCLUSIVE property=%s reason=harness build failed (see output above)" % prop)
        return 2
    tmpdir = os.path.join(TARGET, "run", "%s_%s_%d" % (prop, tier, os.getpid()))
    shutil.rmtree(tmpdir, ignore_errors=True)
    os.makedirs(tmpdir)
    os.makedirs(os.path.join(REPLAY, prop), exist_ok=True)
    os.makedirs(EVIDENCE, exist_ok=True)

    shards = [Shard(i) for i in range(jobs)]
    extra_violations = []   # found by the driver (aborts, hangs)
    cut_short = []
    inconclusive = []

    def start(sh):
        sh.generation += 1
        sh.out = os.path.join(tmpdir, "shard_%d_%d.json" % (sh.idx, sh.generation))
        sh.journal = os.path.join(tmpdir, "shard_%d.journal" % sh.idx)
        sh.log = open(os.path.join(tmpdir, "shard_%d_%d.log" % (sh.idx, sh.generation)), "wb")
        cmd = [binpath, prop, "--seed", str(seed), "--tier", tier, "--shard", str(sh.idx),
               "--nshards", str(jobs), "--out", sh.out, "--journal", sh.journal,
               "--replay-dir", REPLAY, "--resume-from", str(sh.resume)]
        if os.path.exists(sh.journal):
            os.unlink(sh.journal)
        sh.proc = subprocess.Popen(cmd, stdout=sh.log, stderr=subprocess.STDOUT,
                                   preexec_fn=limit_resources, env=env_offline())
        sh.started = time.time()

    for sh in shards:
        start(sh)

    deadline = time.time() + limit
    restarts = 0
    while any(not sh.done for sh in shards):
        time.sleep(0.05)
        now = time.time()
        for sh in shards:
            if sh.done:
                continue
            rc = sh.proc.poll()
            timed_out = rc is None and now > deadline
            if rc is None and not timed_out:
                continue
            if timed_out:
                try:
                    os.killpg(sh.proc.pid, signal.SIGKILL)
                except Exception:
                    sh.proc.kill()
                sh.proc.wait()
            sh.log.close()
            if rc == 0 and os.path.exists(sh.out):
                with open(sh.out) as f:
                    sh.summaries.append(json.load(f))
                sh.done = True
                continue
            # abnormal end: attribute it to the journalled case
            case, label = read_journal(sh.journal)
            how = "timeout" if timed_out else sig_name(rc)
            if case is None:
                inconclusive.append("worker %d ended with %s before its first case" % (sh.idx, how))
                sh.done = True
                continue
            status, summ, tail = run_worker_single(binpath, prop, seed, tier, case, tmpdir, 120,
                                                   "%d_%d" % (sh.idx, case))
            if status == "ok":
                if timed_out:
                    inconclusive.append("worker %d exceeded the time limit (%ds) at case %d; the case "
                                        "finishes in isolation" % (sh.idx, limit, case))
                    sh.done = True
                    continue
                # not reproducible in isolation: keep its summary, note it, continue
                sh.summaries.append(summ)
                inconclusive.append("worker %d ended with %s at case %d (%s) but the case passes in "
                                    "isolation" % (sh.idx, how, case, label))
            else:
                cls = "hang" if status == "timeout" else "abort " + status.split(":", 1)[1]
                signature = "%s %s" % (cls, label if label else "case")
                rpath = os.path.join(REPLAY, prop, "abort-s%d-c%d.json" % (seed, case))
                with open(rpath, "w") as f:
                    json.dump({"property": prop, "signature": signature, "seed": seed, "tier": tier,
                               "detail": "worker process %s while running case %d (%s); reproduced in "
                                         "isolation: %s" % (how, case, label, status),
                               "witness": {"case": case, "label": label, "output_tail": tail}}, f)
                extra_violations.append({"signature": signature, "replay": rpath,
                                         "detail": "process %s at case %d (%s)" % (status, case, label)})
            if timed_out:
                sh.done = True
                continue
            if len(extra_violations) >= MAX_CONFIRMED_ABORTS:
                # the verdict is already 'violated'; every further abort costs a process restart
                # and an isolated re-run (an allocation bomb takes seconds): stop exploring
                if not cut_short:
                    cut_short.append("run cut short after %d process aborts / hangs confirmed in "
                                     "isolation" % len(extra_violations))
                for other in shards:
                    if not other.done and other is not sh:
                        try:
                            os.killpg(other.proc.pid, signal.SIGKILL)
                        except Exception:
                            other.proc.kill()
                        other.proc.wait()
                        other.log.close()
                        other.done = True
                sh.done = True
                continue
            # continue with the rest of this shard
            sh.resume = case + 1
            restarts += 1
            if restarts > 200:
                inconclusive.append("too many worker restarts")
                sh.done = True
                continue
            start(sh)

    # ---- merge
    evaluations = 0
    hist = {}
    floors = {}
    samples = []
    violations = []
    viol_counts = {}
    notes = []
    assumptions = []
    rule = ""
    extra = {}
    hashes = set()
    for sh in shards:
        for s in sh.summaries:
            evaluations += s.get("evaluations", 0)
            for k, v in s.get("hist", {}).items():
                hist[k] = hist.get(k, 0) + v
            for k, v in s.get("floors", {}).items():
                floors[k] = max(floors.get(k, 0), v)
            if len(samples) < 5:
                samples.extend(s.get("samples", [])[: 5 - len(samples)])
            violations.extend(s.get("violations", []))
            for k, v in s.get("violation_counts", {}).items():
                viol_counts[k] = viol_counts.get(k, 0) + v
            for n in s.get("notes", []):
                if n not in notes:
                    notes.append(n)
            for a in s.get("assumptions", []):
                if a not in assumptions:
                    assumptions.append(a)
            rule = s.get("rule") or rule
            for k, v in s.get("extra", {}).items():
                if isinstance(v, (int, float)) and isinstance(extra.get(k), (int, float)):
                    extra[k] += v
                elif k not in extra:
                    extra[k] = v
            hf = s.get("hashes_file")
            if hf and os.path.exists(hf):
                a = array.array("Q")
                with open(hf, "rb") as f:
                    a.frombytes(f.read())
                hashes.update(a)
    for v in extra_violations:
        violations.append(v)
        viol_counts[v["signature"]] = viol_counts.get(v["signature"], 0) + 1

    # ---- known findings
    known = []
    if os.path.exists(KNOWN):
        with open(KNOWN) as f:
            known = json.load(f)
    known_sigs = {k["signature"]: k for k in known
                  if k.get("property") == prop and k.get("status") == "known"}
    matched = {}
    new_violations = []
    for v in violations:
        k = known_sigs.get(v["signature"])
        if k is not None:
            matched[v["signature"]] = k
        else:
            new_violations.append(v)

    # ---- floors
    missed = [(k, need, hist.get(k, 0)) for k, need in sorted(floors.items()) if hist.get(k, 0) < need]
    for k, need, got in missed:
        inconclusive.append("coverage floor %s: observed %d < required %d" % (k, got, need))
    if evaluations == 0:
        inconclusive.append("no evaluations were performed")
    for c in cut_short:
        notes.append(c)
        # only a violated verdict may rest on a run that was cut short
        inconclusive.append(c)
    if hist.get("harness_panics", 0) > 0:
        inconclusive.append("%d case(s) ended in a panic of the harness itself (not of the code under test): %s"
                            % (hist["harness_panics"], "; ".join(n for n in notes if n.startswith("harness panic"))[:600]))

    wall = time.time() - t0
    coverage = {
        "evaluations": evaluations,
        "distinct_nontrivial": len(hashes),
        "rule": rule,
        "samples": samples if samples else ["(no sample recorded)"],
        "observations": hist,
        "floors": floors,
        "floors_missed": [m[0] for m in missed],
    }
    coverage.update(extra)
    if level == "translation_validation":
        coverage["programs"] = evaluations
        coverage["disagreements_checked"] = hist.get("transcripts_compared", evaluations)
    ev = {
        "property_id": prop,
        "tier": tier,
        "seed": seed,
        "level": level,
        "coverage": coverage,
        "assumptions": assumptions,
        "wall_s": round(wall, 2),
        "build_s": round(build_s, 2),
        "violations": sum(viol_counts.get(v["signature"], 1) for v in
                          {v["signature"]: v for v in new_violations}.values()),
        "violation_signatures": sorted({v["signature"] for v in new_violations}),
        "known_findings_matched": sorted(matched.keys()),
        "known_findings_occurrences": {s: viol_counts.get(s, 0) for s in matched},
        "inconclusive": inconclusive,
        "notes": notes,
        "verdict": "violated" if new_violations else ("inconclusive" if inconclusive else "held on what was observed"),
    }
    with open(os.path.join(EVIDENCE, "%s.json" % prop), "w") as f:
        json.dump(ev, f, indent=1, ensure_ascii=False)
        f.write("\n")

    print("%s tier=%s seed=%d: %d evaluations, %d distinct non-trivial, %.1fs (build %.1fs)" % (
        prop, tier, seed, evaluations, len(hashes), wall, build_s))
    for s, k in sorted(matched.items()):
        print("KNOWN-FINDING: property=%s %s [%s] (%d occurrences)" % (
            prop, k.get("what", ""), s, viol_counts.get(s, 0)))
    if new_violations:
        seen = set()
        for v in new_violations:
            if v["signature"] in seen:
                continue
            seen.add(v["signature"])
            print("VIOLATION property=%s replay=%s" % (prop, v.get("replay", "-")))
            print("  signature: %s (%d occurrences)" % (v["signature"], viol_counts.get(v["signature"], 1)))
            print("  detail: %s" % v.get("detail", "")[:800].replace("\n", "\n          "))
        shutil.rmtree(tmpdir, ignore_errors=True)
        return 1
    if inconclusive:
        for r in inconclusive:
            print("INCONCLUSIVE property=%s reason=%s" % (prop, r))
        shutil.rmtree(tmpdir, ignore_errors=True)
        return 2
    shutil.rmtree(tmpdir, ignore_errors=True)
    return 0


def replay(path):
    with open(path) as f:
        r = json.load(f)
    prop = r["property"]
    seed = int(r.get("seed", 1))
    tier = r.get("tier", "quick")
    binary = PROPS[prop][0]
    binpath, _ = build(binary)
    if binpath is None:
        print("INCONCLUSIVE property=%s reason=harness build failed" % prop)
        return 2
    w = r.get("witness", {})
    sig = r.get("signature", "")
    known_what = None
    if os.path.exists(KNOWN):
        with open(KNOWN) as f:
            for k in json.load(f):
                if k.get("property") == prop and k.get("status") == "known" and k.get("signature") == sig:
                    known_what = k.get("what", "")
    tmpdir = os.path.join(TARGET, "run", "replay_%d" % os.getpid())
    os.makedirs(tmpdir, exist_ok=True)
    try:
        if isinstance(w, dict) and "case" in w:
            status, summ, tail = run_worker_single(binpath, prop, seed, tier, int(w["case"]), tmpdir, 300, "replay")
            if status != "ok":
                print("replay: process %s" % status)
                print("VIOLATION property=%s replay=%s" % (prop, path))
                return 1
            sigs = [v["signature"] for v in summ.get("violations", [])]
            print("replay of case %s: signatures observed: %s" % (w["case"], sigs))
            if sigs:
                print("VIOLATION property=%s replay=%s" % (prop, path))
                return 1
            return 0
        else:
            out = os.path.join(tmpdir, "replay.json")
            cmd = [binpath, prop, "--seed", str(seed), "--tier", tier, "--shard", "0", "--nshards", "1",
                   "--out", out, "--replay-dir", tmpdir, "--replay-file", path]
            subprocess.run(cmd, env=env_offline(), preexec_fn=limit_resources, timeout=3600)
            with open(out) as f:
                summ = json.load(f)
            sigs = sorted(set(v["signature"] for v in summ.get("violations", [])))
            print("replay (full single-shard run): signatures observed: %s" % sigs)
            if sig in sigs:
                if known_what is not None:
                    print("KNOWN-FINDING: property=%s %s [%s]" % (prop, known_what, sig))
                    return 0
                print("VIOLATION property=%s replay=%s" % (prop, path))
                return 1
            return 0
    finally:
        shutil.rmtree(tmpdir, ignore_errors=True)


def main():
    argv = sys.argv[1:]
    if not argv:
        print(__doc__)
        return 2
    if argv[0] == "setup":
        ok = True
        for b in ["a2lprobe", "probe20"]:
            if b == "probe20" and not os.path.isdir(os.path.join(HARNESS, "probe20")):
                continue
            p, s = build(b)
            print("build %s: %s (%.1fs)" % (b, "ok" if p else "FAILED", s))
            ok = ok and p is not None
        return 0 if ok else 1
    if argv[0] == "replay":
        return replay(argv[1])
    prop = argv[0]
    if prop not in PROPS:
        print("unknown property", prop)
        return 2
    tier = os.environ.get("VERIF_TIER", "quick")
    if "--tier" in argv:
        tier = argv[argv.index("--tier") + 1]
    if tier not in ("quick", "thorough"):
        tier = "quick"
    seed = int(os.environ.get("VERIF_SEED", "1"))
    return run_check(prop, tier, seed)


if __name__ == "__main__":
    sys.exit(main())
