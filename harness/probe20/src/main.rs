//! C20 — differential transcript monitor: the shipped a2lfile (pre-generated specification.rs)
//! against a2lfile_regen (specification_orig.rs expanded by the in-tree a2lmacros), same bytes in,
//! transcripts compared.

use vcommon::doc::{Tok, TK};
use vcommon::docgen::{containment_path, path_version_range, DocGen, GenCfg};
use vcommon::grammar::{Grammar, VERSIONS};
use vcommon::hostile::{gen_hostile, Seeds};
use vcommon::json::{clip, Json};
use vcommon::layout::{render, LayoutCfg};
use vcommon::rng::Rng;
use vcommon::runtime::{guarded, install_panic_hook, run_cases, Args, Recorder};

/// transcript sections; Debug text is compared as a sorted multiset of lines because the
/// HashMaps inside GenericIfData have no stable iteration order
#[derive(Default, Debug)]
struct Transcript {
    result: String,
    log: Vec<String>,
    debug_sorted: Vec<String>,
    written: String,
    sorted_text: String,
    sort_new_text: String,
    merged_includes_text: String,
    check: Vec<String>,
    panic: Option<String>,
}

#[allow(unused_macros)]
macro_rules! transcript_fn {
    ($name:ident, $krate:ident) => {
        fn $name(text: &str, strict: bool, fragment: bool) -> Transcript {
            $name(text, strict, fragment, None)
        }
    };
}

macro_rules! transcript_file_fn {
    ($name:ident, $krate:ident) => {
        fn $name(text: &str, strict: bool, fragment: bool, file: Option<&std::path::Path>) -> Transcript {
            let mut t = Transcript::default();
            $krate::verif_hooks::reset(64 * text.len() as u64 + 100_000);
            let r = guarded(|| {
                let mut t = Transcript::default();
                if fragment {
                    match $krate::load_fragment(text, None) {
                        Ok(m) => {
                            t.result = "Ok".into();
                            let mut d: Vec<String> = format!("{m:#?}").lines().map(|l| l.trim().to_string()).collect();
                            d.sort();
                            t.debug_sorted = d;
                        }
                        Err(e) => t.result = format!("Err: {e}"),
                    }
                    return t;
                }
                let loaded = match file {
                    Some(p) => $krate::load(p, None, strict),
                    None => $krate::load_from_string(text, None, strict),
                };
                match loaded {
                    Err(e) => t.result = format!("Err: {e}"),
                    Ok((mut a2l, log)) => {
                        t.result = "Ok".into();
                        t.log = log.iter().map(|e| e.to_string()).collect();
                        let mut d: Vec<String> = format!("{a2l:#?}").lines().map(|l| l.trim().to_string()).collect();
                        d.sort();
                        t.debug_sorted = d;
                        t.written = a2l.write_to_string();
                        t.check = a2l.check().iter().map(|e| e.to_string()).collect();
                        let mut b = a2l.clone();
                        b.sort_new_items();
                        t.sort_new_text = b.write_to_string();
                        let mut c = a2l.clone();
                        {
                            use $krate::A2lObject;
                            c.merge_includes();
                        }
                        t.merged_includes_text = c.write_to_string();
                        a2l.sort();
                        t.sorted_text = a2l.write_to_string();
                    }
                }
                t
            });
            $krate::verif_hooks::reset(u64::MAX);
            match r {
                Ok(tr) => tr,
                Err((sig, detail)) => {
                    t.panic = Some(format!("{sig} :: {detail}"));
                    t
                }
            }
        }
    };
}

transcript_file_fn!(transcript_shipped_f, a2lfile);
transcript_file_fn!(transcript_regen_f, a2lfile_regen);
fn transcript_shipped(text: &str, strict: bool, fragment: bool) -> Transcript {
    transcript_shipped_f(text, strict, fragment, None)
}
fn transcript_regen(text: &str, strict: bool, fragment: bool) -> Transcript {
    transcript_regen_f(text, strict, fragment, None)
}

/// children of a block as the text of an include file
fn children_text(children: &[vcommon::doc::Child], lc: &LayoutCfg, rng: &mut Rng) -> String {
    use vcommon::doc::{Child, FTok, Flat};
    let mut f = Flat::empty();
    for c in children {
        match c {
            Child::Elem(e) => vcommon::doc::flatten_elem(e, 2, u32::MAX, true, false, &mut f),
            Child::Comment(t) => f.toks.push(FTok { tok: Tok::comment(t), depth: 2, elem: 0, slot_before: true, file_level: false, in_ifdata: false, owner_tag_idx: 0, param_idx: -1 }),
            Child::Raw(toks) => {
                for t in toks {
                    f.toks.push(FTok { tok: t.clone(), depth: 2, elem: 0, slot_before: false, file_level: false, in_ifdata: true, owner_tag_idx: 0, param_idx: -1 });
                }
            }
        }
    }
    render(&f, lc, rng).text
}

/// Move the optional sub-elements of up to three blocks (any kind, any depth) into include files of
/// their own, with comments at the head, in the middle and at the end of each include file; returns
/// the main text. The files are written into `dir`.
fn split_into_includes(rng: &mut Rng, doc: &mut vcommon::doc::Doc, dir: &std::path::Path, lc: &LayoutCfg) -> usize {
    use vcommon::doc::{Child, Elem};
    fn blocks<'a>(e: &'a mut Elem, out: &mut Vec<*mut Elem>) {
        if e.is_block && e.has_opts && e.tag != "A2ML" && e.tag != "IF_DATA" && e.children.iter().any(|c| matches!(c, Child::Elem(_))) {
            out.push(e as *mut Elem);
        }
        for c in &mut e.children {
            if let Child::Elem(k) = c {
                blocks(k, out);
            }
        }
    }
    // candidates: collect tag paths by index instead of pointers
    fn collect(e: &Elem, path: &mut Vec<usize>, out: &mut Vec<Vec<usize>>) {
        if e.is_block && e.has_opts && e.tag != "A2ML" && e.tag != "IF_DATA" && e.tag != "PROJECT" && e.children.iter().any(|c| matches!(c, Child::Elem(_))) {
            out.push(path.clone());
        }
        for (i, c) in e.children.iter().enumerate() {
            if let Child::Elem(k) = c {
                path.push(i);
                collect(k, path, out);
                path.pop();
            }
        }
    }
    let _ = blocks;
    let project_idx = doc.top.iter().position(|e| e.tag == "PROJECT").unwrap();
    let mut cands = Vec::new();
    collect(&doc.top[project_idx], &mut Vec::new(), &mut cands);
    rng.shuffle(&mut cands);
    // only blocks that are not nested in each other: keep paths that are not prefixes of one another
    let mut chosen: Vec<Vec<usize>> = Vec::new();
    for c in cands {
        if chosen.len() >= 3 {
            break;
        }
        if chosen.iter().all(|o| !(o.starts_with(&c) || c.starts_with(o))) {
            chosen.push(c);
        }
    }
    let mut n = 0;
    for (k, path) in chosen.iter().enumerate() {
        let mut e = &mut doc.top[project_idx];
        for i in path {
            e = match &mut e.children[*i] {
                Child::Elem(x) => x,
                _ => unreachable!(),
            };
        }
        let mut kids = std::mem::take(&mut e.children);
        kids.insert(0, Child::Comment(format!("/* head of include file {k} */")));
        let mid = kids.len() / 2 + 1;
        kids.insert(mid.min(kids.len()), Child::Comment(format!("// inside include file {k}")));
        kids.push(Child::Comment(format!("/* end of include file {k} */")));
        let name = format!("inc{k}.a2l");
        std::fs::write(dir.join(&name), children_text(&kids, lc, rng)).unwrap();
        e.children = vec![Child::Raw(vec![Tok::word(TK::Ident, "/include"), Tok::word(TK::Ident, &name)])];
        n += 1;
    }
    n
}

fn compare(a: &Transcript, b: &Transcript) -> Option<(String, String)> {
    // a panic on one side only is a disagreement; on both sides it is C03's business
    match (&a.panic, &b.panic) {
        (Some(_), Some(_)) => return None,
        (Some(p), None) => return Some(("panic only in the shipped build".into(), p.clone())),
        (None, Some(p)) => return Some(("panic only in the regenerated build".into(), p.clone())),
        _ => {}
    }
    if a.result != b.result {
        return Some(("load result".into(), format!("shipped: {} | regenerated: {}", clip(&a.result, 300), clip(&b.result, 300))));
    }
    if a.log != b.log {
        return Some(("diagnostics".into(), format!("shipped: {:?} | regenerated: {:?}", a.log, b.log)));
    }
    if a.debug_sorted != b.debug_sorted {
        let da: Vec<&String> = a.debug_sorted.iter().filter(|l| !b.debug_sorted.contains(l)).take(5).collect();
        let db: Vec<&String> = b.debug_sorted.iter().filter(|l| !a.debug_sorted.contains(l)).take(5).collect();
        return Some(("model (Debug view)".into(), format!("only shipped: {da:?} | only regenerated: {db:?}")));
    }
    for (name, x, y) in [
        ("written text", &a.written, &b.written),
        ("text after sort()", &a.sorted_text, &b.sorted_text),
        ("text after sort_new_items()", &a.sort_new_text, &b.sort_new_text),
        ("text after merge_includes()", &a.merged_includes_text, &b.merged_includes_text),
    ] {
        if x != y {
            let diff = x
                .lines()
                .zip(y.lines())
                .enumerate()
                .find(|(_, (l, r))| l != r)
                .map(|(i, (l, r))| format!("line {}: `{}` vs `{}`", i + 1, clip(l, 120), clip(r, 120)))
                .unwrap_or_else(|| format!("lengths {} vs {}", x.len(), y.len()));
            return Some((name.to_string(), diff));
        }
    }
    if a.check != b.check {
        return Some(("check() report".into(), format!("{:?} vs {:?}", a.check.iter().take(3).collect::<Vec<_>>(), b.check.iter().take(3).collect::<Vec<_>>())));
    }
    None
}

fn insert_unknown(rng: &mut Rng, flat: &mut vcommon::doc::Flat) {
    let slots: Vec<usize> = (0..flat.toks.len()).filter(|i| flat.toks[*i].slot_before && !flat.toks[*i].file_level).collect();
    if slots.is_empty() {
        return;
    }
    let at = *rng.pick(&slots);
    let proto = flat.toks[at].clone();
    let mut ins: Vec<Tok> = Vec::new();
    if rng.coin() {
        ins.push(Tok::word(TK::Tag, "ZZ_UNKNOWN_KW"));
        for _ in 0..rng.below(4) {
            ins.push(Tok::int(7, "7".into()));
        }
    } else {
        ins.push(Tok::begin());
        ins.push(Tok::word(TK::Tag, "ZZ_UNKNOWN_BLK"));
        ins.push(Tok::string("x", "\"x\"".into()));
        ins.push(Tok::end());
        ins.push(Tok::word(TK::EndTag, "ZZ_UNKNOWN_BLK"));
    }
    for (k, t) in ins.into_iter().enumerate() {
        let mut ft = proto.clone();
        ft.tok = t;
        ft.in_ifdata = true;
        ft.param_idx = -1;
        ft.slot_before = k == 0;
        flat.toks.insert(at + k, ft);
    }
}

fn run(args: &Args, rec: &mut Recorder) {
    rec.rule = "evaluation (= program) = one input fed to both builds (shipped specification.rs vs. specification_orig.rs expanded by the in-tree a2lmacros) in one process; compared: Ok/Err + error text, every log entry, Debug view of the model (as a line multiset), written text, text after sort(), sort_new_items(), merge_includes(), check() report. distinct_nontrivial = distinct inputs by content hash".into();
    rec.assumptions.push("all modules other than the specification are the same source files in both builds (symlink farm); Debug text compared as a sorted multiset of lines (HashMap order in GenericIfData is unstable)".into());
    let g = Grammar::load_default();
    let total: u64 = if args.thorough { 2_000_000 } else { 60_000 };
    let mut srng = Rng::derive(&[args.seed, 0xC20, args.shard]);
    let seeds = Seeds::build(&g, &mut srng, 12);
    let mut tags = g.all_tags();
    tags.retain(|t| t != "A2L_FILE" && t != "ASAP2_VERSION" && t != "A2ML_VERSION");
    let n_sys = tags.len() as u64 * 2;
    run_cases(args, rec, total + n_sys, || {}, |rng, case, rec| {
        let (origin, text): (String, String) = if case < n_sys {
            // systematic: every element kind with all its optional sub-elements, at a legal and at an old version
            let tag = &tags[(case / 2) as usize];
            let Some(path) = containment_path(&g, tag) else { return None };
            let (lo, hi) = path_version_range(&g, &path);
            let mut cfg = GenCfg::default();
            cfg.opt_pct = 100;
            cfg.max_elems = 60;
            let mut gen = DocGen::new(&g, cfg);
            gen.version = if lo <= hi { hi } else { 171 };
            let target = gen.gen_elem(rng, tag);
            let mut doc = gen.gen_doc_with(rng, &path, gen.version, target);
            if case % 2 == 1 {
                let v = *rng.pick(&VERSIONS);
                for e in &mut doc.top {
                    if e.tag == "ASAP2_VERSION" {
                        let minor = i128::from(v % 100);
                        e.params[1] = Tok::int(minor, format!("{minor}"));
                    }
                }
            }
            rec.bump(&format!("kind.{tag}"));
            let lc = LayoutCfg::c05(rng);
            (format!("systematic/{tag}"), render(&doc.flatten(), &lc, rng).text)
        } else {
            match case % 10 {
                0..=3 => {
                    let mut cfg = GenCfg::default();
                    cfg.max_elems = *rng.pick(&[10usize, 50, 150]);
                    cfg.opt_pct = rng.urange(10, 70) as u32;
                    cfg.comments_pct = *rng.pick(&[0u32, 10]);
                    cfg.multiline_comments = true;
                    let mut gen = DocGen::new(&g, cfg);
                    let mut doc = gen.gen_doc(rng);
                    if rng.chance(1, 3) {
                        let v = *rng.pick(&VERSIONS);
                        for e in &mut doc.top {
                            if e.tag == "ASAP2_VERSION" {
                                let minor = i128::from(v % 100);
                                e.params[1] = Tok::int(minor, format!("{minor}"));
                            }
                        }
                    }
                    let mut flat = doc.flatten();
                    if rng.chance(1, 3) {
                        insert_unknown(rng, &mut flat);
                        rec.bump("input.unknown_element_inserted");
                    }
                    let lc = if rng.coin() { LayoutCfg::wide(rng) } else { LayoutCfg::c05(rng) };
                    ("G-doc".to_string(), render(&flat, &lc, rng).text)
                }
                _ => {
                    let h = gen_hostile(&g, &seeds, rng);
                    (format!("hostile/{}", h.kind), String::from_utf8_lossy(&h.bytes).into_owned())
                }
            }
        };
        // one case in twelve: a generated document split over include files (sub-elements of up to
        // three blocks of any kind, comments inside the include files), loaded from disk by both builds
        if case >= n_sys && case % 12 == 1 {
            let mut cfg = GenCfg::default();
            cfg.max_elems = *rng.pick(&[30usize, 80]);
            cfg.opt_pct = rng.urange(30, 80) as u32;
            cfg.comments_pct = 10;
            cfg.a2ml = false;
            let mut gen = DocGen::new(&g, cfg);
            let mut doc = gen.gen_doc(rng);
            let dir = std::env::temp_dir().join(format!("probe20_{}_{}", std::process::id(), args.shard));
            let _ = std::fs::remove_dir_all(&dir);
            std::fs::create_dir_all(&dir).unwrap();
            let lc = LayoutCfg::c05(rng);
            let n_inc = split_into_includes(rng, &mut doc, &dir, &lc);
            let main_text = render(&doc.flatten(), &lc, rng).text;
            let main = dir.join("main.a2l");
            std::fs::write(&main, &main_text).unwrap();
            rec.nontrivial(main_text.as_bytes());
            rec.bump("input.include_tree");
            rec.add("include_files", n_inc as u64);
            for strict in [false, true] {
                rec.eval();
                let a = transcript_shipped_f(&main_text, strict, false, Some(&main));
                let b = transcript_regen_f(&main_text, strict, false, Some(&main));
                rec.bump("transcripts_compared");
                if a.result == "Ok" {
                    rec.bump("include_tree.Ok");
                }
                if let Some((what, detail)) = compare(&a, &b) {
                    let files: Vec<String> = (0..n_inc).map(|k| format!("inc{k}.a2l: {}", clip(&std::fs::read_to_string(dir.join(format!("inc{k}.a2l"))).unwrap_or_default(), 4000))).collect();
                    rec.violation(
                        &format!("shipped and regenerated builds disagree: {what} [include tree]"),
                        &format!("strict={strict}: {detail}"),
                        Json::obj().with("origin", Json::s("include tree")).with("strict", Json::Bool(strict)).with("main.a2l", Json::s(&clip(&main_text, 30000))).with("include_files", Json::s(&files.join("\n----\n"))),
                    );
                }
            }
            let _ = std::fs::remove_dir_all(&dir);
            return None;
        }
        rec.nontrivial(text.as_bytes());
        rec.bump(&format!("input.{}", origin.split('/').next().unwrap_or("")));
        for (strict, fragment) in [(false, false), (true, false), (false, true)] {
            if fragment && case % 7 != 0 {
                continue;
            }
            rec.eval();
            let a = transcript_shipped(&text, strict, fragment);
            let b = transcript_regen(&text, strict, fragment);
            rec.bump("transcripts_compared");
            if a.result == "Ok" {
                rec.bump("result.Ok");
                if !a.log.is_empty() {
                    rec.bump("result.Ok+log");
                }
            } else if a.panic.is_some() {
                rec.bump("result.panic_both_or_one");
            } else {
                rec.bump("result.Err");
            }
            if let Some((what, detail)) = compare(&a, &b) {
                rec.violation(
                    &format!("shipped and regenerated builds disagree: {what}"),
                    &format!("strict={strict} fragment={fragment}: {detail}"),
                    Json::obj()
                        .with("origin", Json::s(&origin))
                        .with("strict", Json::Bool(strict))
                        .with("fragment", Json::Bool(fragment))
                        .with("input", Json::s(&clip(&text, 60000))),
                );
            }
        }
        if rec.want_sample() && case % 997 == 5 {
            rec.sample(Json::obj().with("origin", Json::s(&origin)).with("input", Json::s(&clip(&text, 300))));
        }
        None
    });
    rec.floor("input.G-doc", 10);
    rec.floor("input.hostile", 10);
    rec.floor("include_tree.Ok", 10);
    rec.floor("input.unknown_element_inserted", 5);
    rec.floor("result.Ok", 10);
    rec.floor("result.Ok+log", 5);
    rec.floor("result.Err", 10);
    for t in &tags {
        rec.floor(&format!("kind.{t}"), 1);
    }
}

fn main() {
    let args = Args::parse();
    install_panic_hook();
    let handle = std::thread::Builder::new()
        .stack_size(8 * 1024 * 1024)
        .spawn(move || {
            let mut rec = Recorder::new(&args);
            run(&args, &mut rec);
            if !args.out.is_empty() {
                rec.write_summary(&args.out);
            }
        })
        .unwrap();
    if handle.join().is_err() {
        std::process::exit(4);
    }
}
