//! R-graph: typed extraction of the reference graph of a Module through its public fields.
//! The site list is the frozen table of DESIGN.md appendix A (derived from the ident-typed
//! parameters of the reference grammar and their A2L meaning), not from merge.rs/cleanup/checker.

use a2lfile::*;
use std::collections::HashMap;

#[derive(Clone, Copy, Debug, PartialEq, Eq, Hash, PartialOrd, Ord)]
pub enum Ns {
    Obj,
    Cm,
    Tab,
    Td,
    Unit,
    Rl,
    Func,
    Grp,
    Trf,
    Seg,
    Crit,
}

#[derive(Clone, Debug)]
pub struct RefCtx {
    /// kind of the module-level element that holds the reference
    pub kind: &'static str,
    /// name of that element ("" for singletons)
    pub rname: String,
    pub rmarker: u32,
    /// site id, e.g. "Characteristic.axis_descr[].conversion"
    pub site: &'static str,
    /// position: index of the nested element and index inside an identifier list
    pub pos: (usize, usize),
    pub ns: Ns,
    /// checked by check() today (column C of appendix A)
    pub covered: bool,
}

#[derive(Clone, Debug)]
pub struct Edge {
    pub ctx: RefCtx,
    pub target: String,
}

pub fn marker_from_text(s: &str) -> u32 {
    s.strip_prefix("mk")
        .map(|r| r.chars().take_while(|c| c.is_ascii_digit()).collect::<String>())
        .and_then(|d| d.parse().ok())
        .unwrap_or(0)
}

pub fn rl_marker(rl: &RecordLayout) -> u32 {
    rl.alignment_byte.as_ref().map_or(0, |a| u32::from(a.alignment_border))
}

macro_rules! visit {
    ($f:expr, $kind:expr, $rname:expr, $rmarker:expr, $site:expr, $pos:expr, $ns:expr, $cov:expr, $val:expr) => {{
        let ctx = RefCtx {
            kind: $kind,
            rname: $rname.clone(),
            rmarker: $rmarker,
            site: $site,
            pos: $pos,
            ns: $ns,
            covered: $cov,
        };
        $f(&ctx, $val);
    }};
}

fn visit_axis_descr(
    f: &mut dyn FnMut(&RefCtx, &mut String),
    kind: &'static str,
    rname: &String,
    rmarker: u32,
    list: &mut Vec<AxisDescr>,
    typedef: bool,
) {
    for (i, ad) in list.iter_mut().enumerate() {
        let (s_iq, s_cv, s_apr, s_car) = if typedef {
            (
                "TypedefCharacteristic.axis_descr[].input_quantity",
                "TypedefCharacteristic.axis_descr[].conversion",
                "TypedefCharacteristic.axis_descr[].axis_pts_ref",
                "TypedefCharacteristic.axis_descr[].curve_axis_ref",
            )
        } else {
            (
                "Characteristic.axis_descr[].input_quantity",
                "Characteristic.axis_descr[].conversion",
                "Characteristic.axis_descr[].axis_pts_ref",
                "Characteristic.axis_descr[].curve_axis_ref",
            )
        };
        visit!(f, kind, rname, rmarker, s_iq, (i, 0), Ns::Obj, true, &mut ad.input_quantity);
        visit!(f, kind, rname, rmarker, s_cv, (i, 0), Ns::Cm, true, &mut ad.conversion);
        if let Some(r) = &mut ad.axis_pts_ref {
            visit!(f, kind, rname, rmarker, s_apr, (i, 0), Ns::Obj, true, &mut r.axis_points);
        }
        if let Some(r) = &mut ad.curve_axis_ref {
            visit!(f, kind, rname, rmarker, s_car, (i, 0), Ns::Obj, true, &mut r.curve_axis);
        }
    }
}

fn visit_list(
    f: &mut dyn FnMut(&RefCtx, &mut String),
    kind: &'static str,
    rname: &String,
    rmarker: u32,
    site: &'static str,
    outer: usize,
    ns: Ns,
    covered: bool,
    list: &mut Vec<String>,
) {
    for (j, v) in list.iter_mut().enumerate() {
        visit!(f, kind, rname, rmarker, site, (outer, j), ns, covered, v);
    }
}

/// visit every reference of the module (mutably)
pub fn visit_refs(m: &mut Module, f: &mut dyn FnMut(&RefCtx, &mut String)) {
    for x in m.axis_pts.iter_mut() {
        let (n, mk) = (x.get_name().to_string(), marker_from_text(&x.long_identifier));
        visit!(f, "AXIS_PTS", n, mk, "AxisPts.input_quantity", (0, 0), Ns::Obj, true, &mut x.input_quantity);
        visit!(f, "AXIS_PTS", n, mk, "AxisPts.deposit_record", (0, 0), Ns::Rl, true, &mut x.deposit_record);
        visit!(f, "AXIS_PTS", n, mk, "AxisPts.conversion", (0, 0), Ns::Cm, true, &mut x.conversion);
        if let Some(l) = &mut x.function_list {
            visit_list(f, "AXIS_PTS", &n, mk, "AxisPts.function_list", 0, Ns::Func, true, &mut l.name_list);
        }
        if let Some(r) = &mut x.ref_memory_segment {
            visit!(f, "AXIS_PTS", n, mk, "AxisPts.ref_memory_segment", (0, 0), Ns::Seg, true, &mut r.name);
        }
    }
    for x in m.characteristic.iter_mut() {
        let (n, mk) = (x.get_name().to_string(), marker_from_text(&x.long_identifier));
        visit!(f, "CHARACTERISTIC", n, mk, "Characteristic.deposit", (0, 0), Ns::Rl, true, &mut x.deposit);
        visit!(f, "CHARACTERISTIC", n, mk, "Characteristic.conversion", (0, 0), Ns::Cm, true, &mut x.conversion);
        visit_axis_descr(f, "CHARACTERISTIC", &n, mk, &mut x.axis_descr, false);
        if let Some(r) = &mut x.comparison_quantity {
            visit!(f, "CHARACTERISTIC", n, mk, "Characteristic.comparison_quantity", (0, 0), Ns::Obj, true, &mut r.name);
        }
        if let Some(r) = &mut x.dependent_characteristic {
            visit_list(f, "CHARACTERISTIC", &n, mk, "Characteristic.dependent_characteristic", 0, Ns::Obj, true, &mut r.characteristic_list);
        }
        if let Some(r) = &mut x.virtual_characteristic {
            visit_list(f, "CHARACTERISTIC", &n, mk, "Characteristic.virtual_characteristic", 0, Ns::Obj, true, &mut r.characteristic_list);
        }
        if let Some(r) = &mut x.map_list {
            visit_list(f, "CHARACTERISTIC", &n, mk, "Characteristic.map_list", 0, Ns::Obj, true, &mut r.name_list);
        }
        if let Some(l) = &mut x.function_list {
            visit_list(f, "CHARACTERISTIC", &n, mk, "Characteristic.function_list", 0, Ns::Func, true, &mut l.name_list);
        }
        if let Some(r) = &mut x.ref_memory_segment {
            visit!(f, "CHARACTERISTIC", n, mk, "Characteristic.ref_memory_segment", (0, 0), Ns::Seg, true, &mut r.name);
        }
    }
    for x in m.measurement.iter_mut() {
        let (n, mk) = (x.get_name().to_string(), marker_from_text(&x.long_identifier));
        visit!(f, "MEASUREMENT", n, mk, "Measurement.conversion", (0, 0), Ns::Cm, true, &mut x.conversion);
        if let Some(l) = &mut x.function_list {
            visit_list(f, "MEASUREMENT", &n, mk, "Measurement.function_list", 0, Ns::Func, true, &mut l.name_list);
        }
        if let Some(r) = &mut x.ref_memory_segment {
            visit!(f, "MEASUREMENT", n, mk, "Measurement.ref_memory_segment", (0, 0), Ns::Seg, true, &mut r.name);
        }
        if let Some(r) = &mut x.var_virtual {
            visit_list(f, "MEASUREMENT", &n, mk, "Measurement.virtual", 0, Ns::Obj, false, &mut r.measuring_channel_list);
        }
    }
    for x in m.instance.iter_mut() {
        let (n, mk) = (x.get_name().to_string(), marker_from_text(&x.long_identifier));
        visit!(f, "INSTANCE", n, mk, "Instance.type_ref", (0, 0), Ns::Td, true, &mut x.type_ref);
        for (i, ow) in x.overwrite.iter_mut().enumerate() {
            if let Some(c) = &mut ow.conversion {
                visit!(f, "INSTANCE", n, mk, "Instance.overwrite[].conversion", (i, 0), Ns::Cm, false, &mut c.name);
            }
            if let Some(c) = &mut ow.input_quantity {
                visit!(f, "INSTANCE", n, mk, "Instance.overwrite[].input_quantity", (i, 0), Ns::Obj, false, &mut c.name);
            }
        }
    }
    for x in m.typedef_axis.iter_mut() {
        let (n, mk) = (x.get_name().to_string(), marker_from_text(&x.long_identifier));
        visit!(f, "TYPEDEF_AXIS", n, mk, "TypedefAxis.input_quantity", (0, 0), Ns::Obj, true, &mut x.input_quantity);
        visit!(f, "TYPEDEF_AXIS", n, mk, "TypedefAxis.record_layout", (0, 0), Ns::Rl, true, &mut x.record_layout);
        visit!(f, "TYPEDEF_AXIS", n, mk, "TypedefAxis.conversion", (0, 0), Ns::Cm, true, &mut x.conversion);
    }
    for x in m.typedef_characteristic.iter_mut() {
        let (n, mk) = (x.get_name().to_string(), marker_from_text(&x.long_identifier));
        visit!(f, "TYPEDEF_CHARACTERISTIC", n, mk, "TypedefCharacteristic.record_layout", (0, 0), Ns::Rl, true, &mut x.record_layout);
        visit!(f, "TYPEDEF_CHARACTERISTIC", n, mk, "TypedefCharacteristic.conversion", (0, 0), Ns::Cm, true, &mut x.conversion);
        visit_axis_descr(f, "TYPEDEF_CHARACTERISTIC", &n, mk, &mut x.axis_descr, true);
    }
    for x in m.typedef_measurement.iter_mut() {
        let (n, mk) = (x.get_name().to_string(), marker_from_text(&x.long_identifier));
        visit!(f, "TYPEDEF_MEASUREMENT", n, mk, "TypedefMeasurement.conversion", (0, 0), Ns::Cm, true, &mut x.conversion);
    }
    for x in m.typedef_structure.iter_mut() {
        let (n, mk) = (x.get_name().to_string(), marker_from_text(&x.long_identifier));
        for (i, sc) in x.structure_component.iter_mut().enumerate() {
            visit!(f, "TYPEDEF_STRUCTURE", n, mk, "TypedefStructure.structure_component[].component_type", (i, 0), Ns::Td, true, &mut sc.component_type);
        }
    }
    for x in m.compu_method.iter_mut() {
        let (n, mk) = (x.get_name().to_string(), marker_from_text(&x.long_identifier));
        if let Some(r) = &mut x.compu_tab_ref {
            visit!(f, "COMPU_METHOD", n, mk, "CompuMethod.compu_tab_ref", (0, 0), Ns::Tab, true, &mut r.conversion_table);
        }
        if let Some(r) = &mut x.status_string_ref {
            visit!(f, "COMPU_METHOD", n, mk, "CompuMethod.status_string_ref", (0, 0), Ns::Tab, true, &mut r.conversion_table);
        }
        if let Some(r) = &mut x.ref_unit {
            visit!(f, "COMPU_METHOD", n, mk, "CompuMethod.ref_unit", (0, 0), Ns::Unit, true, &mut r.unit);
        }
    }
    for x in m.unit.iter_mut() {
        let (n, mk) = (x.get_name().to_string(), marker_from_text(&x.long_identifier));
        if let Some(r) = &mut x.ref_unit {
            visit!(f, "UNIT", n, mk, "Unit.ref_unit", (0, 0), Ns::Unit, false, &mut r.unit);
        }
    }
    for x in m.function.iter_mut() {
        let (n, mk) = (x.get_name().to_string(), marker_from_text(&x.long_identifier));
        if let Some(r) = &mut x.def_characteristic {
            visit_list(f, "FUNCTION", &n, mk, "Function.def_characteristic", 0, Ns::Obj, true, &mut r.identifier_list);
        }
        if let Some(r) = &mut x.ref_characteristic {
            visit_list(f, "FUNCTION", &n, mk, "Function.ref_characteristic", 0, Ns::Obj, true, &mut r.identifier_list);
        }
        if let Some(r) = &mut x.in_measurement {
            visit_list(f, "FUNCTION", &n, mk, "Function.in_measurement", 0, Ns::Obj, true, &mut r.identifier_list);
        }
        if let Some(r) = &mut x.loc_measurement {
            visit_list(f, "FUNCTION", &n, mk, "Function.loc_measurement", 0, Ns::Obj, true, &mut r.identifier_list);
        }
        if let Some(r) = &mut x.out_measurement {
            visit_list(f, "FUNCTION", &n, mk, "Function.out_measurement", 0, Ns::Obj, true, &mut r.identifier_list);
        }
        if let Some(r) = &mut x.sub_function {
            visit_list(f, "FUNCTION", &n, mk, "Function.sub_function", 0, Ns::Func, true, &mut r.identifier_list);
        }
    }
    for x in m.group.iter_mut() {
        let (n, mk) = (x.get_name().to_string(), marker_from_text(&x.long_identifier));
        if let Some(r) = &mut x.ref_characteristic {
            visit_list(f, "GROUP", &n, mk, "Group.ref_characteristic", 0, Ns::Obj, true, &mut r.identifier_list);
        }
        if let Some(r) = &mut x.ref_measurement {
            visit_list(f, "GROUP", &n, mk, "Group.ref_measurement", 0, Ns::Obj, true, &mut r.identifier_list);
        }
        if let Some(r) = &mut x.function_list {
            visit_list(f, "GROUP", &n, mk, "Group.function_list", 0, Ns::Func, true, &mut r.name_list);
        }
        if let Some(r) = &mut x.sub_group {
            visit_list(f, "GROUP", &n, mk, "Group.sub_group", 0, Ns::Grp, true, &mut r.identifier_list);
        }
    }
    for x in m.frame.iter_mut() {
        let (n, mk) = (x.get_name().to_string(), marker_from_text(&x.long_identifier));
        if let Some(r) = &mut x.frame_measurement {
            visit_list(f, "FRAME", &n, mk, "Frame.frame_measurement", 0, Ns::Obj, false, &mut r.identifier_list);
        }
    }
    for x in m.transformer.iter_mut() {
        let (n, mk) = (x.get_name().to_string(), marker_from_text(&x.version));
        visit!(f, "TRANSFORMER", n, mk, "Transformer.inverse_transformer", (0, 0), Ns::Trf, true, &mut x.inverse_transformer);
        if let Some(r) = &mut x.transformer_in_objects {
            visit_list(f, "TRANSFORMER", &n, mk, "Transformer.transformer_in_objects", 0, Ns::Obj, true, &mut r.identifier_list);
        }
        if let Some(r) = &mut x.transformer_out_objects {
            visit_list(f, "TRANSFORMER", &n, mk, "Transformer.transformer_out_objects", 0, Ns::Obj, true, &mut r.identifier_list);
        }
    }
    for x in m.user_rights.iter_mut() {
        let n = x.user_level_id.clone();
        for (i, rg) in x.ref_group.iter_mut().enumerate() {
            visit_list(f, "USER_RIGHTS", &n, 0, "UserRights.ref_group[]", i, Ns::Grp, false, &mut rg.identifier_list);
        }
    }
    if let Some(mc) = &mut m.mod_common {
        if let Some(r) = &mut mc.s_rec_layout {
            let n = String::new();
            visit!(f, "MOD_COMMON", n, 0, "ModCommon.s_rec_layout", (0, 0), Ns::Rl, false, &mut r.name);
        }
    }
    if let Some(vc) = &mut m.variant_coding {
        let n = String::new();
        for i in 0..vc.var_characteristic.len() {
            // the name of a VAR_CHARACTERISTIC is itself a reference (to an object); it is only
            // reachable through get_name / rename_item
            let mut tmp = vc.var_characteristic[i].get_name().to_string();
            let before = tmp.clone();
            visit!(f, "VARIANT_CODING", n, 0, "VariantCoding.var_characteristic[].name", (i, 0), Ns::Obj, false, &mut tmp);
            if tmp != before {
                vc.var_characteristic.rename_item(i, &tmp);
            }
            let c = &mut vc.var_characteristic[i];
            visit_list(f, "VARIANT_CODING", &n, 0, "VariantCoding.var_characteristic[].criterion_name_list", i, Ns::Crit, false, &mut c.criterion_name_list);
        }
        for (i, c) in vc.var_criterion.iter_mut().enumerate() {
            if let Some(r) = &mut c.var_measurement {
                visit!(f, "VARIANT_CODING", n, 0, "VariantCoding.var_criterion[].var_measurement", (i, 0), Ns::Obj, false, &mut r.name);
            }
            if let Some(r) = &mut c.var_selection_characteristic {
                visit!(f, "VARIANT_CODING", n, 0, "VariantCoding.var_criterion[].var_selection_characteristic", (i, 0), Ns::Obj, false, &mut r.name);
            }
        }
        for (i, fc) in vc.var_forbidden_comb.iter_mut().enumerate() {
            for (j, c) in fc.combination.iter_mut().enumerate() {
                visit!(f, "VARIANT_CODING", n, 0, "VariantCoding.var_forbidden_comb[].combination[].criterion_name", (i, j), Ns::Crit, false, &mut c.criterion_name);
            }
        }
    }
}

pub fn edges(m: &Module) -> Vec<Edge> {
    let mut c = m.clone();
    let mut out = Vec::new();
    visit_refs(&mut c, &mut |ctx, val| {
        out.push(Edge {
            ctx: ctx.clone(),
            target: val.clone(),
        })
    });
    out
}

pub fn is_conventional(ns: Ns, name: &str) -> bool {
    match ns {
        Ns::Cm => name == "NO_COMPU_METHOD",
        Ns::Obj => name == "NO_INPUT_QUANTITY" || name.starts_with("THIS."),
        Ns::Trf => name == "NO_INVERSE_TRANSFORMER",
        _ => false,
    }
}

/// (kind, marker) of every named element per namespace
pub struct Index {
    pub map: HashMap<(Ns, String), Vec<(&'static str, u32)>>,
}

impl Index {
    pub fn build(m: &Module) -> Index {
        let mut map: HashMap<(Ns, String), Vec<(&'static str, u32)>> = HashMap::new();
        let mut add = |ns: Ns, name: &str, kind: &'static str, mk: u32| {
            map.entry((ns, name.to_string())).or_default().push((kind, mk));
        };
        for x in &m.axis_pts {
            add(Ns::Obj, x.get_name(), "AXIS_PTS", marker_from_text(&x.long_identifier));
        }
        for x in &m.blob {
            add(Ns::Obj, x.get_name(), "BLOB", marker_from_text(&x.long_identifier));
        }
        for x in &m.characteristic {
            add(Ns::Obj, x.get_name(), "CHARACTERISTIC", marker_from_text(&x.long_identifier));
        }
        for x in &m.instance {
            add(Ns::Obj, x.get_name(), "INSTANCE", marker_from_text(&x.long_identifier));
        }
        for x in &m.measurement {
            add(Ns::Obj, x.get_name(), "MEASUREMENT", marker_from_text(&x.long_identifier));
        }
        for x in &m.compu_method {
            add(Ns::Cm, x.get_name(), "COMPU_METHOD", marker_from_text(&x.long_identifier));
        }
        for x in &m.compu_tab {
            add(Ns::Tab, x.get_name(), "COMPU_TAB", marker_from_text(&x.long_identifier));
        }
        for x in &m.compu_vtab {
            add(Ns::Tab, x.get_name(), "COMPU_VTAB", marker_from_text(&x.long_identifier));
        }
        for x in &m.compu_vtab_range {
            add(Ns::Tab, x.get_name(), "COMPU_VTAB_RANGE", marker_from_text(&x.long_identifier));
        }
        for x in &m.typedef_axis {
            add(Ns::Td, x.get_name(), "TYPEDEF_AXIS", marker_from_text(&x.long_identifier));
        }
        for x in &m.typedef_blob {
            add(Ns::Td, x.get_name(), "TYPEDEF_BLOB", marker_from_text(&x.long_identifier));
        }
        for x in &m.typedef_characteristic {
            add(Ns::Td, x.get_name(), "TYPEDEF_CHARACTERISTIC", marker_from_text(&x.long_identifier));
        }
        for x in &m.typedef_measurement {
            add(Ns::Td, x.get_name(), "TYPEDEF_MEASUREMENT", marker_from_text(&x.long_identifier));
        }
        for x in &m.typedef_structure {
            add(Ns::Td, x.get_name(), "TYPEDEF_STRUCTURE", marker_from_text(&x.long_identifier));
        }
        for x in &m.unit {
            add(Ns::Unit, x.get_name(), "UNIT", marker_from_text(&x.long_identifier));
        }
        for x in &m.record_layout {
            add(Ns::Rl, x.get_name(), "RECORD_LAYOUT", rl_marker(x));
        }
        for x in &m.function {
            add(Ns::Func, x.get_name(), "FUNCTION", marker_from_text(&x.long_identifier));
        }
        for x in &m.group {
            add(Ns::Grp, x.get_name(), "GROUP", marker_from_text(&x.long_identifier));
        }
        for x in &m.transformer {
            add(Ns::Trf, x.get_name(), "TRANSFORMER", marker_from_text(&x.version));
        }
        if let Some(mp) = &m.mod_par {
            for x in &mp.memory_segment {
                add(Ns::Seg, x.get_name(), "MEMORY_SEGMENT", marker_from_text(&x.long_identifier));
            }
        }
        if let Some(vc) = &m.variant_coding {
            for x in &vc.var_criterion {
                add(Ns::Crit, x.get_name(), "VAR_CRITERION", marker_from_text(&x.long_identifier));
            }
        }
        Index { map }
    }

    pub fn resolve(&self, ns: Ns, name: &str) -> Option<&Vec<(&'static str, u32)>> {
        self.map.get(&(ns, name.to_string()))
    }
}
