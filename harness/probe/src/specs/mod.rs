//! fixed a2ml_specification! invocations for C19, expanded by the IN-TREE a2lmacros
#![allow(dead_code, unused_imports, clippy::all)]

pub mod s1 {
    use a2lmacros_intree::a2ml_specification;
    // the specification used by the repository's own tests
    a2ml_specification! {
        <SpecOne>

        block "IF_DATA" taggedunion if_data {
            "CHAR" char a;
            "INT" int b;
            "LONG" long c;
            "INT64" int64 d;
            "UCHAR" uchar e;
            "UINT" uint f;
            "ULONG" ulong g;
            "UINT64" uint64 h;
            "DOUBLE" double i;
            "FLOAT" float j;
            "STRUCT" struct structname {
                char[256];
                int;
            };
            block "BLOCK" taggedstruct tagged_struct {
                "TAG1" int intval;
            };
            "ENUM" enum EnumTest {
                "ENUMVAL1" = 1,
                "ENUMVAL2"
            } named_enum;
            "ARRAY" uint arr[3];
            block "SEQUENCE" (char[256] name)*;
            "NONE";
        };
    }
}

pub mod s2 {
    use a2lmacros_intree::a2ml_specification;
    // struct root, every scalar type, arrays, anonymous and referenced enums, referenced tagged types
    a2ml_specification! {
        <SpecTwo>

        enum SomeEnum {
            "SOME_ENUM_A" = 1,
            "SOME_ENUM_B" = 2,
            "SOME_ENUM_C" = 0x3
        };

        taggedunion tu {
            "FOO" uint;
            "BAR" uchar;
        };

        taggedstruct ts {
            ("REP_ITEM" uint rep_item)*;
            "NORMAL_ITEM" struct {
                char my_string[128];
            };
            "REP_ITEM_INNER" (struct InnerRepStruct {
                uint foo;
                uint bar;
            })*;
        };

        struct SomeStruct {
            uchar my_uchar;
            uint my_uint;
            ulong my_ulong;
            char my_char;
            int my_int;
            long my_long;
            float my_float;
            double my_double;
            uint my_array[3];
            enum {
                "ANON_ENUM_A" = 0,
                "ANON_ENUM_B" = 1
            };
            enum SomeEnum my_enum;
            taggedunion tu;
            taggedstruct ts;
        };

        block "IF_DATA" struct SomeStruct;
    }
}

pub mod s3 {
    use a2lmacros_intree::a2ml_specification;
    // XCP-like: nested blocks, repeated blocks, 64 bit types, nested tagged types
    a2ml_specification! {
        <SpecThree>

        struct Protocol {
            uint version;
            uint64 capabilities;
            int64 offset;
            taggedstruct {
                block "OPTIONAL_CMD" enum {
                    "GET_ID" = 0xFA,
                    "SET_REQUEST" = 0xF9,
                    "GET_SEED" = 0xF8
                };
                "COMM_MODE" uchar;
                (block "SEGMENT" struct Segment {
                    uchar number;
                    uchar pages;
                    taggedstruct {
                        (block "PAGE" struct Page {
                            uchar page_number;
                            enum {
                                "ACCESS_NONE" = 0,
                                "ACCESS_ALL" = 1
                            };
                        })*;
                        "CHECKSUM" ulong;
                    };
                })*;
            };
        };

        block "IF_DATA" taggedunion if_data {
            "XCPX" struct {
                taggedstruct {
                    block "PROTOCOL_LAYER" struct Protocol;
                    block "DAQ" struct Daq {
                        uint max_daq;
                        double timestamp_res;
                        float ratio;
                        char name[32];
                        taggedunion {
                            "STATIC";
                            "DYNAMIC" uint;
                        };
                    };
                };
            };
            "ETKX" uint;
        };
    }
}

pub mod s4 {
    use a2lmacros_intree::a2ml_specification;
    // taggedstruct root, arrays of every integer type, struct inside repeated tagged item
    a2ml_specification! {
        <SpecFour>

        block "IF_DATA" taggedstruct root {
            "BYTES" uchar bytes[4];
            "WORDS" int words[2];
            "LONGS" long longs[2];
            "BIG" uint64 big[2];
            "FLOATS" float floats[2];
            ("POINT" struct Point {
                long x;
                long y;
                char label[16];
            })*;
            block "META" struct Meta {
                char text[64];
                enum Level {
                    "LOW",
                    "MID",
                    "HIGH"
                } level;
                double weight;
            };
            "FLAG";
        };
    }
}

pub mod s5 {
    use a2lmacros_intree::a2ml_specification;
    // the same tags and member names in different places, with members of different types: the
    // generated Rust types of equally named blocks must not be mixed up
    a2ml_specification! {
        <SpecFive>

        block "IF_DATA" taggedunion if_data {
            "DEV" struct {
                uint version;
                taggedstruct {
                    block "CHANNEL_A" struct {
                        uint id;
                        taggedstruct {
                            "MODE" enum ModeA {
                                "A_FAST" = 0,
                                "A_SLOW" = 1
                            } mode;
                            "LIMIT" uint limit;
                            block "ITEM" struct ItemA {
                                uchar kind;
                                char label[12];
                            } item;
                        };
                    };
                    block "CHANNEL_B" struct {
                        uint id;
                        taggedstruct {
                            "MODE" enum ModeB {
                                "B_ON" = 0,
                                "B_OFF" = 1,
                                "B_AUTO" = 2
                            } mode;
                            "LIMIT" double limit;
                            block "ITEM" struct ItemB {
                                long offset;
                                long length;
                                float gain;
                            } item;
                        };
                    };
                    (block "CHANNEL_C" struct {
                        uint id;
                        taggedstruct {
                            "MODE" uint64 mode;
                            ("LIMIT" int limit)*;
                        };
                    })*;
                };
            };
        };
    }
}

pub mod s6 {
    use a2lmacros_intree::a2ml_specification;
    // structs nested directly inside structs, several levels deep
    a2ml_specification! {
        <SpecSix>

        block "IF_DATA" taggedunion if_data {
            "NEST" struct {
                uint a;
                struct Inner1 {
                    uint b;
                    struct Inner2 {
                        uint c;
                        char name[8];
                    };
                    long d;
                };
                uchar e;
            };
        };
    }
}

pub mod s7 {
    use a2lmacros_intree::a2ml_specification;
    // documentation comments (///) on every kind of item: they are copied into the generated code and
    // into the text constant (as // comments), which must still be valid A2ML
    a2ml_specification! {
        <SpecSeven>

        block "IF_DATA" taggedunion if_data {
            "DOC" struct {
                uint version;  /// protocol version
                enum Transfer {
                    "MODE_OFF" = 0, /// nothing is transferred
                    "MODE_SINGLE" = 1, /// one value per request, "on demand"
                    "MODE_BLOCK" = 2 /// last item: blocks of values
                } transfer; /// the transfer mode
                char name[16]; /// a name
                taggedstruct {
                    "RATE" float rate; /// samples per second
                    ("CHANNEL" struct {
                        uchar index; /// channel number
                        enum Dir {
                            "DIR_IN", /// towards the ECU
                            "DIR_OUT"
                        } dir;
                    })*; /// any number of channels
                    block "EXTRA" struct {
                        long offset; /// offset in bytes
                        double factor;
                    }; /// optional block
                };
            };
        };
    }
}
