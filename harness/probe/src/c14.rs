//! C14 — sort() is a pure reordering into the documented canonical order.

use crate::c01::witness_text;
use crate::gram::{load_str, write};
use a2lfile::{A2lFile, A2lObjectName, Module};
use vcommon::docgen::DocGen;
use vcommon::grammar::Grammar;
use vcommon::json::{clip, Json};
use vcommon::layout::{render, LayoutCfg};
use vcommon::lexer::{lex, LK};
use vcommon::runtime::{guarded, run_cases, Args, Recorder};

/// apply `$body` to every named module-level list: (tag, list-of-before, list-of-after)
macro_rules! for_lists {
    ($a:expr, $b:expr, $f:ident, $rec:expr, $ctx:expr) => {
        $f("AXIS_PTS", &$a.axis_pts, &$b.axis_pts, $rec, $ctx);
        $f("BLOB", &$a.blob, &$b.blob, $rec, $ctx);
        $f("CHARACTERISTIC", &$a.characteristic, &$b.characteristic, $rec, $ctx);
        $f("COMPU_METHOD", &$a.compu_method, &$b.compu_method, $rec, $ctx);
        $f("COMPU_TAB", &$a.compu_tab, &$b.compu_tab, $rec, $ctx);
        $f("COMPU_VTAB", &$a.compu_vtab, &$b.compu_vtab, $rec, $ctx);
        $f("COMPU_VTAB_RANGE", &$a.compu_vtab_range, &$b.compu_vtab_range, $rec, $ctx);
        $f("FRAME", &$a.frame, &$b.frame, $rec, $ctx);
        $f("FUNCTION", &$a.function, &$b.function, $rec, $ctx);
        $f("GROUP", &$a.group, &$b.group, $rec, $ctx);
        $f("INSTANCE", &$a.instance, &$b.instance, $rec, $ctx);
        $f("MEASUREMENT", &$a.measurement, &$b.measurement, $rec, $ctx);
        $f("RECORD_LAYOUT", &$a.record_layout, &$b.record_layout, $rec, $ctx);
        $f("TRANSFORMER", &$a.transformer, &$b.transformer, $rec, $ctx);
        $f("TYPEDEF_AXIS", &$a.typedef_axis, &$b.typedef_axis, $rec, $ctx);
        $f("TYPEDEF_BLOB", &$a.typedef_blob, &$b.typedef_blob, $rec, $ctx);
        $f("TYPEDEF_CHARACTERISTIC", &$a.typedef_characteristic, &$b.typedef_characteristic, $rec, $ctx);
        $f("TYPEDEF_MEASUREMENT", &$a.typedef_measurement, &$b.typedef_measurement, $rec, $ctx);
        $f("TYPEDEF_STRUCTURE", &$a.typedef_structure, &$b.typedef_structure, $rec, $ctx);
        $f("UNIT", &$a.unit, &$b.unit, $rec, $ctx);
    };
}

pub struct Ctx<'a> {
    pub text: &'a str,
    pub what: &'a str,
}

/// same elements with unchanged content, and ascending by name afterwards
fn same_elements<T: A2lObjectName + PartialEq>(
    tag: &str,
    before: &a2lfile::ItemList<T>,
    after: &a2lfile::ItemList<T>,
    rec: &mut Recorder,
    ctx: &Ctx,
) {
    if before.len() != after.len() {
        rec.violation(
            &format!("{}: list length changed ({tag})", ctx.what),
            &format!("{tag}: {} elements before, {} after", before.len(), after.len()),
            witness_text("C14", ctx.text, tag),
        );
        return;
    }
    rec.add("elements_compared", before.len() as u64);
    for x in before.iter() {
        match after.get(x.get_name()) {
            Some(y) if y == x => {}
            Some(_) => rec.violation(
                &format!("{}: element content changed ({tag})", ctx.what),
                &format!("{tag} {}", x.get_name()),
                witness_text("C14", ctx.text, tag),
            ),
            None => rec.violation(
                &format!("{}: element lost ({tag})", ctx.what),
                &format!("{tag} {}", x.get_name()),
                witness_text("C14", ctx.text, tag),
            ),
        }
    }
    // position and name index agree, names ascending
    let mut prev: Option<&str> = None;
    for (i, y) in after.iter().enumerate() {
        if after.index(y.get_name()) != Some(i) {
            rec.violation(
                &format!("{}: name index of the list is stale ({tag})", ctx.what),
                &format!("{tag} {}: position {i}, index() = {:?}", y.get_name(), after.index(y.get_name())),
                witness_text("C14", ctx.text, tag),
            );
            break;
        }
        if let Some(p) = prev {
            if p > y.get_name() {
                rec.violation(
                    &format!("{}: list not in alphabetical order ({tag})", ctx.what),
                    &format!("{tag}: {p} before {}", y.get_name()),
                    witness_text("C14", ctx.text, tag),
                );
                break;
            }
        }
        prev = Some(y.get_name());
    }
}

fn compare_modules(before: &Module, after: &Module, rec: &mut Recorder, ctx: &Ctx) {
    for_lists!(before, after, same_elements, rec, ctx);
    let singles_equal = before.a2ml == after.a2ml
        && before.mod_common == after.mod_common
        && before.mod_par == after.mod_par
        && before.variant_coding == after.variant_coding
        && before.get_name() == after.get_name()
        && before.long_identifier == after.long_identifier;
    if !singles_equal {
        rec.violation(
            &format!("{}: a singleton of the module changed", ctx.what),
            before.get_name(),
            witness_text("C14", ctx.text, ""),
        );
    }
    // IF_DATA and USER_RIGHTS: same multiset
    if before.if_data.len() != after.if_data.len()
        || !before.if_data.iter().all(|x| after.if_data.iter().any(|y| x == y))
    {
        rec.violation(
            &format!("{}: module IF_DATA changed", ctx.what),
            before.get_name(),
            witness_text("C14", ctx.text, ""),
        );
    }
    if before.user_rights.len() != after.user_rights.len()
        || !before.user_rights.iter().all(|x| after.user_rights.iter().any(|y| x == y))
    {
        rec.violation(
            &format!("{}: USER_RIGHTS changed", ctx.what),
            before.get_name(),
            witness_text("C14", ctx.text, ""),
        );
    }
}

/// (kind, name) of every element directly inside each MODULE of a written text
pub fn module_level_order(text: &str) -> Result<Vec<Vec<(String, String)>>, String> {
    let toks = lex(text)?;
    let mut out: Vec<Vec<(String, String)>> = Vec::new();
    let mut depth = 0;
    let mut in_module = false;
    let mut i = 0;
    while i < toks.len() {
        match toks[i].kind {
            LK::Begin => {
                let kind = toks.get(i + 1).map(|t| t.text.clone()).unwrap_or_default();
                if depth == 1 && kind == "MODULE" {
                    in_module = true;
                    out.push(Vec::new());
                } else if depth == 2 && in_module {
                    let name = toks
                        .get(i + 2)
                        .filter(|t| t.kind == LK::Word)
                        .map(|t| t.text.clone())
                        .unwrap_or_default();
                    out.last_mut().unwrap().push((kind, name));
                }
                depth += 1;
                i += 2;
                continue;
            }
            LK::End => {
                depth -= 1;
                if depth == 1 {
                    in_module = false;
                }
                i += 2;
                continue;
            }
            _ => {}
        }
        i += 1;
    }
    Ok(out)
}

/// (kind, name) of the blocks directly inside PROJECT, in written order
pub fn project_level_order(text: &str) -> Result<Vec<(String, String)>, String> {
    let toks = lex(text)?;
    let mut out = Vec::new();
    let mut depth = 0;
    let mut i = 0;
    while i < toks.len() {
        match toks[i].kind {
            LK::Begin => {
                if depth == 1 {
                    let kind = toks.get(i + 1).map(|t| t.text.clone()).unwrap_or_default();
                    let name = toks.get(i + 2).filter(|t| t.kind == LK::Word).map(|t| t.text.clone()).unwrap_or_default();
                    out.push((kind, name));
                }
                depth += 1;
                i += 2;
                continue;
            }
            LK::End => {
                depth -= 1;
                i += 2;
                continue;
            }
            _ => {}
        }
        i += 1;
    }
    Ok(out)
}

const UNNAMED: &[&str] = &["A2ML", "MOD_COMMON", "MOD_PAR", "IF_DATA", "VARIANT_CODING"];

fn check_written_order(order: &[(String, String)]) -> Result<(), String> {
    let mut seen_kinds: Vec<&str> = Vec::new();
    let mut prev: Option<&(String, String)> = None;
    for e in order {
        let kind = e.0.as_str();
        match prev {
            Some(p) if p.0 == e.0 => {
                if !UNNAMED.contains(&kind) && p.1 > e.1 {
                    return Err(format!("{kind} {} is written before {kind} {}", p.1, e.1));
                }
            }
            _ => {
                if seen_kinds.contains(&kind) {
                    return Err(format!(
                        "elements of kind {kind} are not grouped together ({kind} {} follows after other kinds)",
                        e.1
                    ));
                }
                seen_kinds.push(kind);
            }
        }
        prev = Some(e);
    }
    Ok(())
}

/// A file whose MODULE content is partly in include files (one level): load, sort(), write next to
/// the main file, load again. The property promises the same model in the same order.
fn sorted_file_with_includes_case(rng: &mut vcommon::rng::Rng, rec: &mut Recorder, g: &Grammar, scratch: &std::path::Path, case: u64) {
    let Some(main) = crate::c16::make_tree_levels(rng, g, scratch, case, 1) else { return };
    let root = main.parent().unwrap().to_path_buf();
    let cleanup = |_: ()| {
        let _ = std::fs::remove_dir_all(&root);
    };
    crate::util::set_budget(50_000_000);
    let loaded = guarded(|| a2lfile::load(&main, None, false));
    crate::util::reset_budget();
    let Ok(Ok((m0, _))) = loaded else {
        rec.bump("include_tree.rejected");
        return cleanup(());
    };
    if has_duplicate_names(&m0) {
        rec.bump("skipped.duplicate_names");
        return cleanup(());
    }
    rec.eval();
    rec.bump("sorted_files_with_includes");
    let main_text = std::fs::read_to_string(&main).unwrap_or_default();
    rec.nontrivial(main_text.as_bytes());
    let mut ms = m0.clone();
    if let Err((sig, detail)) = guarded(|| ms.sort()) {
        rec.violation(&sig, &detail, witness_text("C14 include tree", &main_text, "sort()"));
        return cleanup(());
    }
    let out = root.join("sorted.a2l");
    if let Err((sig, detail)) = guarded(|| ms.write(&out, None)) {
        rec.violation(&sig, &detail, witness_text("C14 include tree", &main_text, "write after sort()"));
        return cleanup(());
    }
    let written = std::fs::read_to_string(&out).unwrap_or_default();
    crate::util::set_budget(50_000_000);
    let reloaded = guarded(|| a2lfile::load(&out, None, false));
    crate::util::reset_budget();
    match reloaded {
        Err((sig, detail)) => rec.violation(&sig, &detail, witness_text("C14 include tree", &main_text, &clip(&written, 2000))),
        Ok(Err(e)) => rec.violation(
            "sort(): written text does not load [file with include directives]",
            &e.to_string(),
            witness_text("C14 include tree", &main_text, &clip(&written, 2000)),
        ),
        Ok(Ok((mr, _))) => {
            let mut n1 = ms.clone();
            let mut n2 = mr.clone();
            crate::c01::normalise_reserved(&mut n1);
            crate::c01::normalise_reserved(&mut n2);
            if n1 != n2 {
                // same elements, another list order? (named lists: equal after sorting again; lists of
                // unnamed elements such as IF_DATA or ANNOTATION: the same Debug lines in another order)
                let mut s2 = n2.clone();
                s2.sort();
                let lines = |f: &A2lFile| {
                    let mut v: Vec<String> = format!("{f:#?}")
                        .lines()
                        .map(|l| l.trim().replace("-0.0,", "0.0,"))
                        .filter(|l| {
                            !(l.starts_with("line:")
                                || l.starts_with("uid:")
                                || l.starts_with("start_offset:")
                                || l.starts_with("end_offset:")
                                || l.starts_with("incfile:")
                                || (l.starts_with('"') && l.contains("\": ") && l.ends_with(',') && l.rsplit(' ').next().is_some_and(|n| n.trim_end_matches(',').parse::<u32>().is_ok())))
                        })
                        .collect();
                    v.sort_unstable();
                    v
                };
                let sig = if s2 == n1 || lines(&n1) == lines(&n2) || crate::c01::model_diff(&n1, &n2).starts_with("same Debug lines in a different order") {
                    "sort(): reloaded model has another list order than the sorted model [file with include directives]"
                } else {
                    "sort(): reloaded model differs from the sorted model [file with include directives]"
                };
                rec.violation(sig, &crate::c01::model_diff(&ms, &mr), witness_text("C14 include tree", &main_text, &clip(&written, 2000)));
            } else {
                rec.bump("sorted_files_with_includes.stable");
            }
        }
    }
    cleanup(());
}

/// give the first MODULE that has an A2ML block a small definition and module-level IF_DATA that
/// conforms to it, one block in front of the A2ML block and one behind it
fn plant_ifdata_around_a2ml(doc: &mut vcommon::doc::Doc) -> bool {
    use vcommon::doc::{Child, Elem, Tok, Val, TK};
    let project = doc.project_mut();
    for c in &mut project.children {
        let Child::Elem(module) = c else { continue };
        if module.tag != "MODULE" {
            continue;
        }
        // module-level IF_DATA of the generator would be uninterpreted noise next to the planted ones
        let Some(pos) = module.children.iter().position(|k| matches!(k, Child::Elem(e) if e.tag == "A2ML")) else {
            continue;
        };
        let text = "\n  block \"IF_DATA\" taggedunion { \"PLANTED\" struct { uint; char[8]; }; };\n".to_string();
        if let Child::Elem(a) = &mut module.children[pos] {
            a.params = vec![Tok { kind: TK::A2ml, text: text.clone(), val: Val::Raw(text) }];
        }
        let mk = |v: i128, s: &str| {
            let mut e = Elem::new("IF_DATA", true, false);
            e.params = vec![Tok::word(TK::Ident, "PLANTED"), Tok::int(v, format!("{v}")), Tok::string(s, format!("\"{s}\""))];
            Child::Elem(e)
        };
        module.children.insert(pos + 1, mk(2, "behind"));
        module.children.insert(pos, mk(1, "before"));
        return true;
    }
    false
}

pub fn run(args: &Args, rec: &mut Recorder) {
    rec.rule = "evaluation = one loaded document sorted with sort(): every list must hold the same elements with equal content (by name lookup and PartialEq), singletons unchanged, lists ascending by name with a coherent name index; the written text must list the module-level elements grouped by kind and ascending by name; load(write(sorted)) must equal the sorted model including list order; sorting twice must give the same text. distinct_nontrivial = distinct input texts by content hash".into();
    rec.assumptions.push("names are duplicate-free per list (generator); module-level comments are dropped by sort() by design and are not judged".into());
    let g = Grammar::load_default();
    let total: u64 = if args.thorough { 300_000 } else { 40_000 };
    let scratch = crate::c03::scratch_dir(args);
    run_cases(args, rec, total, crate::util::reset_budget, |rng, case, rec| {
        if case % 25 == 9 {
            sorted_file_with_includes_case(rng, rec, &g, &scratch, case);
            return None;
        }
        let mut cfg = crate::c01::gen_cfg_wide(rng, args.thorough);
        cfg.max_modules = 3;
        cfg.max_repeat = 4;
        cfg.opt_pct = rng.urange(30, 80) as u32;
        let mut gen = DocGen::new(&g, cfg);
        if rng.chance(1, 4) {
            // A2ML blocks that cannot be interpreted (reported in non-strict mode, text kept)
            gen.a2ml_pool = vec![
                "\n  block \"IF_DATA\" struct { int; \n".to_string(),
                "\n  struct { unknown_type x; };\n".to_string(),
                "\n  block \"IF_DATA\" taggedunion { \"A\" uint; };\n".to_string(),
            ];
            rec.bump("docs.with_uninterpretable_a2ml_in_pool");
        }
        let mut doc = gen.gen_doc(rng);
        // HEADER and MODULEs in any order inside PROJECT
        {
            let project = doc.project_mut();
            if project.children.len() > 1 && rng.coin() {
                rng.shuffle(&mut project.children);
                rec.bump("docs.with_shuffled_project_children");
            }
        }
        // "any original order": IF_DATA that conforms to the A2ML block of its module, standing in
        // front of that block (and behind it)
        let mut planted = false;
        if rng.chance(1, 8) {
            planted = plant_ifdata_around_a2ml(&mut doc);
            if planted {
                rec.bump("docs.with_conforming_if_data_in_front_of_the_a2ml_block");
            }
        }
        let lc = if rng.coin() { LayoutCfg::wide(rng) } else { LayoutCfg::c05(rng) };
        let text = render(&doc.flatten(), &lc, rng).text;
        let (mut m0, _) = match load_str(&text, false) {
            Ok(Ok(v)) => v,
            Ok(Err(_)) => {
                rec.bump("rejected");
                return None;
            }
            Err((sig, detail)) => {
                rec.violation(&sig, &detail, witness_text("C14", &text, ""));
                return None;
            }
        };
        // duplicate names inside a list are outside the property (names duplicate-free)
        if has_duplicate_names(&m0) {
            rec.bump("skipped.duplicate_names");
            return None;
        }
        rec.eval();
        rec.nontrivial(text.as_bytes());
        rec.bump(&format!("modules.{}", m0.project.module.len().min(4)));
        if rec.want_sample() && case % 83 == 2 {
            rec.sample(Json::obj().with("text", Json::s(&clip(&text, 400))));
        }
        if rng.chance(1, 5) {
            // an A2ML text set through the API is content like any other
            for md in m0.project.module.iter_mut() {
                if let Some(a) = &mut md.a2ml {
                    a.a2ml_text.push_str("/* edited through the API */\n");
                    rec.bump("a2ml_text_edited_before_sort");
                }
            }
        }
        let mut ms = m0.clone();
        if let Err((sig, detail)) = guarded(|| ms.sort()) {
            rec.violation(&sig, &detail, witness_text("C14", &text, "sort()"));
            return None;
        }
        let ctx = Ctx {
            text: &text,
            what: "sort()",
        };
        // modules themselves are sorted by name: compare by name
        if m0.project.module.len() != ms.project.module.len() {
            rec.violation("sort(): number of modules changed", "", witness_text("C14", &text, ""));
            return None;
        }
        for mb in m0.project.module.iter() {
            match ms.project.module.get(mb.get_name()) {
                Some(ma) => compare_modules(mb, ma, rec, &ctx),
                None => rec.violation("sort(): module lost", mb.get_name(), witness_text("C14", &text, "")),
            }
        }
        if m0.project.header != ms.project.header || m0.asap2_version != ms.asap2_version || m0.a2ml_version != ms.a2ml_version {
            rec.violation("sort(): file level singleton changed", "", witness_text("C14", &text, ""));
        }
        // written text
        let t1 = match write(&ms) {
            Ok(t) => t,
            Err((sig, detail)) => {
                rec.violation(&sig, &detail, witness_text("C14", &text, "write after sort"));
                return None;
            }
        };
        // PROJECT level: HEADER first, then the MODULEs ascending by name
        if let Ok(po) = project_level_order(&t1) {
            let mods: Vec<&String> = po.iter().filter(|(k, _)| k == "MODULE").map(|(_, n)| n).collect();
            let header_pos = po.iter().position(|(k, _)| k == "HEADER");
            let sorted = mods.windows(2).all(|w| w[0] <= w[1]);
            if header_pos.is_some_and(|p| p != 0) || !sorted {
                rec.violation(
                    "sort(): blocks of PROJECT are not written as HEADER followed by the MODULEs in ascending order",
                    &format!("{po:?}"),
                    witness_text("C14", &text, &clip(&t1, 2000)),
                );
            }
            rec.add("project_level_blocks_checked", po.len() as u64);
        }
        match module_level_order(&t1) {
            Err(e) => rec.violation("sort(): written text not lexable", &e, witness_text("C14", &text, "")),
            Ok(per_module) => {
                for order in &per_module {
                    rec.add("written_elements_checked", order.len() as u64);
                    if let Err(msg) = check_written_order(order) {
                        rec.violation(
                            "sort(): written file is not grouped by kind / ascending by name",
                            &msg,
                            witness_text("C14", &text, &clip(&t1, 3000)),
                        );
                    }
                }
            }
        }
        // reload equality incl. order
        match load_str(&t1, false) {
            Ok(Ok((mr, _))) => {
                let mut n1 = ms.clone();
                let mut n2 = mr.clone();
                crate::c01::normalise_reserved(&mut n1);
                crate::c01::normalise_reserved(&mut n2);
                if mr != ms && n1 == n2 {
                    // the known C01 finding (RESERVED items written in position order), not sort()'s business
                    rec.bump("reload_differs_only_in_RESERVED_order(C01 finding)");
                } else if mr != ms && planted && {
                    // does the difference lie in the interpretation of IF_DATA only?
                    let strip = |f: &a2lfile::A2lFile| {
                        let mut f = f.clone();
                        for md in f.project.module.iter_mut() {
                            md.if_data.clear();
                        }
                        crate::c01::normalise_reserved(&mut f);
                        f
                    };
                    strip(&mr) == strip(&ms)
                } {
                    rec.violation(
                        "sort(): reloaded model differs from the sorted model [IF_DATA in front of the A2ML block that describes it]",
                        &crate::c01::model_diff(&ms, &mr),
                        witness_text("C14", &text, ""),
                    );
                } else if mr != ms {
                    rec.violation(
                        "sort(): reloaded model differs from the sorted model",
                        &crate::c01::model_diff(&ms, &mr),
                        witness_text("C14", &text, ""),
                    );
                }
            }
            Ok(Err(e)) => rec.violation(
                "sort(): written text does not load",
                &e.to_string(),
                witness_text("C14", &text, ""),
            ),
            Err((sig, detail)) => rec.violation(&sig, &detail, witness_text("C14", &text, "")),
        }
        // idempotence
        let mut ms2 = ms.clone();
        ms2.sort();
        if let Ok(t2) = write(&ms2) {
            if t2 != t1 {
                rec.violation(
                    "sort(): sorting a second time changes the written text",
                    &crate::gram::first_diff_line(&t1, &t2),
                    witness_text("C14", &text, ""),
                );
            }
        }
        if ms2 != ms {
            rec.violation("sort(): sorting a second time changes the model", "", witness_text("C14", &text, ""));
        }
        None
    });
    let _ = std::fs::remove_dir_all(&scratch);
    rec.floor("modules.1", 5);
    rec.floor("sorted_files_with_includes", 10);
    rec.floor("docs.with_conforming_if_data_in_front_of_the_a2ml_block", 5);
    rec.floor("modules.2", 5);
    rec.floor("elements_compared", 1000);
    rec.floor("written_elements_checked", 1000);
}

pub fn has_duplicate_names(a: &A2lFile) -> bool {
    fn dup<T: A2lObjectName>(l: &a2lfile::ItemList<T>) -> bool {
        let mut names: Vec<&str> = l.iter().map(|x| x.get_name()).collect();
        names.sort_unstable();
        names.windows(2).any(|w| w[0] == w[1])
    }
    if dup(&a.project.module) {
        return true;
    }
    for m in a.project.module.iter() {
        if dup(&m.axis_pts)
            || dup(&m.blob)
            || dup(&m.characteristic)
            || dup(&m.compu_method)
            || dup(&m.compu_tab)
            || dup(&m.compu_vtab)
            || dup(&m.compu_vtab_range)
            || dup(&m.frame)
            || dup(&m.function)
            || dup(&m.group)
            || dup(&m.instance)
            || dup(&m.measurement)
            || dup(&m.record_layout)
            || dup(&m.transformer)
            || dup(&m.typedef_axis)
            || dup(&m.typedef_blob)
            || dup(&m.typedef_characteristic)
            || dup(&m.typedef_measurement)
            || dup(&m.typedef_structure)
            || dup(&m.unit)
        {
            return true;
        }
        let mut ur: Vec<&str> = m.user_rights.iter().map(|u| u.user_level_id.as_str()).collect();
        ur.sort_unstable();
        if ur.windows(2).any(|w| w[0] == w[1]) {
            return true;
        }
    }
    false
}
