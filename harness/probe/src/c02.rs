//! C02 — content preservation: token-conservation monitor + numeric boundary sweep.

use crate::c01::{gen_cfg_wide, witness_text};
use crate::gram::{apply_position_rule, compare_tokens, load_str, write};
use vcommon::doc::{Child, Doc, Elem, Tok, Val, TK};
use vcommon::docgen::{containment_path, path_version_range, DocGen, GenCfg};
use vcommon::grammar::{Grammar, Item, PType};
use vcommon::json::{clip, Json};
use vcommon::layout::{render, LayoutCfg};
use vcommon::lexer::{lex, LK};
use vcommon::rng::Rng;
use vcommon::runtime::{run_cases, Args, Recorder};
use vcommon::values::int_bounds;

/// one boundary literal case: element tag, parameter index (flat token index in params), spelling
struct Boundary {
    tag: String,
    param_tok: usize,
    bits: u8,
    signed: bool,
    text: String,
    value: i128,
    fits: bool,
}

fn int_param_positions(g: &Grammar, tag: &str) -> Vec<(usize, u8, bool)> {
    // positions among the parameter tokens of a minimal instance (sequences with exactly one item)
    let mut out = Vec::new();
    let mut pos = 0;
    for item in &g.elem(tag).params {
        match item {
            Item::Single(f) => {
                if let PType::Int { bits, signed } = f.ty {
                    out.push((pos, bits, signed));
                }
                pos += 1;
            }
            Item::Array(f, n) => {
                if let PType::Int { bits, signed } = f.ty {
                    out.push((pos, bits, signed));
                    out.push((pos + n - 1, bits, signed));
                }
                pos += n;
            }
            Item::Seq(fields, _) => {
                for f in fields {
                    if let PType::Int { bits, signed } = f.ty {
                        out.push((pos, bits, signed));
                    }
                    pos += 1;
                }
            }
        }
    }
    out
}

fn float_param_positions(g: &Grammar, tag: &str) -> Vec<usize> {
    let mut out = Vec::new();
    let mut pos = 0;
    for item in &g.elem(tag).params {
        match item {
            Item::Single(f) => {
                if f.ty == PType::Float {
                    out.push(pos);
                }
                pos += 1;
            }
            Item::Array(_, n) => pos += n,
            Item::Seq(fields, _) => {
                for f in fields {
                    if f.ty == PType::Float {
                        out.push(pos);
                    }
                    pos += 1;
                }
            }
        }
    }
    out
}

fn boundary_literals(bits: u8, signed: bool) -> Vec<(String, i128, bool)> {
    let (lo, hi) = int_bounds(bits, signed);
    let umax = (1i128 << bits) - 1;
    let mut v: Vec<(String, i128, bool)> = Vec::new();
    let mut dec = |x: i128| v.push((format!("{x}"), x, x >= lo && x <= hi));
    dec(hi);
    dec(hi + 1);
    dec(2 * hi + 1);
    dec(lo);
    dec(lo - 1);
    dec(umax + 1);
    if bits < 64 {
        dec(1i128 << 40);
        dec(-(1i128 << 40));
    }
    // hexadecimal: up to `bits` significant bits fit (two's complement reading for signed fields)
    let mut hex = |x: i128| v.push((format!("0x{x:X}"), x, x <= umax));
    hex(hi);
    hex(umax);
    hex(umax + 1);
    hex(2 * umax + 1);
    if bits < 64 {
        hex(1i128 << 40);
        hex((1i128 << 63) + 5);
    }
    v
}

/// minimal instance with every sequence holding exactly one item (so that token positions are known)
fn minimal_with_single_seq(gen: &mut DocGen, rng: &mut Rng, tag: &str) -> Elem {
    let g = gen.g;
    let def = g.elem(tag);
    let mut e = Elem::new(tag, def.is_block, !def.opts.is_empty());
    for item in &def.params {
        match item {
            Item::Single(f) => e.params.push(gen.field_tok(rng, f)),
            Item::Array(f, n) => {
                for _ in 0..*n {
                    e.params.push(gen.field_tok(rng, f));
                }
            }
            Item::Seq(fields, _) => {
                for f in fields {
                    e.params.push(gen.field_tok(rng, f));
                }
            }
        }
    }
    for o in &def.opts {
        if o.required {
            e.children.push(Child::Elem(gen.gen_minimal(rng, &o.tag)));
        }
    }
    e
}

fn all_boundaries(g: &Grammar) -> Vec<Boundary> {
    let mut out = Vec::new();
    let mut tags = g.all_tags();
    tags.retain(|t| t != "A2L_FILE" && t != "A2ML" && t != "IF_DATA" && t != "ASAP2_VERSION" && t != "A2ML_VERSION");
    for tag in tags {
        for (pos, bits, signed) in int_param_positions(g, &tag) {
            for (text, value, fits) in boundary_literals(bits, signed) {
                out.push(Boundary {
                    tag: tag.clone(),
                    param_tok: pos,
                    bits,
                    signed,
                    text,
                    value,
                    fits,
                });
            }
        }
    }
    // float literals beyond the f64 range (bits = 0 marks a float field)
    let mut tags = g.all_tags();
    tags.retain(|t| t != "A2L_FILE" && t != "A2ML" && t != "IF_DATA");
    for tag in tags {
        if let Some(pos) = float_param_positions(g, &tag).first() {
            for text in ["1e999", "-1e999", "1.8e308", "123456789e400"] {
                out.push(Boundary {
                    tag: tag.clone(),
                    param_tok: *pos,
                    bits: 0,
                    signed: true,
                    text: text.to_string(),
                    value: 0,
                    fits: false,
                });
            }
        }
    }
    out
}

fn boundary_case(g: &Grammar, rng: &mut Rng, rec: &mut Recorder, b: &Boundary) {
    let Some(path) = containment_path(g, &b.tag) else {
        return;
    };
    let (lo, hi) = path_version_range(g, &path);
    if lo > hi {
        return;
    }
    let mut gen = DocGen::new(g, GenCfg::default());
    gen.version = hi;
    let mut target = minimal_with_single_seq(&mut gen, rng, &b.tag);
    if b.param_tok >= target.params.len() {
        return;
    }
    target.params[b.param_tok] = if b.bits == 0 {
        Tok::float(f64::INFINITY, b.text.clone())
    } else {
        Tok::int(b.value, b.text.clone())
    };
    let marker_before = Tok::word(TK::Ident, "zz_before");
    let _ = marker_before;
    let doc = gen.gen_doc_with(rng, &path, hi, target);
    let flat = doc.flatten();
    let r = render(&flat, &LayoutCfg::c05(rng), rng);
    rec.eval();
    if b.bits == 0 {
        float_boundary_case(rec, b, &r.text);
        return;
    }
    rec.bump(&format!("boundary.bits{}{}", b.bits, if b.signed { "s" } else { "u" }));
    rec.bump(if b.fits { "boundary.fits" } else { "boundary.does_not_fit" });
    rec.nontrivial(r.text.as_bytes());
    let hexdec = if b.text.starts_with("0x") { "hex" } else { "dec" };
    for strict in [false, true] {
        match load_str(&r.text, strict) {
            Err((sig, detail)) => rec.violation(&sig, &detail, witness_text("boundary sweep", &r.text, &b.text)),
            Ok(Err(_)) => {
                if b.fits {
                    rec.violation(
                        &format!("boundary literal that fits is rejected: {hexdec} {}bit {}", b.bits, if b.signed { "signed" } else { "unsigned" }),
                        &format!("{} parameter #{} literal {} fits the field but load failed", b.tag, b.param_tok, b.text),
                        witness_text("boundary sweep", &r.text, &b.text),
                    );
                }
                rec.bump("boundary.result.Err");
            }
            Ok(Ok((a2l, log))) => {
                // either a diagnostic was raised, or the written value equals the input value exactly
                let out = match write(&a2l) {
                    Ok(o) => o,
                    Err((sig, detail)) => {
                        rec.violation(&sig, &detail, witness_text("boundary sweep", &r.text, &b.text));
                        return;
                    }
                };
                let found = find_literal_in_output(&flat, &out, b);
                let preserved = matches!(found, Some(v) if v == b.value);
                if preserved {
                    rec.bump("boundary.result.preserved");
                } else if !log.is_empty() {
                    rec.bump("boundary.result.diagnosed");
                    if b.fits {
                        rec.violation(
                            &format!("boundary literal that fits is altered: {hexdec} {}bit {}", b.bits, if b.signed { "signed" } else { "unsigned" }),
                            &format!("{} parameter #{}: literal {} written back as {:?}", b.tag, b.param_tok, b.text, found),
                            witness_text("boundary sweep", &r.text, &b.text),
                        );
                    }
                } else {
                    rec.violation(
                        &format!(
                            "numeric literal silently changed: {hexdec} literal {} {}bit {} field",
                            if b.fits { "that fits" } else { "wider than" },
                            b.bits,
                            if b.signed { "signed" } else { "unsigned" }
                        ),
                        &format!(
                            "{} parameter #{}: input literal {} (value {}) was accepted without diagnostic (strict={strict}) and written back as {:?}",
                            b.tag, b.param_tok, b.text, b.value, found
                        ),
                        witness_text("boundary sweep", &r.text, &b.text),
                    );
                }
            }
        }
    }
}

fn float_boundary_case(rec: &mut Recorder, b: &Boundary, text: &str) {
    rec.bump("boundary.float_overflow");
    if std::env::var("VERIF_DUMP").is_ok() {
        eprintln!("{text}");
    }
    rec.nontrivial(text.as_bytes());
    for strict in [false, true] {
        match load_str(text, strict) {
            Err((sig, detail)) => rec.violation(&sig, &detail, witness_text("float boundary", text, &b.text)),
            Ok(Err(_)) => rec.bump("boundary.result.Err"),
            Ok(Ok((a2l, log))) => {
                if !log.is_empty() {
                    rec.bump("boundary.result.diagnosed");
                    continue;
                }
                let out = write(&a2l).unwrap_or_default();
                rec.violation(
                    "numeric literal silently changed: float literal beyond the f64 range accepted",
                    &format!(
                        "{} parameter #{}: literal {} was accepted without diagnostic (strict={strict}); written text contains inf: {}",
                        b.tag,
                        b.param_tok,
                        b.text,
                        out.contains("inf")
                    ),
                    witness_text("float boundary", text, &b.text),
                );
            }
        }
    }
}

/// value of the output token at the position of the boundary literal
fn find_literal_in_output(flat: &vcommon::doc::Flat, out: &str, b: &Boundary) -> Option<i128> {
    let toks = lex(out).ok()?;
    // index of the literal in the flat list
    let idx = flat
        .toks
        .iter()
        .position(|t| t.tok.kind == TK::Int && t.tok.text == b.text && t.param_idx == b.param_tok as i32 && flat.elem_tags[t.elem as usize] == b.tag)?;
    let t = toks.get(idx)?;
    if t.kind != LK::Num {
        return None;
    }
    match &t.val {
        Val::Int(v) => Some(*v),
        Val::Float(f) if f.fract() == 0.0 && f.abs() < 1e30 => Some(*f as i128),
        _ => None,
    }
}

fn wide_int_payload(rng: &mut Rng) -> (Vec<Tok>, &'static str) {
    // integers of any width in uninterpreted IF_DATA
    let v: i128 = match rng.below(10) {
        0 => i128::from(i32::MAX) + 1,
        1 => 4294967297,
        2 => i128::from(u32::MAX),
        3 => i128::from(i64::MAX),
        4 => i128::from(i32::MIN) - 1,
        5 => i128::from(i64::MAX) + 1,
        6 => i128::from(u64::MAX),
        7 => i128::from(i64::MAX) + 1 + i128::from(rng.next_u64() >> 1),
        8 => i128::from(i64::MIN),
        _ => (rng.next_u64() >> rng.below(30)) as i128,
    };
    let hex = v >= 0 && rng.coin();
    let text = if hex { format!("0x{v:X}") } else { format!("{v}") };
    let class = if v > i128::from(i64::MAX) {
        "unsigned 64 bit beyond i64"
    } else if v > i128::from(i32::MAX) || v < i128::from(i32::MIN) {
        "wider than 32 bit"
    } else {
        "32 bit"
    };
    (
        vec![
            Tok::word(TK::Ident, "VX_WIDE"),
            Tok::int(v, text),
            Tok::word(TK::Ident, "after"),
        ],
        class,
    )
}

/// "integers of any width": an integer literal that fits no 64-bit type, in IF_DATA that nothing
/// describes. It either passes through with its value intact or is diagnosed (load fails or logs
/// a problem); it is never silently changed.
fn huge_int_in_ifdata_case(rng: &mut Rng, rec: &mut Recorder) {
    let base: i128 = *rng.pick(&[
        1i128 << 64,
        (1i128 << 64) + 1,
        100_000_000_000_000_000_001,
        1_000_000_000_000_000_000_000_000_000_007,
        -(1i128 << 63) - 1,
        -10_000_000_000_000_000_000_000_003,
        (1i128 << 100) + 12345,
    ]);
    let v = if rng.coin() { base } else { base + i128::from(rng.below(1000) as u32) * base.signum() };
    let hex = v > 0 && rng.chance(1, 4);
    let lit = if hex { format!("0x{v:X}") } else { format!("{v}") };
    let site = rng.below(3);
    let ifd = format!("/begin IF_DATA VX_HUGE {lit} after /end IF_DATA");
    let text = match site {
        0 => format!("ASAP2_VERSION 1 71\n/begin PROJECT p \"\"\n/begin MODULE m \"\"\n{ifd}\n/end MODULE\n/end PROJECT\n"),
        1 => format!("ASAP2_VERSION 1 71\n/begin PROJECT p \"\"\n/begin MODULE m \"\"\n/begin MEASUREMENT x \"\" UBYTE NO_COMPU_METHOD 0 0 0 255\n{ifd}\n/end MEASUREMENT\n/end MODULE\n/end PROJECT\n"),
        _ => format!("ASAP2_VERSION 1 71\n/begin PROJECT p \"\"\n/begin MODULE m \"\"\n/begin IF_DATA VX_OUTER /begin BLK 1 {lit} \"s\" /end BLK /end IF_DATA\n/end MODULE\n/end PROJECT\n"),
    };
    rec.eval();
    rec.nontrivial(text.as_bytes());
    rec.bump("ifdata.integer_beyond_64_bit");
    rec.bump(if hex { "ifdata.integer_beyond_64_bit.hex" } else { "ifdata.integer_beyond_64_bit.dec" });
    for strict in [false, true] {
        match load_str(&text, strict) {
            Err((sig, detail)) => rec.violation(&sig, &detail, witness_text("integer beyond 64 bit in IF_DATA", &text, &lit)),
            Ok(Err(_)) => rec.bump("ifdata.integer_beyond_64_bit.result.Err"),
            Ok(Ok((a2l, log))) => {
                let out = match write(&a2l) {
                    Ok(o) => o,
                    Err((sig, detail)) => {
                        rec.violation(&sig, &detail, witness_text("integer beyond 64 bit in IF_DATA", &text, &lit));
                        return;
                    }
                };
                let preserved = vcommon::lexer::lex(&out)
                    .map(|toks| toks.iter().any(|t| matches!(&t.val, vcommon::doc::Val::Int(x) if *x == v)))
                    .unwrap_or(false);
                if preserved {
                    rec.bump("ifdata.integer_beyond_64_bit.result.preserved");
                } else if !log.is_empty() {
                    rec.bump("ifdata.integer_beyond_64_bit.result.diagnosed");
                } else {
                    rec.violation(
                        "numeric literal silently changed: integer beyond 64 bit in uninterpreted IF_DATA",
                        &format!("literal {lit} was accepted without a diagnostic and written as: {}", clip(out.split("IF_DATA").nth(1).unwrap_or(""), 200)),
                        witness_text("integer beyond 64 bit in IF_DATA", &text, &lit),
                    );
                }
            }
        }
    }
}

pub fn check_doc(rec: &mut Recorder, g: &Grammar, doc: &Doc, text: &str, origin: &str) -> bool {
    let mut expected = doc.clone();
    apply_position_rule(g, &mut expected);
    let flat = expected.flatten();
    let (a2l, _log) = match load_str(text, false) {
        Err((sig, detail)) => {
            rec.violation(&sig, &detail, witness_text(origin, text, ""));
            return false;
        }
        Ok(Err(e)) => {
            rec.bump("rejected");
            rec.violation(
                &format!("document generated from the reference grammar is rejected: {}", crate::gram::err_class(&e)),
                &e.to_string(),
                witness_text(origin, text, ""),
            );
            return false;
        }
        Ok(Ok(v)) => v,
    };
    rec.bump("accepted");
    let out = match write(&a2l) {
        Ok(o) => o,
        Err((sig, detail)) => {
            rec.violation(&sig, &detail, witness_text(origin, text, ""));
            return false;
        }
    };
    rec.add("tokens_compared", flat.toks.len() as u64);
    match compare_tokens(&flat, &out) {
        Ok(_) => true,
        Err(d) => {
            let f = crate::c01::features(text);
            let suffix = if f.multiline_block_comment && d.class.contains("comment") {
                " [multi-line block comment]"
            } else {
                ""
            };
            rec.violation(
                &format!("token mismatch: {}{suffix}", d.class),
                &format!("{}; output excerpt: {}", d.msg, excerpt(&out, &d)),
                witness_text(origin, text, ""),
            );
            false
        }
    }
}

fn excerpt(out: &str, _d: &crate::gram::TokenDiff) -> String {
    clip(out, 300)
}

pub fn run(args: &Args, rec: &mut Recorder) {
    rec.rule = "evaluation = one document loaded and written, its written text tokenised by an independent lexer and compared token by token (values normalised) with the generator's own token list after applying the documented position-restriction reordering; plus one evaluation per boundary literal (element x integer parameter x literal at/beyond the field limits, decimal and hex, strict and non-strict). distinct_nontrivial = distinct input texts by content hash".into();
    rec.assumptions.push("comments outside block-level slots and comments inside IF_DATA are not required to survive; floats in uninterpreted IF_DATA are compared at f32 precision (the library stores them as A2ML float)".into());
    let g = Grammar::load_default();
    let bounds = all_boundaries(&g);
    let n_bound = bounds.len() as u64;
    let n_docs: u64 = if args.thorough { 500_000 } else { 60_000 };
    rec.extra.insert("boundary_literals".into(), Json::UInt(if args.shard == 0 { n_bound } else { 0 }));
    run_cases(args, rec, n_bound + n_docs, crate::util::reset_budget, |rng, case, rec| {
        if case < n_bound {
            boundary_case(&g, rng, rec, &bounds[case as usize]);
            return None;
        }
        if case % 40 == 11 {
            huge_int_in_ifdata_case(rng, rec);
            return None;
        }
        if case % 20 == 7 {
            // IF_DATA interpreted through the A2ML block of the file: every value must be written back
            // exactly (integers with their value, floats and doubles exactly, strings, enum words, tags)
            // one document in three has literals beyond the f32 range at `float` members: they do not
            // fit the field, the block is kept as uninterpreted data and the literal passes through
            let huge = rng.chance(1, 3);
            vcommon::a2mlgen::HUGE_FLOATS.with(|h| h.set(huge));
            let (text, flat, _n) = crate::c18::gen_conforming_document(rng);
            vcommon::a2mlgen::HUGE_FLOATS.with(|h| h.set(false));
            rec.eval();
            rec.nontrivial(text.as_bytes());
            rec.bump("docs.a2ml_interpreted_if_data");
            if huge && (text.contains("e38") || text.contains("E+38") || text.contains("e39") || text.contains("e300")) {
                rec.bump("docs.a2ml_float_beyond_f32");
            }
            match load_str(&text, false) {
                Err((sig, detail)) => rec.violation(&sig, &detail, witness_text("G-a2ml", &text, "")),
                Ok(Err(e)) => rec.violation(
                    &format!("document with A2ML-conforming IF_DATA is rejected: {}", crate::gram::err_class(&e)),
                    &e.to_string(),
                    witness_text("G-a2ml", &text, ""),
                ),
                Ok(Ok((m, _))) => match write(&m) {
                    Err((sig, detail)) => rec.violation(&sig, &detail, witness_text("G-a2ml", &text, "")),
                    Ok(out) => match compare_tokens(&flat, &out) {
                        Err(d) => rec.violation(
                            &format!("token mismatch: {} [A2ML-interpreted IF_DATA]", d.class),
                            &d.msg,
                            witness_text("G-a2ml", &text, ""),
                        ),
                        Ok(toks) => {
                            if let Some((a, b)) = crate::gram::first_inexact_float(&flat, &toks) {
                                rec.violation(
                                    "numeric literal silently changed: float in A2ML-interpreted IF_DATA",
                                    &format!("`{a}` written as `{b}`"),
                                    witness_text("G-a2ml", &text, ""),
                                );
                            }
                        }
                    },
                },
            }
            return None;
        }
        let cfg = gen_cfg_wide(rng, args.thorough);
        let mut gen = DocGen::new(&g, cfg);
        let mut doc = gen.gen_doc(rng);
        // sometimes an IF_DATA with an integer wider than 32 bit (uninterpreted payload)
        let mut wide_class = "";
        if case % 5 == 0 {
            let (payload, class) = wide_int_payload(rng);
            wide_class = class;
            let module = first_module_mut(&mut doc);
            let mut ifd = Elem::new("IF_DATA", true, false);
            ifd.params = payload;
            module.children.push(Child::Elem(ifd));
            rec.bump(&format!("ifdata_int.{class}"));
        }
        let _ = wide_class;
        let flat = doc.flatten();
        let lc = match rng.below(3) {
            0 => LayoutCfg::c05(rng),
            _ => LayoutCfg::wide(rng),
        };
        let r = render(&flat, &lc, rng);
        rec.eval();
        for t in &flat.elem_tags {
            rec.bump(&format!("kind.{t}"));
        }
        rec.nontrivial(r.text.as_bytes());
        if rec.want_sample() && case % 89 == 5 {
            rec.sample(Json::obj().with("elements", Json::UInt(doc.count_elems() as u64)).with("text", Json::s(&clip(&r.text, 400))));
        }
        check_doc(rec, &g, &doc, &r.text, "G-doc");
        None
    });
    rec.floor("accepted", 10);
    rec.floor("boundary.does_not_fit", 1);
    rec.floor("boundary.fits", 1);
    rec.floor("ifdata.integer_beyond_64_bit.dec", 5);
    rec.floor("docs.a2ml_float_beyond_f32", 3);
    for e in &g.elements {
        for t in &e.tags {
            if t != "A2L_FILE" {
                rec.floor(&format!("kind.{t}"), 1);
            }
        }
    }
}

pub fn first_module_mut(doc: &mut Doc) -> &mut Elem {
    let p = doc.project_mut();
    for c in &mut p.children {
        if let Child::Elem(e) = c {
            if e.tag == "MODULE" {
                return e;
            }
        }
    }
    unreachable!("PROJECT without MODULE")
}
