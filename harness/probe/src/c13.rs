//! C13 — ItemList coherence: model-based conformance monitor.
//!
//! (a) exhaustive exploration of the abstract state space over a 4-name alphabet,
//! (b) literal enumeration of all operation sequences up to a bound,
//! (c) long random histories on lists of real `Measurement`s and of a test item type.

use a2lfile::{A2lObjectName, A2lObjectNameSetter, DataType, ItemList, Measurement};
use std::collections::{BTreeMap, BTreeSet, VecDeque};
use vcommon::json::Json;
use vcommon::rng::Rng;
use vcommon::runtime::{guarded, run_cases, Args, Recorder};

pub trait Item: A2lObjectName + A2lObjectNameSetter + Clone {
    fn make(name: &str, id: u64) -> Self;
    fn id(&self) -> u64;
    fn set_id(&mut self, id: u64);
}

#[derive(Clone, Debug, PartialEq)]
pub struct TestItem {
    name: String,
    id: u64,
}

impl A2lObjectName for TestItem {
    fn get_name(&self) -> &str {
        &self.name
    }
}
impl A2lObjectNameSetter for TestItem {
    fn set_name(&mut self, name: String) {
        self.name = name;
    }
}
impl Item for TestItem {
    fn make(name: &str, id: u64) -> Self {
        TestItem {
            name: name.to_string(),
            id,
        }
    }
    fn id(&self) -> u64 {
        self.id
    }
    fn set_id(&mut self, id: u64) {
        self.id = id;
    }
}

impl Item for Measurement {
    fn make(name: &str, id: u64) -> Self {
        let mut m = Measurement::new(
            name.to_string(),
            String::new(),
            DataType::Ubyte,
            "NO_COMPU_METHOD".to_string(),
            0,
            0.0,
            0.0,
            255.0,
        );
        m.long_identifier = id.to_string();
        m
    }
    fn id(&self) -> u64 {
        self.long_identifier.parse().unwrap_or(u64::MAX)
    }
    fn set_id(&mut self, id: u64) {
        self.long_identifier = id.to_string();
    }
}

type Model = Vec<(String, u64)>;

#[derive(Clone, Debug, PartialEq)]
pub enum Op {
    Push(String),
    Pop,
    SwapRemove(String),
    SwapRemoveIdx(usize),
    Retain(Vec<bool>),
    /// retain with a predicate that renames (through the `&mut T` it gets) items that it keeps:
    /// keep mask, new name per position (None = unchanged)
    RetainRename(Vec<bool>, Vec<Option<String>>),
    Truncate(usize),
    SortAsc,
    SortDesc,
    Rename(usize, String),
    Extend(Vec<String>),
    Clear,
    Collect,
    /// collect() from an iterator without an exact size hint (filter that keeps everything, chained
    /// with an empty iterator, flat_map)
    CollectInexact(u8),
    GetMut(String),
    CloneList,
    IterMutTouch,
}

impl Op {
    fn kind(&self) -> &'static str {
        match self {
            Op::Push(_) => "push",
            Op::Pop => "pop",
            Op::SwapRemove(_) => "swap_remove",
            Op::SwapRemoveIdx(_) => "swap_remove_idx",
            Op::Retain(_) => "retain",
            Op::RetainRename(..) => "retain(renaming predicate)",
            Op::Truncate(_) => "truncate",
            Op::SortAsc | Op::SortDesc => "sort_by",
            Op::Rename(..) => "rename_item",
            Op::Extend(_) => "extend",
            Op::Clear => "clear",
            Op::Collect => "collect",
            Op::CollectInexact(_) => "collect(inexact size hint)",
            Op::GetMut(_) => "get_mut",
            Op::CloneList => "clone",
            Op::IterMutTouch => "iter_mut",
        }
    }
    fn describe(&self) -> String {
        format!("{self:?}")
    }
}

/// argument class for the observation histogram
fn arg_class(op: &Op, model: &Model) -> String {
    let len = model.len();
    match op {
        Op::SwapRemove(n) => {
            let pos = model.iter().position(|(m, _)| m == n);
            match pos {
                None => "absent".into(),
                Some(p) if p + 1 == len => "last".into(),
                Some(0) => "first".into(),
                Some(_) => "middle".into(),
            }
        }
        Op::SwapRemoveIdx(i) | Op::Rename(i, _) => {
            if *i >= len {
                "out_of_range".into()
            } else if *i + 1 == len {
                "last".into()
            } else if *i == 0 {
                "first".into()
            } else {
                "middle".into()
            }
        }
        Op::Truncate(k) => {
            if *k > len {
                "beyond".into()
            } else if *k == len {
                "same".into()
            } else if *k == 0 {
                "zero".into()
            } else {
                "shorter".into()
            }
        }
        Op::Pop => {
            if len == 0 {
                "empty".into()
            } else {
                "nonempty".into()
            }
        }
        Op::GetMut(n) => {
            if model.iter().any(|(m, _)| m == n) {
                "present".into()
            } else {
                "absent".into()
            }
        }
        Op::RetainRename(mask, _) => {
            let kept = mask.iter().filter(|b| **b).count();
            if kept == mask.len() { "all".into() } else { "some".into() }
        }
        Op::Retain(mask) => {
            let kept = mask.iter().filter(|b| **b).count();
            if kept == mask.len() {
                "all".into()
            } else if kept == 0 {
                "none".into()
            } else {
                "some".into()
            }
        }
        _ => "-".into(),
    }
}

fn apply_model(model: &mut Model, op: &Op, next_id: &mut u64) {
    match op {
        Op::Push(n) => {
            model.push((n.clone(), *next_id));
            *next_id += 1;
        }
        Op::Pop => {
            model.pop();
        }
        Op::SwapRemove(n) => {
            if let Some(p) = model.iter().position(|(m, _)| m == n) {
                model.swap_remove(p);
            }
        }
        Op::SwapRemoveIdx(i) => {
            if *i < model.len() {
                model.swap_remove(*i);
            }
        }
        Op::Retain(mask) => {
            let mut k = 0;
            model.retain(|_| {
                let keep = mask.get(k).copied().unwrap_or(true);
                k += 1;
                keep
            });
        }
        Op::RetainRename(mask, names) => {
            let mut k = 0;
            model.retain_mut(|e| {
                let keep = mask.get(k).copied().unwrap_or(true);
                if keep {
                    if let Some(Some(n)) = names.get(k) {
                        e.0 = n.clone();
                    }
                }
                k += 1;
                keep
            });
        }
        Op::Truncate(k) => model.truncate(*k),
        Op::SortAsc => model.sort_by(|a, b| a.0.cmp(&b.0)),
        Op::SortDesc => model.sort_by(|a, b| b.0.cmp(&a.0)),
        Op::Rename(i, n) => {
            if *i < model.len() {
                model[*i].0 = n.clone();
            }
        }
        Op::Extend(names) => {
            for n in names {
                model.push((n.clone(), *next_id));
                *next_id += 1;
            }
        }
        Op::Clear => model.clear(),
        Op::Collect | Op::CollectInexact(_) | Op::CloneList => {}
        Op::GetMut(n) => {
            if let Some(p) = model.iter().position(|(m, _)| m == n) {
                model[p].1 = *next_id;
                *next_id += 1;
            }
        }
        Op::IterMutTouch => {
            for e in model.iter_mut() {
                e.1 += 1_000_000;
            }
        }
    }
}

/// returns Err(description) if the *result value* of the operation is wrong
fn apply_real<T: Item>(
    list: &mut ItemList<T>,
    op: &Op,
    model_before: &Model,
    next_id: &mut u64,
) -> Result<(), String> {
    match op {
        Op::Push(n) => {
            list.push(T::make(n, *next_id));
            *next_id += 1;
        }
        Op::Pop => {
            let got = list.pop().map(|i| (i.get_name().to_string(), i.id()));
            let want = model_before.last().cloned();
            if got != want {
                return Err(format!("pop returned {got:?}, model says {want:?}"));
            }
        }
        Op::SwapRemove(n) => {
            let got = list
                .swap_remove(n)
                .map(|i| (i.get_name().to_string(), i.id()));
            let want = model_before.iter().find(|(m, _)| m == n).cloned();
            if got != want {
                return Err(format!("swap_remove returned {got:?}, model says {want:?}"));
            }
        }
        Op::SwapRemoveIdx(i) => {
            let got = list
                .swap_remove_idx(*i)
                .map(|i| (i.get_name().to_string(), i.id()));
            let want = model_before.get(*i).cloned();
            if got != want {
                return Err(format!(
                    "swap_remove_idx returned {got:?}, model says {want:?}"
                ));
            }
        }
        Op::Retain(mask) => {
            let mut k = 0;
            let mut seen = Vec::new();
            list.retain(|item| {
                seen.push(item.get_name().to_string());
                let keep = mask.get(k).copied().unwrap_or(true);
                k += 1;
                keep
            });
            let want: Vec<String> = model_before.iter().map(|(n, _)| n.clone()).collect();
            if seen != want {
                return Err(format!(
                    "retain visited {seen:?}, model order is {want:?}"
                ));
            }
        }
        Op::RetainRename(mask, names) => {
            let mut k = 0;
            list.retain(|item| {
                let keep = mask.get(k).copied().unwrap_or(true);
                if keep {
                    if let Some(Some(n)) = names.get(k) {
                        item.set_name(n.clone());
                    }
                }
                k += 1;
                keep
            });
        }
        Op::Truncate(k) => list.truncate(*k),
        Op::SortAsc => list.sort_by(|a, b| a.get_name().cmp(b.get_name())),
        Op::SortDesc => list.sort_by(|a, b| b.get_name().cmp(a.get_name())),
        Op::Rename(i, n) => list.rename_item(*i, n),
        Op::Extend(names) => {
            let items: Vec<T> = names
                .iter()
                .map(|n| {
                    let it = T::make(n, *next_id);
                    *next_id += 1;
                    it
                })
                .collect();
            list.extend(items);
        }
        Op::Clear => list.clear(),
        Op::Collect => {
            let old = std::mem::take(list);
            *list = old.into_iter().collect();
        }
        Op::CollectInexact(how) => {
            let old = std::mem::take(list);
            *list = match how % 3 {
                0 => old.into_iter().filter(|_| true).collect(),
                1 => old.into_iter().flat_map(|x| std::iter::once(x)).collect(),
                _ => old.into_iter().skip_while(|_| false).collect(),
            };
        }
        Op::CloneList => {
            let c = list.clone();
            *list = c;
        }
        Op::GetMut(n) => {
            let want = model_before.iter().any(|(m, _)| m == n);
            match list.get_mut(n) {
                Some(it) => {
                    if !want {
                        return Err(format!("get_mut({n}) found an item, model has none"));
                    }
                    if it.get_name() != n {
                        return Err(format!(
                            "get_mut({n}) returned item named {}",
                            it.get_name()
                        ));
                    }
                    it.set_id(*next_id);
                    *next_id += 1;
                }
                None => {
                    if want {
                        return Err(format!("get_mut({n}) found nothing, model has it"));
                    }
                }
            }
        }
        Op::IterMutTouch => {
            for it in list.iter_mut() {
                let id = it.id();
                it.set_id(id + 1_000_000);
            }
        }
    }
    Ok(())
}

/// full observation of the list through its public API, compared with the model
fn check<T: Item>(list: &ItemList<T>, model: &Model, probe_names: &[String]) -> Result<(), String> {
    if list.len() != model.len() {
        return Err(format!("len() = {}, model {}", list.len(), model.len()));
    }
    if list.is_empty() != model.is_empty() {
        return Err("is_empty() disagrees".into());
    }
    let it: Vec<(String, u64)> = list
        .iter()
        .map(|i| (i.get_name().to_string(), i.id()))
        .collect();
    if &it != model {
        return Err(format!("iteration order {it:?}, model {model:?}"));
    }
    let it2: Vec<(String, u64)> = (&*list)
        .into_iter()
        .map(|i| (i.get_name().to_string(), i.id()))
        .collect();
    if &it2 != model {
        return Err("IntoIterator(&list) disagrees".into());
    }
    for (i, (n, id)) in model.iter().enumerate() {
        let by_pos = &list[i];
        if by_pos.get_name() != n || by_pos.id() != *id {
            return Err(format!("list[{i}] is {}, model {n}", by_pos.get_name()));
        }
        match list.index(n) {
            Some(p) if p == i => {}
            other => return Err(format!("index({n}) = {other:?}, model {i}")),
        }
        match list.get(n) {
            Some(item) if item.get_name() == n && item.id() == *id => {}
            Some(item) => {
                return Err(format!(
                    "get({n}) returned {} (id {}), expected id {id}",
                    item.get_name(),
                    item.id()
                ))
            }
            None => return Err(format!("get({n}) = None, but it is stored at {i}")),
        }
        if !list.contains_key(n) {
            return Err(format!("contains_key({n}) false for a stored element"));
        }
        let by_name = &list[n.as_str()];
        if by_name.id() != *id {
            return Err(format!("list[\"{n}\"] returned a different element"));
        }
    }
    for n in probe_names {
        if !model.iter().any(|(m, _)| m == n) {
            if list.get(n).is_some() {
                return Err(format!("get({n}) finds a removed/renamed name"));
            }
            if list.index(n).is_some() {
                return Err(format!("index({n}) finds a removed/renamed name"));
            }
            if list.contains_key(n) {
                return Err(format!("contains_key({n}) true for a removed/renamed name"));
            }
        }
    }
    let keys: BTreeSet<String> = list.keys().cloned().collect();
    let want: BTreeSet<String> = model.iter().map(|(n, _)| n.clone()).collect();
    if keys != want || list.keys().count() != model.len() {
        return Err(format!("keys() = {keys:?}, model {want:?}"));
    }
    let first = list.first().map(|i| i.get_name().to_string());
    if first != model.first().map(|m| m.0.clone()) {
        return Err("first() disagrees".into());
    }
    let last = list.last().map(|i| i.get_name().to_string());
    if last != model.last().map(|m| m.0.clone()) {
        return Err("last() disagrees".into());
    }
    Ok(())
}

fn all_ops(model: &Model, alphabet: &[String]) -> Vec<Op> {
    let len = model.len();
    let absent: Vec<String> = alphabet
        .iter()
        .filter(|n| !model.iter().any(|(m, _)| m == *n))
        .cloned()
        .collect();
    let mut ops = Vec::new();
    for n in &absent {
        ops.push(Op::Push(n.clone()));
    }
    ops.push(Op::Pop);
    for n in alphabet {
        ops.push(Op::SwapRemove(n.clone()));
        ops.push(Op::GetMut(n.clone()));
    }
    for i in 0..=len + 1 {
        ops.push(Op::SwapRemoveIdx(i));
        ops.push(Op::Truncate(i));
    }
    for mask in 0..(1u32 << len) {
        ops.push(Op::Retain((0..len).map(|b| mask & (1 << b) != 0).collect()));
    }
    // retain whose predicate renames one of the items it keeps to a name that is not in the list
    for mask in 0..(1u32 << len) {
        for i in 0..len {
            if mask & (1 << i) == 0 {
                continue;
            }
            for n in &absent {
                let mut names = vec![None; len];
                names[i] = Some(n.clone());
                ops.push(Op::RetainRename((0..len).map(|b| mask & (1 << b) != 0).collect(), names));
            }
        }
    }
    ops.push(Op::SortAsc);
    ops.push(Op::SortDesc);
    for i in 0..=len {
        for n in &absent {
            ops.push(Op::Rename(i, n.clone()));
        }
        if i < len {
            ops.push(Op::Rename(i, model[i].0.clone()));
        }
    }
    for a in &absent {
        ops.push(Op::Extend(vec![a.clone()]));
        for b in &absent {
            if a != b {
                ops.push(Op::Extend(vec![a.clone(), b.clone()]));
            }
        }
    }
    ops.push(Op::Extend(vec![]));
    ops.push(Op::Clear);
    ops.push(Op::Collect);
    for how in 0..3 {
        ops.push(Op::CollectInexact(how));
    }
    ops.push(Op::CloneList);
    ops.push(Op::IterMutTouch);
    ops
}

fn witness(history: &[Op], op: &Op, model: &Model) -> Json {
    Json::obj()
        .with(
            "history",
            Json::Arr(history.iter().map(|o| Json::s(&o.describe())).collect()),
        )
        .with("failing_op", Json::s(&op.describe()))
        .with(
            "model_before",
            Json::Arr(model.iter().map(|(n, _)| Json::s(n)).collect()),
        )
}

/// execute one op on list+model under the crash monitor, then run the full check.
/// Returns false if the concrete list can no longer be trusted (panic or mismatch).
fn step<T: Item>(
    rec: &mut Recorder,
    list: &mut ItemList<T>,
    model: &mut Model,
    op: &Op,
    next_id: &mut u64,
    probe: &[String],
    history: &[Op],
    part: &str,
) -> bool {
    rec.bump(&format!("op.{}.{}", op.kind(), arg_class(op, model)));
    let before = model.clone();
    let mut id_real = *next_id;
    let r = guarded(|| apply_real(list, op, &before, &mut id_real));
    apply_model(model, op, next_id);
    match r {
        Err((sig, detail)) => {
            rec.violation(
                &format!("{sig} op={} arg={}", op.kind(), arg_class(op, &before)),
                &format!("{part}: {detail} during {}", op.describe()),
                witness(history, op, &before),
            );
            false
        }
        Ok(Err(msg)) => {
            rec.violation(
                &format!("mismatch result op={} arg={}", op.kind(), arg_class(op, &before)),
                &format!("{part}: {msg}"),
                witness(history, op, &before),
            );
            false
        }
        Ok(Ok(())) => {
            let c = guarded(|| check(list, model, probe));
            match c {
                Err((sig, detail)) => {
                    rec.violation(
                        &format!("{sig} after op={}", op.kind()),
                        &format!("{part}: observation panicked: {detail} after {}", op.describe()),
                        witness(history, op, &before),
                    );
                    false
                }
                Ok(Err(msg)) => {
                    rec.violation(
                        &format!("mismatch state op={} arg={}", op.kind(), arg_class(op, &before)),
                        &format!("{part}: after {}: {msg}", op.describe()),
                        witness(history, op, &before),
                    );
                    false
                }
                Ok(Ok(())) => true,
            }
        }
    }
}

fn alphabet4() -> Vec<String> {
    ["A", "B", "C", "D"].iter().map(|s| s.to_string()).collect()
}

/// (a) state-space exploration
fn explore_states<T: Item>(rec: &mut Recorder, label: &str) {
    let alphabet = alphabet4();
    let mut probe = alphabet.clone();
    probe.push("ZZ_absent".to_string());
    let mut seen: BTreeMap<Vec<String>, ()> = BTreeMap::new();
    let mut queue: VecDeque<(ItemList<T>, Model, Vec<Op>)> = VecDeque::new();
    queue.push_back((ItemList::new(), Vec::new(), Vec::new()));
    seen.insert(Vec::new(), ());
    let mut transitions = 0u64;
    while let Some((list, model, hist)) = queue.pop_front() {
        for op in all_ops(&model, &alphabet) {
            let mut l2 = list.clone();
            let mut m2 = model.clone();
            let mut next_id = 1000 + hist.len() as u64 * 10;
            transitions += 1;
            rec.eval();
            let ok = step(rec, &mut l2, &mut m2, &op, &mut next_id, &probe, &hist, label);
            if ok {
                let key: Vec<String> = m2.iter().map(|(n, _)| n.clone()).collect();
                if !seen.contains_key(&key) {
                    seen.insert(key, ());
                    let mut h2 = hist.clone();
                    h2.push(op.clone());
                    queue.push_back((l2, m2, h2));
                }
            }
        }
    }
    rec.add(&format!("{label}.states"), seen.len() as u64);
    rec.add(&format!("{label}.transitions"), transitions);
}

/// (b) literal enumeration of all sequences up to `depth`
fn enumerate<T: Item>(
    rec: &mut Recorder,
    list: &ItemList<T>,
    model: &Model,
    hist: &mut Vec<Op>,
    depth: usize,
    probe: &[String],
    alphabet: &[String],
    shard: Option<(u64, u64)>,
) {
    if depth == 0 {
        return;
    }
    let ops = all_ops(model, alphabet);
    for (k, op) in ops.iter().enumerate() {
        if let Some((s, n)) = shard {
            if k as u64 % n != s {
                continue;
            }
        }
        let mut l2 = list.clone();
        let mut m2 = model.clone();
        let mut next_id = 1000 + hist.len() as u64 * 10;
        rec.eval();
        rec.bump("enum.steps");
        let ok = step(rec, &mut l2, &mut m2, op, &mut next_id, probe, hist, "enum");
        if depth == 1 {
            // a complete sequence
            let mut hb = Vec::new();
            for o in hist.iter() {
                hb.extend_from_slice(o.describe().as_bytes());
            }
            hb.extend_from_slice(op.describe().as_bytes());
            rec.nontrivial(&hb);
            rec.bump("enum.sequences");
        }
        if ok {
            hist.push(op.clone());
            enumerate(rec, &l2, &m2, hist, depth - 1, probe, alphabet, None);
            hist.pop();
        }
    }
}

fn random_op(rng: &mut Rng, model: &Model, pool: &[String]) -> Op {
    let len = model.len();
    let fresh = |rng: &mut Rng| -> Option<String> {
        for _ in 0..20 {
            let n = rng.pick(pool);
            if !model.iter().any(|(m, _)| m == n) {
                return Some(n.clone());
            }
        }
        None
    };
    let present = |rng: &mut Rng| -> String {
        if len > 0 && rng.chance(4, 5) {
            // favour the boundaries
            match rng.below(4) {
                0 => model[len - 1].0.clone(),
                1 => model[0].0.clone(),
                _ => model[rng.below(len)].0.clone(),
            }
        } else {
            rng.pick(pool).clone()
        }
    };
    let idx = |rng: &mut Rng| -> usize {
        match rng.below(6) {
            0 => len,
            1 => len + 1 + rng.below(5),
            2 if len > 0 => len - 1,
            3 => 0,
            _ => {
                if len > 0 {
                    rng.below(len)
                } else {
                    0
                }
            }
        }
    };
    loop {
        let op = match rng.below(28) {
            0..=8 => match fresh(rng) {
                Some(n) => Op::Push(n),
                None => continue,
            },
            9 => Op::Pop,
            10 | 11 => Op::SwapRemove(present(rng)),
            12 | 13 => Op::SwapRemoveIdx(idx(rng)),
            14 => {
                let keep_pct = *rng.pick(&[0u32, 50, 90, 100]);
                Op::Retain((0..len).map(|_| rng.chance(keep_pct, 100)).collect())
            }
            15 => Op::Truncate(if rng.chance(1, 3) {
                idx(rng)
            } else {
                len.saturating_sub(rng.below(3))
            }),
            16 => Op::SortAsc,
            17 if rng.chance(1, 2) && len > 0 => match fresh(rng) {
                Some(n) => {
                    let mask: Vec<bool> = (0..len).map(|_| rng.chance(3, 4)).collect();
                    let mut names = vec![None; len];
                    let kept: Vec<usize> = (0..len).filter(|i| mask[*i]).collect();
                    if kept.is_empty() {
                        continue;
                    }
                    names[kept[rng.below(kept.len())]] = Some(n);
                    Op::RetainRename(mask, names)
                }
                None => continue,
            },
            17 => Op::SortDesc,
            18 | 19 => match fresh(rng) {
                Some(n) => Op::Rename(idx(rng), n),
                None => continue,
            },
            20 | 21 => {
                let k = rng.below(6);
                let mut names: Vec<String> = Vec::new();
                for _ in 0..k {
                    if let Some(n) = fresh(rng) {
                        if !names.contains(&n) {
                            names.push(n);
                        }
                    }
                }
                Op::Extend(names)
            }
            22 => {
                if rng.chance(1, 10) {
                    Op::Clear
                } else {
                    continue;
                }
            }
            23 => {
                if rng.coin() {
                    Op::Collect
                } else {
                    Op::CollectInexact(rng.below(3) as u8)
                }
            }
            24 => Op::GetMut(present(rng)),
            25 => Op::CloneList,
            26 => Op::IterMutTouch,
            _ => Op::SwapRemove(present(rng)),
        };
        return op;
    }
}

fn random_history<T: Item>(rng: &mut Rng, rec: &mut Recorder, label: &str, steps: usize, max_len: usize) {
    let pool: Vec<String> = (0..max_len + 100).map(|i| format!("n{i}")).collect();
    let mut probe: Vec<String> = Vec::new();
    let mut list: ItemList<T> = ItemList::new();
    let mut model: Model = Vec::new();
    let mut next_id = 1;
    let mut hist: Vec<Op> = Vec::new();
    let mut hb: Vec<u8> = Vec::new();
    let mut maxlen = 0;
    for _ in 0..steps {
        let mut op = random_op(rng, &model, &pool);
        if model.len() >= max_len {
            if let Op::Push(_) | Op::Extend(_) = op {
                op = Op::SwapRemoveIdx(rng.below(model.len() + 1));
            }
        }
        // probe names: names touched recently (so removed / renamed-away names are observed)
        match &op {
            Op::SwapRemove(n) | Op::Rename(_, n) | Op::GetMut(n) => probe.push(n.clone()),
            Op::SwapRemoveIdx(i) | Op::Rename(i, _) if *i < model.len() => {
                probe.push(model[*i].0.clone())
            }
            Op::Pop => {
                if let Some(l) = model.last() {
                    probe.push(l.0.clone());
                }
            }
            _ => {}
        }
        if let Op::Rename(i, _) = &op {
            if *i < model.len() {
                probe.push(model[*i].0.clone());
            }
        }
        if let Op::RetainRename(_, names) = &op {
            for (i, n) in names.iter().enumerate() {
                if let Some(n) = n {
                    probe.push(n.clone());
                    probe.push(model[i].0.clone());
                }
            }
        }
        if probe.len() > 12 {
            probe.drain(0..probe.len() - 12);
        }
        hb.extend_from_slice(op.describe().as_bytes());
        rec.eval();
        let ok = step(rec, &mut list, &mut model, &op, &mut next_id, &probe, &hist, label);
        if hist.len() < 40 {
            hist.push(op);
        }
        maxlen = maxlen.max(model.len());
        if !ok {
            // rebuild a trustworthy list from the model and continue
            list = model.iter().map(|(n, id)| T::make(n, *id)).collect();
            hist.clear();
        }
    }
    rec.nontrivial(&hb);
    rec.bump(&format!("{label}.histories"));
    let bucket = match maxlen {
        0..=9 => "lt10",
        10..=99 => "10..99",
        _ => "ge100",
    };
    rec.bump(&format!("{label}.maxlen.{bucket}"));
    if rec.want_sample() {
        rec.sample(
            Json::obj()
                .with("part", Json::s(label))
                .with(
                    "first_ops",
                    Json::Arr(hist.iter().take(12).map(|o| Json::s(&o.describe())).collect()),
                )
                .with("steps", Json::UInt(steps as u64))
                .with("max_list_len", Json::UInt(maxlen as u64)),
        );
    }
}

pub fn run(args: &Args, rec: &mut Recorder) {
    rec.rule = "evaluation = one operation executed on a real ItemList followed by a full observation \
        (len, iteration, index, get, contains_key, list[i], list[name], keys, first, last) compared with a \
        vector-of-names model; distinct_nontrivial = distinct complete operation sequences (enumeration part) \
        plus distinct random histories, by hash of the operation text".into();
    rec.assumptions.push("names are unique (pushes/renames onto an existing name are not generated); Index with an absent key / out-of-range index is a documented panic and not generated".into());
    let enum_depth = if args.thorough { 4 } else { 3 };
    // (a) only in shard 0 (it is tiny)
    if args.shard == 0 && args.only_case.is_none() && args.resume_from == 0 {
        explore_states::<TestItem>(rec, "explore.TestItem");
        explore_states::<Measurement>(rec, "explore.Measurement");
    }
    // (b) enumeration, sharded by first operation
    if args.only_case.is_none() && args.resume_from == 0 {
        let alphabet = alphabet4();
        let mut probe = alphabet.clone();
        probe.push("ZZ_absent".to_string());
        let mut hist = Vec::new();
        enumerate::<TestItem>(
            rec,
            &ItemList::new(),
            &Vec::new(),
            &mut hist,
            enum_depth,
            &probe,
            &alphabet,
            Some((args.shard, args.nshards)),
        );
        // sequences starting from a full list (so that removals are exercised at every depth)
        let full: ItemList<TestItem> = alphabet
            .iter()
            .enumerate()
            .map(|(i, n)| TestItem::make(n, i as u64))
            .collect();
        let fm: Model = alphabet.iter().enumerate().map(|(i, n)| (n.clone(), i as u64)).collect();
        let mut hist = vec![Op::Extend(alphabet.clone())];
        enumerate::<TestItem>(
            rec,
            &full,
            &fm,
            &mut hist,
            enum_depth - 1,
            &probe,
            &alphabet,
            Some((args.shard, args.nshards)),
        );
    }
    // (c) random histories
    let n_hist: u64 = if args.thorough { 100_000 } else { 8_000 };
    run_cases(args, rec, n_hist, crate::util::reset_budget, |rng, case, rec| {
        let max_len = *rng.pick(&[8usize, 40, 500]);
        if case % 2 == 0 {
            random_history::<Measurement>(rng, rec, "random.Measurement", 1000, max_len);
        } else {
            random_history::<TestItem>(rng, rec, "random.TestItem", 1000, max_len);
        }
        None
    });
    // coverage floors: every operation kind with its interesting argument classes observed
    for k in [
        "op.push.-",
        "op.pop.nonempty",
        "op.pop.empty",
        "op.swap_remove.last",
        "op.swap_remove.first",
        "op.swap_remove.middle",
        "op.swap_remove.absent",
        "op.swap_remove_idx.last",
        "op.swap_remove_idx.first",
        "op.swap_remove_idx.out_of_range",
        "op.retain.some",
        "op.retain.none",
        "op.retain.all",
        "op.retain(renaming predicate).some",
        "op.retain(renaming predicate).all",
        "op.truncate.shorter",
        "op.truncate.beyond",
        "op.truncate.zero",
        "op.sort_by.-",
        "op.rename_item.last",
        "op.rename_item.out_of_range",
        "op.extend.-",
        "op.clear.-",
        "op.collect.-",
        "op.get_mut.present",
        "op.get_mut.absent",
    ] {
        rec.floor(k, 1);
    }
    if args.shard == 0 && args.only_case.is_none() && args.resume_from == 0 {
        rec.floor("explore.TestItem.states", 65);
        rec.floor("explore.Measurement.states", 65);
    }
}
