use vcommon::docgen::{DocGen, GenCfg};
use vcommon::grammar::Grammar;
use vcommon::layout::{render, LayoutCfg};
use vcommon::rng::Rng;
use vcommon::runtime::{Args, Recorder};

pub fn run(args: &Args, _rec: &mut Recorder) {
    let g = Grammar::load_default();
    println!("elements: {} tags: {} enums: {}", g.elements.len(), g.by_tag.len(), g.enums.len());
    let mut rng = Rng::new(args.seed);
    let mut gc = GenCfg::default(); gc.canonical_positions = true; gc.comments_pct = 10; let mut gen = DocGen::new(&g, gc);
    let mode = args.extra.get("mode").cloned().unwrap_or_default();
    for i in 0..5 {
        let doc = gen.gen_doc(&mut rng);
        let flat = doc.flatten();
        let cfg = match mode.as_str() {
            "wide" => LayoutCfg::wide(&mut rng),
            "c05" => LayoutCfg::c05(&mut rng),
            _ => LayoutCfg::canonical(),
        };
        let r = render(&flat, &cfg, &mut rng);
        let res = a2lfile::load_from_string(&r.text, None, true);
        match res {
            Ok((a2l, log)) => {
                let out = a2l.write_to_string();
                println!("doc {i}: elems {} bytes {} log {} same={}", doc.count_elems(), r.text.len(), log.len(), out == r.text);
                if out != r.text && !std::path::Path::new("/tmp/smoke_in.a2l").exists() {
                    std::fs::write("/tmp/smoke_in.a2l", &r.text).unwrap();
                    std::fs::write("/tmp/smoke_out.a2l", &out).unwrap();
                }
            }
            Err(e) => {
                println!("doc {i}: ERR {e}");
                std::fs::write("/tmp/smoke_err.a2l", &r.text).unwrap();
            }
        }
    }
}

pub fn bt() {
    let bt = std::backtrace::Backtrace::force_capture().to_string();
    println!("{bt}");
}
