//! C05 — layout preservation and edit locality.

use crate::c01::witness_text;
use crate::gram::{compare_tokens, first_diff_line, load_str, write};
use a2lfile::{A2lFile, A2lObjectName};
use vcommon::docgen::{DocGen, GenCfg};
use vcommon::grammar::Grammar;
use vcommon::json::{clip, Json};
use vcommon::layout::{render, LayoutCfg};
use vcommon::lexer::{lex, LTok, LK};
use vcommon::rng::Rng;
use vcommon::runtime::{run_cases, Args, Recorder};

fn c05_gen_cfg(rng: &mut Rng, thorough: bool) -> GenCfg {
    let mut cfg = GenCfg::default();
    cfg.max_elems = *rng.pick(&[15usize, 60, if thorough { 300 } else { 150 }]);
    cfg.opt_pct = rng.urange(10, 60) as u32;
    cfg.comments_pct = *rng.pick(&[0u32, 5, 15]);
    cfg.multiline_comments = true;
    cfg.canonical_positions = true;
    cfg.vals.raw_breaks_in_strings = false;
    cfg
}

/// token index range [a, b] of `/begin KIND name ... /end KIND` in a lexed text
fn find_block(toks: &[LTok], kind: &str, name: &str) -> Option<(usize, usize)> {
    let mut i = 0;
    while i + 2 < toks.len() {
        if toks[i].kind == LK::Begin
            && toks[i + 1].kind == LK::Word
            && toks[i + 1].text == kind
            && toks[i + 2].kind == LK::Word
            && toks[i + 2].text == name
        {
            let mut depth = 0;
            let mut j = i;
            while j < toks.len() {
                match toks[j].kind {
                    LK::Begin => depth += 1,
                    LK::End => {
                        depth -= 1;
                        if depth == 0 {
                            return Some((i, j + 1)); // include the tag after /end
                        }
                    }
                    _ => {}
                }
                j += 1;
            }
            return None;
        }
        i += 1;
    }
    None
}

fn line_end(t: &LTok) -> u32 {
    t.line + t.text.matches('\n').count() as u32
}

/// the object does not share its first or last line with other tokens
fn isolated(toks: &[LTok], a: usize, b: usize) -> bool {
    let b = b.min(toks.len() - 1);
    (a == 0 || toks[a].line > line_end(&toks[a - 1]))
        && (b + 1 >= toks.len() || toks[b + 1].line > line_end(&toks[b]))
}

/// the edit-locality oracle: `o1`/`o2` are the texts before/after the edit; `x1` is the token range
/// of the edited object in o1 (None for a pure insertion), `x2` its range in o2 (None for a removal).
fn locality(o1: &str, o2: &str, x1: Option<(usize, usize)>, x2: Option<(usize, usize)>) -> Result<(), String> {
    let t1 = lex(o1).map_err(|e| format!("o1 unlexable: {e}"))?;
    let t2 = lex(o2).map_err(|e| format!("o2 unlexable: {e}"))?;
    let (a1, b1) = x1.map_or((usize::MAX, usize::MAX), |r| r);
    let (a2, b2) = x2.map_or((usize::MAX, usize::MAX), |r| r);
    let in1 = |i: usize| x1.is_some() && i >= a1 && i <= b1;
    let in2 = |i: usize| x2.is_some() && i >= a2 && i <= b2;
    let rest1: Vec<usize> = (0..t1.len()).filter(|i| !in1(*i)).collect();
    let rest2: Vec<usize> = (0..t2.len()).filter(|i| !in2(*i)).collect();
    if rest1.len() != rest2.len() {
        return Err(format!(
            "tokens outside the edited object: {} before, {} after the edit",
            rest1.len(),
            rest2.len()
        ));
    }
    // position of the object among the other tokens
    let split = x1.map(|r| r.0).or(x2.map(|r| r.0)).unwrap();
    let split_rest = if x1.is_some() {
        rest1.iter().filter(|i| **i < split).count()
    } else {
        rest2.iter().filter(|i| **i < split).count()
    };
    let mut delta: Option<i64> = None;
    for (k, (i1, i2)) in rest1.iter().zip(rest2.iter()).enumerate() {
        let (u, v) = (&t1[*i1], &t2[*i2]);
        if u.text != v.text {
            return Err(format!(
                "token outside the edited object changed: `{}` (line {}) became `{}` (line {})",
                clip(&u.text, 60),
                u.line,
                clip(&v.text, 60),
                v.line
            ));
        }
        let d = i64::from(v.line) - i64::from(u.line);
        if k < split_rest {
            if d != 0 {
                return Err(format!(
                    "token `{}` before the edited object moved from line {} to line {}",
                    clip(&u.text, 60),
                    u.line,
                    v.line
                ));
            }
        } else {
            match delta {
                None => delta = Some(d),
                Some(d0) if d0 != d => {
                    return Err(format!(
                        "tokens after the edited object are not shifted uniformly: `{}` moved by {} lines, earlier ones by {}",
                        clip(&u.text, 60),
                        d,
                        d0
                    ))
                }
                _ => {}
            }
        }
    }
    // lines of o1 that hold no token of the object must be byte-identical in o2
    let l1: Vec<&str> = o1.split('\n').collect();
    let l2: Vec<&str> = o2.split('\n').collect();
    let mut touched1 = std::collections::HashSet::new();
    if x1.is_some() {
        for i in a1..=b1.min(t1.len() - 1) {
            let first = t1[i].line;
            let extra = t1[i].text.matches('\n').count() as u32;
            for l in first..=first + extra {
                touched1.insert(l);
            }
        }
    }
    let obj_first_line = if let Some((a, _)) = x1 { t1[a].line } else { u32::MAX };
    let obj_last_line = if let Some((_, b)) = x1 {
        t1[b.min(t1.len() - 1)].line
    } else {
        0
    };
    let d = delta.unwrap_or(0);
    let mut touched2 = std::collections::HashSet::new();
    if x2.is_some() {
        for i in a2..=b2.min(t2.len() - 1) {
            let first = t2[i].line;
            let extra = t2[i].text.matches('\n').count() as u32;
            for l in first..=first + extra {
                touched2.insert(l);
            }
        }
    }
    for (idx, line) in l1.iter().enumerate() {
        let ln = idx as u32 + 1;
        if touched1.contains(&ln) || line.trim().is_empty() {
            continue;
        }
        let target = if x1.is_some() {
            if ln < obj_first_line {
                i64::from(ln)
            } else if ln > obj_last_line {
                i64::from(ln) + d
            } else {
                continue;
            }
        } else {
            // insertion: lines before the token that follows the insertion point keep their number
            let boundary = if a2 < t1.len() { t1[a2].line } else { u32::MAX };
            if ln < boundary {
                i64::from(ln)
            } else {
                i64::from(ln) + d
            }
        };
        if target < 1 || target as usize > l2.len() {
            return Err(format!("line {ln} of the text before the edit has no counterpart"));
        }
        if touched2.contains(&(target as u32)) {
            continue; // the line is shared with the edited object in o2
        }
        let other = l2[target as usize - 1];
        if *line != other {
            return Err(format!(
                "line {ln} does not belong to the edited object but changed: `{}` -> `{}` (line {target})",
                clip(line, 100),
                clip(other, 100)
            ));
        }
    }
    Ok(())
}

/// remove one optional keyword child (ECU_ADDRESS, FORMAT, ...) of a MEASUREMENT or CHARACTERISTIC:
/// every token outside the removed keyword and its parameters must still be a token of the output,
/// in the same order (token conservation; the line-wise judgement is left to the other edit kinds
/// because the removed element may share its line with neighbours)
fn remove_child_case(rng: &mut Rng, rec: &mut Recorder, a2l: &A2lFile, o1: &str, input: &str) {
    let Ok(t1) = lex(o1) else { return };
    let mut m = a2l.clone();
    let module = &mut m.project.module[0];
    // (keyword, number of parameter tokens)
    let mut removed: Option<(&'static str, usize)> = None;
    macro_rules! try_remove {
        ($obj:expr, $( $field:ident => $kw:expr, $n:expr );* $(;)?) => {{
            let mut present: Vec<usize> = Vec::new();
            let mut idx = 0usize;
            $( if $obj.$field.is_some() { present.push(idx); } idx += 1; )*
            let _ = idx;
            if !present.is_empty() {
                let pick = present[rng.below(present.len())];
                let mut idx = 0usize;
                $( if idx == pick { $obj.$field = None; removed = Some(($kw, $n)); } idx += 1; )*
                let _ = idx;
            }
        }};
    }
    let (kind, name) = if rng.coin() && !module.measurement.is_empty() {
        let i = rng.below(module.measurement.len());
        let name = module.measurement[i].get_name().to_string();
        if module.measurement.iter().filter(|x| x.get_name() == name).count() > 1 {
            rec.bump("edit.skipped_duplicate_name");
            return;
        }
        let o = &mut module.measurement[i];
        try_remove!(o,
            ecu_address => "ECU_ADDRESS", 1; ecu_address_extension => "ECU_ADDRESS_EXTENSION", 1;
            bit_mask => "BIT_MASK", 1; format => "FORMAT", 1; display_identifier => "DISPLAY_IDENTIFIER", 1;
            byte_order => "BYTE_ORDER", 1; phys_unit => "PHYS_UNIT", 1; max_refresh => "MAX_REFRESH", 2;
            error_mask => "ERROR_MASK", 1; array_size => "ARRAY_SIZE", 1; layout => "LAYOUT", 1;
            read_write => "READ_WRITE", 0; discrete => "DISCRETE", 0; ref_memory_segment => "REF_MEMORY_SEGMENT", 1;
            model_link => "MODEL_LINK", 1; address_type => "ADDRESS_TYPE", 1; symbol_link => "SYMBOL_LINK", 2;
        );
        ("MEASUREMENT", name)
    } else if !module.characteristic.is_empty() {
        let i = rng.below(module.characteristic.len());
        let name = module.characteristic[i].get_name().to_string();
        if module.characteristic.iter().filter(|x| x.get_name() == name).count() > 1 {
            rec.bump("edit.skipped_duplicate_name");
            return;
        }
        let o = &mut module.characteristic[i];
        try_remove!(o,
            bit_mask => "BIT_MASK", 1; format => "FORMAT", 1; display_identifier => "DISPLAY_IDENTIFIER", 1;
            byte_order => "BYTE_ORDER", 1; phys_unit => "PHYS_UNIT", 1; max_refresh => "MAX_REFRESH", 2;
            ecu_address_extension => "ECU_ADDRESS_EXTENSION", 1; number => "NUMBER", 1; step_size => "STEP_SIZE", 1;
            read_only => "READ_ONLY", 0; discrete => "DISCRETE", 0; guard_rails => "GUARD_RAILS", 0;
            ref_memory_segment => "REF_MEMORY_SEGMENT", 1; model_link => "MODEL_LINK", 1;
            calibration_access => "CALIBRATION_ACCESS", 1; comparison_quantity => "COMPARISON_QUANTITY", 1;
            extended_limits => "EXTENDED_LIMITS", 2; symbol_link => "SYMBOL_LINK", 2; encoding => "ENCODING", 1;
        );
        ("CHARACTERISTIC", name)
    } else {
        return;
    };
    let Some((kw, nparams)) = removed else { return };
    let Some((a, b)) = find_block(&t1, kind, &name) else { return };
    // the keyword at nesting depth 1 of the block; it must be there exactly once
    let mut depth = 0;
    let mut hits = Vec::new();
    for i in a..=b.min(t1.len() - 1) {
        match t1[i].kind {
            LK::Begin => depth += 1,
            LK::End => depth -= 1,
            LK::Word if depth == 1 && i > a + 2 && t1[i].text == kw && t1[i - 1].kind != LK::Begin && t1[i - 1].kind != LK::End => {
                hits.push(i)
            }
            _ => {}
        }
    }
    if hits.len() != 1 {
        rec.bump("edit.skipped_keyword_not_unique");
        return;
    }
    let k = hits[0];
    let o2 = match write(&m) {
        Ok(o) => o,
        Err((sig, detail)) => {
            rec.violation(&sig, &detail, witness_text("C05 edit", input, "remove_child"));
            return;
        }
    };
    rec.eval();
    rec.bump("edit.remove_child");
    rec.bump(&format!("edit.remove_child.{kw}"));
    let t2 = match lex(&o2) {
        Ok(t) => t,
        Err(e) => {
            rec.violation(
                "edit locality violated (remove_child): output is not lexable",
                &e,
                witness_text("C05 edit", input, &format!("remove_child {kind} {name} {kw}")),
            );
            return;
        }
    };
    let expected: Vec<&LTok> = t1.iter().enumerate().filter(|(i, _)| *i < k || *i > k + nparams).map(|(_, t)| t).collect();
    let mut problem = None;
    if expected.len() != t2.len() {
        problem = Some(format!("{} tokens expected outside the removed element, the output has {}", expected.len(), t2.len()));
    }
    for (u, v) in expected.iter().zip(t2.iter()) {
        if u.kind != v.kind || u.text != v.text {
            problem = Some(format!(
                "token outside the removed element changed: `{}` (line {}) became `{}` (line {})",
                clip(&u.text, 60),
                u.line,
                clip(&v.text, 60),
                v.line
            ));
            break;
        }
    }
    if let Some(msg) = problem {
        rec.violation(
            "edit locality violated (remove_child)",
            &format!("removed {kw} from {kind} {name}: {msg}"),
            witness_text("C05 edit", input, &format!("remove_child {kind} {name} {kw}")),
        );
    }
}

fn edit_case(rng: &mut Rng, rec: &mut Recorder, a2l: &A2lFile, o1: &str, input: &str) {
    if rng.chance(1, 4) {
        remove_child_case(rng, rec, a2l, o1, input);
        return;
    }
    let t1 = match lex(o1) {
        Ok(t) => t,
        Err(_) => return,
    };
    let mut m = a2l.clone();
    let kind_choice = rng.below(5);
    let module = &mut m.project.module[0];
    let (label, x1, x2name): (&str, Option<(usize, usize)>, Option<(String, String)>) = match kind_choice {
        0 if !module.measurement.is_empty() => {
            let i = rng.below(module.measurement.len());
            let name = module.measurement[i].get_name().to_string();
            if module.measurement.iter().filter(|x| x.get_name() == name).count() > 1 {
                // duplicate names (possible in generated documents): the object cannot be located
                // in the text by name - not judged
                rec.bump("edit.skipped_duplicate_name");
                return;
            }
            module.measurement[i].long_identifier = format!("edited {}", rng.below(1000));
            ("field_edit", find_block(&t1, "MEASUREMENT", &name), Some(("MEASUREMENT".into(), name)))
        }
        1 if !module.characteristic.is_empty() => {
            let i = rng.below(module.characteristic.len());
            let name = module.characteristic[i].get_name().to_string();
            if module.characteristic.iter().filter(|x| x.get_name() == name).count() > 1 {
                // duplicate names (possible in generated documents): the object cannot be located
                // in the text by name - not judged
                rec.bump("edit.skipped_duplicate_name");
                return;
            }
            module.characteristic[i].address = rng.next_u64() as u32;
            module.characteristic[i].upper_limit = 4242.5;
            ("field_edit", find_block(&t1, "CHARACTERISTIC", &name), Some(("CHARACTERISTIC".into(), name)))
        }
        2 if !module.measurement.is_empty() => {
            let i = rng.below(module.measurement.len());
            let name = module.measurement[i].get_name().to_string();
            if module.measurement.iter().filter(|x| x.get_name() == name).count() > 1 {
                // duplicate names (possible in generated documents): the object cannot be located
                // in the text by name - not judged
                rec.bump("edit.skipped_duplicate_name");
                return;
            }
            match rng.below(3) {
                0 => {
                    module.measurement.swap_remove_idx(i);
                }
                1 => {
                    module.measurement.swap_remove(&name);
                }
                _ => {
                    module.measurement.retain(|x| x.get_name() != name);
                }
            }
            ("remove", find_block(&t1, "MEASUREMENT", &name), None)
        }
        3 if !module.compu_method.is_empty() => {
            let i = rng.below(module.compu_method.len());
            let name = module.compu_method[i].get_name().to_string();
            if module.compu_method.iter().filter(|x| x.get_name() == name).count() > 1 {
                // duplicate names (possible in generated documents): the object cannot be located
                // in the text by name - not judged
                rec.bump("edit.skipped_duplicate_name");
                return;
            }
            module.compu_method.swap_remove_idx(i);
            ("remove", find_block(&t1, "COMPU_METHOD", &name), None)
        }
        _ => {
            let name = format!("zz_new_{}", rng.below(100000));
            if rng.coin() {
                module.measurement.push(crate::api::measurement(rng, name.clone()));
                ("push", None, Some(("MEASUREMENT".into(), name)))
            } else {
                module.compu_method.push(crate::api::compu_method(rng, name.clone()));
                ("push", None, Some(("COMPU_METHOD".into(), name)))
            }
        }
    };
    if label != "push" && x1.is_none() {
        return; // object not found in the text (e.g. it is in another module) - not judged
    }
    if label == "remove" {
        // removal is judged for objects that do not share a line with their neighbours: the
        // tokens behind a removed object are placed relative to the token before it, so a shared
        // last line necessarily changes
        let (a, b) = x1.unwrap();
        if !isolated(&t1, a, b) {
            rec.bump("edit.skipped_shared_line");
            return;
        }
    }
    let o2 = match write(&m) {
        Ok(o) => o,
        Err((sig, detail)) => {
            rec.violation(&sig, &detail, witness_text("C05 edit", input, label));
            return;
        }
    };
    let x2 = match &x2name {
        Some((kind, name)) => match lex(&o2).ok().and_then(|t| find_block(&t, kind, name)) {
            Some(r) => Some(r),
            None => {
                rec.violation(
                    &format!("edit locality: edited object missing from output ({label})"),
                    &format!("{label}: {kind} {name} not found in the text written after the edit"),
                    witness_text("C05 edit", input, label),
                );
                return;
            }
        },
        None => None,
    };
    if label == "push" {
        // the new object is written in front of the /end of its MODULE; judged when that /end
        // starts a line of its own (otherwise it shares the line of the preceding object)
        let (a2, _) = x2.unwrap();
        if a2 >= t1.len() || a2 == 0 || t1[a2].kind != LK::End || t1[a2].line <= line_end(&t1[a2 - 1]) {
            rec.bump("edit.skipped_shared_line");
            return;
        }
    }
    rec.eval();
    rec.bump(&format!("edit.{label}"));
    if let Err(msg) = locality(o1, &o2, x1, x2) {
        let f = crate::c01::features(input);
        let suffix = if f.multiline_block_comment {
            " [input has a multi-line block comment]"
        } else {
            ""
        };
        rec.violation(
            &format!("edit locality violated ({label}){suffix}"),
            &format!("{label}: {msg}"),
            witness_text("C05 edit", input, &format!("{label} {x2name:?}")),
        );
    }
}

pub fn run(args: &Args, rec: &mut Recorder) {
    rec.rule = "evaluation = (i) one document of the C05 layout class loaded and written with every significant token required on its input line, (ii) one document in the writer's own format required to be reproduced byte for byte, (iii) one API edit (field assignment, push, remove) with the output before/after compared token-wise and line-wise outside the edited object, or the removal of one optional keyword child with every other token required to survive in order; distinct_nontrivial = distinct input texts by content hash".into();
    rec.assumptions.push("layout class as stated by the property: LF only, /begin and /end on the line of their tag, /end A2ML on its own line, no raw line breaks in strings, comments only at block-level slots, position-restricted RECORD_LAYOUT items in ascending position order".into());
    let g = Grammar::load_default();
    let total: u64 = if args.thorough { 300_000 } else { 40_000 };
    let n_edits = if args.thorough { 5 } else { 3 };
    let scratch = crate::c03::scratch_dir(args);
    run_cases(args, rec, total, crate::util::reset_budget, |rng, case, rec| {
        let cfg = c05_gen_cfg(rng, args.thorough);
        let mut gen = DocGen::new(&g, cfg);
        let doc = gen.gen_doc(rng);
        let flat = doc.flatten();
        let canonical = case % 3 == 0;
        let mut lc = if canonical {
            LayoutCfg::canonical()
        } else {
            LayoutCfg::c05(rng)
        };
        if canonical {
            lc.first_on_line1 = rng.coin();
            lc.newline_pct = rng.urange(5, 60) as u32;
        }
        let r = render(&flat, &lc, rng);
        rec.eval();
        rec.nontrivial(r.text.as_bytes());
        for t in &flat.elem_tags {
            rec.bump(&format!("kind.{t}"));
        }
        if rec.want_sample() && case % 101 == 7 {
            rec.sample(Json::obj().with("mode", Json::s(if canonical { "canonical" } else { "c05" })).with("text", Json::s(&clip(&r.text, 500))));
        }
        // one document in five is loaded from a file (plain UTF-8 or with a byte order mark, which
        // is not part of the text): the lines are the lines of the file
        let from_file = case % 5 == 2;
        let loaded = if from_file {
            let enc = *rng.pick(&["utf8", "utf8-bom", "utf8-bom", "utf16le-bom", "utf16be-bom", "utf32le-bom"]);
            rec.bump(&format!("entry.file.{enc}"));
            if enc != "utf8" && r.lines.first().copied().unwrap_or(1) > 1 {
                rec.bump("entry.file.bom_and_leading_blank_lines");
            }
            let p = scratch.join("c05.a2l");
            std::fs::write(&p, crate::c17::encode(&r.text, enc)).unwrap();
            crate::util::set_budget(crate::c03::step_budget(r.text.len() * 4));
            let res = vcommon::runtime::guarded(|| a2lfile::load(&p, None, false));
            crate::util::reset_budget();
            res
        } else {
            load_str(&r.text, false)
        };
        let (a2l, _log) = match loaded {
            Err((sig, detail)) => {
                rec.violation(&sig, &detail, witness_text("C05", &r.text, ""));
                return None;
            }
            Ok(Err(e)) => {
                rec.bump("rejected");
                rec.violation(
                    &format!("document generated from the reference grammar is rejected: {}", crate::gram::err_class(&e)),
                    &e.to_string(),
                    witness_text("C05", &r.text, ""),
                );
                return None;
            }
            Ok(Ok(v)) => v,
        };
        rec.bump("accepted");
        let out = match write(&a2l) {
            Ok(o) => o,
            Err((sig, detail)) => {
                rec.violation(&sig, &detail, witness_text("C05", &r.text, ""));
                return None;
            }
        };
        // nothing was added: sort_new_items() has nothing to place and must leave every line where it is
        if case % 4 == 1 {
            let mut c = a2l.clone();
            match vcommon::runtime::guarded(|| c.sort_new_items()) {
                Err((sig, detail)) => rec.violation(&format!("{sig} in sort_new_items"), &detail, witness_text("C05", &r.text, "sort_new_items()")),
                Ok(()) => {
                    rec.bump("sort_new_items_without_new_elements");
                    if let Ok(out2) = write(&c) {
                        if out2 != out {
                            rec.violation(
                                "sort_new_items() on a freshly loaded file changes the written text",
                                &format!("first difference: {}", first_diff_line(&out, &out2)),
                                witness_text("C05", &r.text, "sort_new_items()"),
                            );
                        }
                    }
                }
            }
        }
        let f = crate::c01::features(&r.text);
        let suffix = if f.multiline_block_comment {
            " [input has a multi-line block comment]"
        } else {
            ""
        };
        if canonical {
            rec.bump("mode.canonical");
            if out != r.text {
                rec.violation(
                    &format!("text in the writer's own format is not reproduced byte for byte{suffix}"),
                    &format!("first difference: {}", first_diff_line(&r.text, &out)),
                    witness_text("C05 canonical", &r.text, ""),
                );
            }
        } else {
            rec.bump("mode.c05");
        }
        // (i) line map
        match compare_tokens(&flat, &out) {
            Err(d) => {
                rec.violation(
                    &format!("token mismatch: {}{suffix}", d.class),
                    &d.msg,
                    witness_text("C05", &r.text, ""),
                );
            }
            Ok(outtoks) => {
                rec.add("token_lines_compared", outtoks.len() as u64);
                for (i, t) in outtoks.iter().enumerate() {
                    if t.line != r.lines[i] {
                        let owner = &flat.elem_tags[flat.toks[i].elem as usize];
                        rec.violation(
                            &format!("token moved to another line{suffix}"),
                            &format!(
                                "token #{i} `{}` (inside {owner}) is on line {} in the input and on line {} in the output",
                                clip(&t.text, 60),
                                r.lines[i],
                                t.line
                            ),
                            witness_text("C05", &r.text, ""),
                        );
                        break;
                    }
                }
            }
        }
        // (iii) edits
        for _ in 0..n_edits * 3 {
            edit_case(rng, rec, &a2l, &out, &r.text);
        }
        None
    });
    let _ = std::fs::remove_dir_all(&scratch);
    rec.floor("accepted", 10);
    rec.floor("entry.file.bom_and_leading_blank_lines", 3);
    rec.floor("mode.canonical", 5);
    rec.floor("mode.c05", 5);
    rec.floor("edit.field_edit", 5);
    rec.floor("edit.remove_child", 5);
    rec.floor("edit.push", 5);
    rec.floor("sort_new_items_without_new_elements", 100);
    rec.floor("edit.remove", 5);
    for e in &g.elements {
        for t in &e.tags {
            if t != "A2L_FILE" {
                rec.floor(&format!("kind.{t}"), 1);
            }
        }
    }
}
