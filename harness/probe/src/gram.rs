//! shared pieces of the grammar-family monitors (C01, C02, C04, C05, C06, C07, C14, C16, C17)

use a2lfile::{A2lError, A2lFile};
use vcommon::doc::{Child, Doc, Elem, FTok, Flat, Val, TK};
use vcommon::grammar::{is_position_restricted_tag, Grammar};
use vcommon::lexer::{lex, LTok, LK};
use vcommon::runtime::guarded;

pub type LoadResult = Result<(A2lFile, Vec<A2lError>), A2lError>;

/// load under the crash monitor; Err((signature, detail)) on panic
pub fn load_str(text: &str, strict: bool) -> Result<LoadResult, (String, String)> {
    crate::util::set_budget(crate::c03::step_budget(text.len()));
    let r = guarded(|| a2lfile::load_from_string(text, None, strict));
    crate::util::reset_budget();
    r
}

pub fn load_str_spec(text: &str, spec: Option<String>, strict: bool) -> Result<LoadResult, (String, String)> {
    crate::util::set_budget(crate::c03::step_budget(text.len()));
    let r = guarded(|| a2lfile::load_from_string(text, spec, strict));
    crate::util::reset_budget();
    r
}

pub fn write(a2l: &A2lFile) -> Result<String, (String, String)> {
    guarded(|| a2l.write_to_string())
}

/// class name of a diagnostic, e.g. "ParserError.UnknownSubBlock"
pub fn err_class(e: &A2lError) -> String {
    let d = format!("{e:?}");
    let outer: String = d.chars().take_while(|c| c.is_alphanumeric()).collect();
    if let Some(pos) = d.find("_error: ") {
        let inner: String = d[pos + 8..]
            .chars()
            .take_while(|c| c.is_alphanumeric())
            .collect();
        format!("{outer}.{inner}")
    } else {
        outer
    }
}

/// the documented reordering: inside RECORD_LAYOUT the position-restricted children are
/// redistributed over their slots in ascending order of the `position` parameter (stable)
pub fn apply_position_rule(g: &Grammar, doc: &mut Doc) {
    fn walk(g: &Grammar, e: &mut Elem) {
        if e.tag == "RECORD_LAYOUT" {
            let slots: Vec<usize> = e
                .children
                .iter()
                .enumerate()
                .filter(|(_, c)| matches!(c, Child::Elem(k) if is_position_restricted_tag(g, &k.tag)))
                .map(|(i, _)| i)
                .collect();
            if slots.len() > 1 {
                let mut items: Vec<Elem> = slots
                    .iter()
                    .map(|i| match &e.children[*i] {
                        Child::Elem(k) => k.clone(),
                        _ => unreachable!(),
                    })
                    .collect();
                items.sort_by_key(|k| match &k.params[0].val {
                    Val::Int(v) => *v,
                    _ => 0,
                });
                for (slot, item) in slots.iter().zip(items) {
                    e.children[*slot] = Child::Elem(item);
                }
            }
        }
        for c in &mut e.children {
            if let Child::Elem(k) = c {
                walk(g, k);
            }
        }
    }
    for e in &mut doc.top {
        walk(g, e);
    }
}

fn norm_a2ml(s: &str) -> String {
    s.replace("\r\n", "\n").trim_end().to_string()
}

fn as_f64(v: &Val) -> Option<f64> {
    match v {
        Val::Float(f) => Some(*f),
        Val::Int(i) => Some(*i as f64),
        _ => None,
    }
}

pub fn tok_matches(exp: &FTok, got: &LTok) -> Result<(), String> {
    let e = &exp.tok;
    let ok = match e.kind {
        TK::Begin => got.kind == LK::Begin,
        TK::End => got.kind == LK::End,
        TK::Tag | TK::EndTag | TK::Ident | TK::Enum => {
            // an identifier in IF_DATA may legitimately look like a number-ish word; compare text
            (got.kind == LK::Word || got.kind == LK::Num) && got.text == e.text
        }
        TK::Str => got.kind == LK::Str && got.val == e.val,
        TK::Int => match (&e.val, &got.val) {
            (Val::Int(a), Val::Int(b)) => got.kind == LK::Num && a == b,
            // integers in uninterpreted IF_DATA may be written in float notation with equal value
            (Val::Int(a), Val::Float(b)) => {
                got.kind == LK::Num && exp.in_ifdata && b.fract() == 0.0 && b.abs() < 1e38 && (*b as i128) == *a
            }
            _ => false,
        },
        TK::Float => match (as_f64(&e.val), as_f64(&got.val)) {
            (Some(a), Some(b)) => {
                got.kind == LK::Num
                    && (a == b || (a == 0.0 && b == 0.0))
            }
            _ => false,
        },
        TK::A2ml => got.kind == LK::A2ml && norm_a2ml(&e.text) == norm_a2ml(&got.text),
        TK::Comment => got.kind == LK::Comment && got.text.trim_end() == e.text.trim_end(),
    };
    if ok {
        Ok(())
    } else {
        Err(format!(
            "expected {:?} `{}`, output has {:?} `{}` (line {})",
            e.kind,
            vcommon::json::clip(&e.text, 80),
            got.kind,
            vcommon::json::clip(&got.text, 80),
            got.line
        ))
    }
}

/// C18/C19: IF_DATA decoded under an A2ML definition keeps float and double values exactly (the
/// generators emit only f32-representable values for `float` members), so the f32 tolerance that
/// tok_matches grants inside IF_DATA does not apply there. Returns the first differing pair.
pub fn first_inexact_float(flat: &Flat, out: &[LTok]) -> Option<(String, String)> {
    for (ft, lt) in flat.toks.iter().zip(out.iter()) {
        if ft.in_ifdata && ft.tok.kind == TK::Float {
            if let (Some(a), Some(b)) = (as_f64(&ft.tok.val), as_f64(&lt.val)) {
                if a != b && !(a == 0.0 && b == 0.0) {
                    return Some((ft.tok.text.clone(), lt.text.clone()));
                }
            }
        }
    }
    None
}

pub struct TokenDiff {
    pub index: usize,
    pub msg: String,
    pub class: String,
}

/// C02 oracle: the significant tokens of `flat` (ground truth from the generator, position rule
/// already applied) against the tokens of the written text.
pub fn compare_tokens(flat: &Flat, output: &str) -> Result<Vec<LTok>, TokenDiff> {
    // comments between the items of an IF_DATA payload are not content and are not written back
    let stripped;
    let flat = if flat.toks.iter().any(|t| t.in_ifdata && t.tok.kind == TK::Comment) {
        let mut f = flat.clone();
        f.toks.retain(|t| !(t.in_ifdata && t.tok.kind == TK::Comment));
        stripped = f;
        &stripped
    } else {
        flat
    };
    let out = lex(output).map_err(|e| TokenDiff {
        index: 0,
        msg: format!("output is not lexable: {e}"),
        class: "output-unlexable".into(),
    })?;
    let n = flat.toks.len().min(out.len());
    for i in 0..n {
        if let Err(msg) = tok_matches(&flat.toks[i], &out[i]) {
            let ctx_tag = &flat.elem_tags[flat.toks[i].elem as usize];
            // classification for signatures
            let class = classify_diff(flat, &out, i);
            return Err(TokenDiff {
                index: i,
                msg: format!("token #{i} inside {ctx_tag}: {msg}"),
                class,
            });
        }
    }
    if flat.toks.len() != out.len() {
        let (what, class) = if flat.toks.len() > out.len() {
            let t = &flat.toks[n];
            (
                format!(
                    "output ends early: {} input tokens are missing, first `{}`",
                    flat.toks.len() - out.len(),
                    vcommon::json::clip(&t.tok.text, 60)
                ),
                "tokens-missing-at-end".to_string(),
            )
        } else {
            (
                format!(
                    "output has {} extra tokens, first `{}` on line {}",
                    out.len() - flat.toks.len(),
                    vcommon::json::clip(&out[n].text, 60),
                    out[n].line
                ),
                "tokens-added-at-end".to_string(),
            )
        };
        return Err(TokenDiff {
            index: n,
            msg: what,
            class,
        });
    }
    Ok(out)
}

fn classify_diff(flat: &Flat, out: &[LTok], i: usize) -> String {
    let e = &flat.toks[i];
    let g = &out[i];
    let owner = &flat.elem_tags[e.elem as usize];
    let kind = match e.tok.kind {
        TK::Comment => "comment".to_string(),
        TK::Int | TK::Float => {
            if g.kind == LK::Num {
                "number-value".to_string()
            } else {
                "number-lost".to_string()
            }
        }
        TK::Str => {
            if g.kind == LK::Str {
                "string-value".to_string()
            } else {
                "string-lost".to_string()
            }
        }
        TK::A2ml => "a2ml-text".to_string(),
        _ => {
            if g.kind == LK::Comment {
                "unexpected-comment".to_string()
            } else {
                "structure".to_string()
            }
        }
    };
    let place = if e.in_ifdata { "IF_DATA" } else { owner.as_str() };
    format!("{kind} in {place}")
}

/// first line that differs between two texts
pub fn first_diff_line(a: &str, b: &str) -> String {
    for (i, (la, lb)) in a.lines().zip(b.lines()).enumerate() {
        if la != lb {
            return format!(
                "line {}: `{}` vs `{}`",
                i + 1,
                vcommon::json::clip(la, 120),
                vcommon::json::clip(lb, 120)
            );
        }
    }
    format!(
        "line counts {} vs {} (one text is a prefix of the other)",
        a.lines().count(),
        b.lines().count()
    )
}
