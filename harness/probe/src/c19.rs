//! C19 — a2ml_specification!: typed IF_DATA access round-trips (typed round-trip monitor).
//! The specs are compiled into this binary with the IN-TREE a2lmacros (see specs/mod.rs).

use crate::c01::witness_text;
use crate::gram::{compare_tokens, load_str_spec, write};
use crate::specs;
use a2lfile::IfData;
use vcommon::a2mlgen::{gen_instance, render_def, AType, Def, Sc, TItem};
use vcommon::a2mlparse;
use vcommon::doc::{Child, Doc, Elem, Tok, Val, TK};
use vcommon::json::{clip, Json};
use vcommon::layout::{render, LayoutCfg};
use vcommon::rng::Rng;
use vcommon::runtime::{guarded, run_cases, Args, Recorder};

fn ifdata_elem(toks: Vec<Tok>) -> Elem {
    let mut e = Elem::new("IF_DATA", true, false);
    e.params = toks;
    e
}

fn build_doc(a2ml_text: Option<&str>, insts: &[Vec<Tok>]) -> Doc {
    let mut module = Elem::new("MODULE", true, true);
    module.params = vec![Tok::word(TK::Ident, "m"), Tok::string("", "\"\"".into())];
    if let Some(t) = a2ml_text {
        let mut a = Elem::new("A2ML", true, false);
        let text = format!("\n{t}\n");
        a.params.push(Tok {
            kind: TK::A2ml,
            text: text.clone(),
            val: Val::Raw(text),
        });
        module.children.push(Child::Elem(a));
    }
    for i in insts {
        module.children.push(Child::Elem(ifdata_elem(i.clone())));
    }
    let mut project = Elem::new("PROJECT", true, true);
    project.params = vec![Tok::word(TK::Ident, "p"), Tok::string("", "\"\"".into())];
    project.children.push(Child::Elem(module));
    let mut ver = Elem::new("ASAP2_VERSION", false, false);
    ver.params = vec![Tok::int(1, "1".into()), Tok::int(71, "71".into())];
    Doc {
        version: 171,
        top: vec![ver, project],
    }
}

/// the same shape with wider scalar types (every instance of `t` is an instance of the result, but
/// the typed code does not decode what was parsed under it)
fn widen(rng: &mut Rng, t: &AType, n_changed: &mut usize) -> AType {
    let rec_items = |rng: &mut Rng, items: &[TItem], n: &mut usize| -> Vec<TItem> {
        items
            .iter()
            .map(|i| TItem {
                item: i.item.as_ref().map(|x| widen(rng, x, n)),
                ..i.clone()
            })
            .collect()
    };
    match t {
        AType::Scalar(s) => {
            let w = match s {
                Sc::UChar => Sc::UInt,
                Sc::UInt => Sc::ULong,
                Sc::ULong => Sc::UInt64,
                Sc::Char => Sc::Int,
                Sc::Int => Sc::Long,
                Sc::Long => Sc::Int64,
                Sc::Float => Sc::Double,
                other => *other,
            };
            if w != *s && rng.coin() {
                *n_changed += 1;
                AType::Scalar(w)
            } else {
                t.clone()
            }
        }
        AType::Array(inner, n) => AType::Array(Box::new(widen(rng, inner, n_changed)), *n),
        AType::Struct { name, members } => AType::Struct {
            name: name.clone(),
            members: members.iter().map(|m| widen(rng, m, n_changed)).collect(),
        },
        AType::TaggedStruct { name, items } => AType::TaggedStruct {
            name: name.clone(),
            items: rec_items(rng, items, n_changed),
        },
        AType::TaggedUnion { name, items } => AType::TaggedUnion {
            name: name.clone(),
            items: rec_items(rng, items, n_changed),
        },
        other => other.clone(),
    }
}

/// first difference between the significant tokens of two texts; numbers are compared by value
/// (5 and 5.0 are the same content), everything else by kind and text
fn token_value_diff(a: &str, b: &str) -> Option<String> {
    use vcommon::doc::Val;
    use vcommon::lexer::{lex, LK};
    let (Ok(ta), Ok(tb)) = (lex(a), lex(b)) else {
        return Some("written text cannot be tokenised".into());
    };
    let sig = |t: &vcommon::lexer::LTok| !matches!(t.kind, LK::Comment);
    let ta: Vec<_> = ta.iter().filter(|t| sig(t)).collect();
    let tb: Vec<_> = tb.iter().filter(|t| sig(t)).collect();
    for (x, y) in ta.iter().zip(tb.iter()) {
        let same = match (&x.val, &y.val) {
            (Val::Int(p), Val::Int(q)) => p == q,
            (Val::Float(p), Val::Float(q)) => p == q,
            (Val::Int(p), Val::Float(q)) | (Val::Float(q), Val::Int(p)) => (*p as f64) == *q,
            _ => x.kind == y.kind && x.val == y.val,
        };
        if !same {
            return Some(format!("token `{}` (line {}) became `{}`", x.text, x.line, y.text));
        }
    }
    if ta.len() != tb.len() {
        return Some(format!("{} tokens became {}", ta.len(), tb.len()));
    }
    None
}

/// structural mutations: the result describes a different shape than the specification
fn mutate(rng: &mut Rng, t: &AType, changed: &mut Vec<&'static str>) -> AType {
    match t {
        AType::Scalar(s) => {
            if rng.chance(1, 4) {
                changed.push("other_scalar_type");
                let alt = match s {
                    Sc::Float | Sc::Double => Sc::UInt,
                    Sc::UChar | Sc::Char => Sc::Double,
                    _ => Sc::Float,
                };
                AType::Scalar(alt)
            } else if rng.chance(1, 10) {
                changed.push("scalar_to_string");
                AType::CharArray(8)
            } else {
                t.clone()
            }
        }
        AType::CharArray(n) => {
            if rng.chance(1, 4) {
                changed.push("string_to_scalar");
                AType::Scalar(Sc::ULong)
            } else {
                AType::CharArray(*n)
            }
        }
        AType::Array(inner, n) => {
            if *n > 1 && rng.chance(1, 2) {
                changed.push("shorter_array");
                AType::Array(inner.clone(), n - 1)
            } else if rng.chance(1, 4) {
                changed.push("array_to_scalar");
                (**inner).clone()
            } else {
                AType::Array(Box::new(mutate(rng, inner, changed)), *n)
            }
        }
        AType::Enum { .. } => {
            if rng.chance(1, 4) {
                changed.push("enum_to_scalar");
                AType::Scalar(Sc::UInt)
            } else {
                t.clone()
            }
        }
        AType::Struct { name, members } => {
            let mut m: Vec<AType> = members.iter().map(|x| mutate(rng, x, changed)).collect();
            if m.len() > 1 && rng.chance(1, 3) {
                changed.push("missing_struct_member");
                m.remove(rng.below(m.len()));
            } else if rng.chance(1, 6) {
                changed.push("extra_struct_member");
                m.push(AType::Scalar(Sc::UInt));
            }
            if rng.chance(1, 10) {
                changed.push("struct_to_first_member");
                return m.into_iter().next().unwrap();
            }
            AType::Struct {
                name: name.clone(),
                members: m,
            }
        }
        AType::TaggedStruct { name, items } | AType::TaggedUnion { name, items } => {
            let its: Vec<TItem> = items
                .iter()
                .map(|it| {
                    let mut it2 = it.clone();
                    if let Some(m) = &it.item {
                        it2.item = Some(mutate(rng, m, changed));
                    }
                    if rng.chance(1, 8) {
                        changed.push("block_form_flipped");
                        it2.is_block = !it2.is_block || it2.inner_repeat;
                    }
                    if it2.item.is_some() && rng.chance(1, 10) {
                        changed.push("content_removed");
                        it2.item = None;
                        it2.inner_repeat = false;
                    }
                    it2
                })
                .collect();
            if matches!(t, AType::TaggedStruct { .. }) {
                if rng.chance(1, 10) {
                    changed.push("taggedstruct_to_taggedunion");
                    let mut its = its;
                    for i in &mut its {
                        i.repeat = false;
                    }
                    return AType::TaggedUnion {
                        name: name.clone(),
                        items: its,
                    };
                }
                AType::TaggedStruct {
                    name: name.clone(),
                    items: its,
                }
            } else {
                AType::TaggedUnion {
                    name: name.clone(),
                    items: its,
                }
            }
        }
    }
}

macro_rules! spec_runner {
    ($fname:ident, $ty:ty, $text:expr, $label:expr) => {
        fn $fname(rng: &mut Rng, rec: &mut Recorder, case: u64) {
            let text_const: &str = $text;
            let def: Def = match a2mlparse::parse(text_const) {
                Ok(d) => d,
                Err(e) => {
                    rec.violation(
                        &format!("generated A2ML text constant is not readable ({})", $label),
                        &e,
                        Json::obj().with("text", Json::s(text_const)),
                    );
                    return;
                }
            };
            // ---------------- conforming instances, definition supplied as built-in specification
            let n = rng.urange(1, 6);
            let insts: Vec<Vec<Tok>> = (0..n).map(|_| gen_instance(rng, &def).toks).collect();
            let in_file = case % 3 == 0;
            let doc = build_doc(if in_file { Some(text_const) } else { None }, &insts);
            let flat = doc.flatten();
            let text = render(&flat, &LayoutCfg::c05(rng), rng).text;
            rec.nontrivial(text.as_bytes());
            if rec.want_sample() && case % 401 == 3 {
                rec.sample(Json::obj().with("spec", Json::s($label)).with("document", Json::s(&clip(&text, 500))));
            }
            rec.bump(&format!("spec.{}", $label));
            rec.bump(if in_file { "definition.in_file(X_TEXT in A2ML block)" } else { "definition.built_in(X_TEXT argument)" });
            let spec_arg = if in_file { None } else { Some(text_const.to_string()) };
            let strict = rng.chance(1, 3);
            rec.bump(if strict { "load.strict" } else { "load.non_strict" });
            let (a2l, log) = match load_str_spec(&text, spec_arg, strict) {
                Err((sig, detail)) => {
                    rec.violation(&sig, &detail, witness_text("C19", &text, $label));
                    return;
                }
                Ok(Err(e)) => {
                    rec.violation(
                        &format!("document using the generated A2ML text is rejected: {} ({})", crate::gram::err_class(&e), $label),
                        &e.to_string(),
                        witness_text("C19", &text, $label),
                    );
                    return;
                }
                Ok(Ok(v)) => v,
            };
            if log.iter().any(|e| format!("{e:?}").contains("A2mlError")) {
                rec.violation(
                    &format!("generated A2ML text constant is rejected by the A2ML parser ({})", $label),
                    &format!("{:?}", log.iter().map(|e| e.to_string()).collect::<Vec<_>>()),
                    witness_text("C19", &text, $label),
                );
                return;
            }
            if !log.is_empty() {
                // the document is valid and all its IF_DATA conforms: nothing to report
                rec.violation(
                    &format!("diagnostic for a document whose IF_DATA conforms to the specification ({})", $label),
                    &format!("{:?}", log.iter().map(|e| e.to_string()).collect::<Vec<_>>()),
                    witness_text("C19", &text, $label),
                );
            }
            let module = &a2l.project.module[0];
            if module.if_data.len() != insts.len() {
                rec.violation("IF_DATA blocks lost", "", witness_text("C19", &text, $label));
                return;
            }
            let mut stored = a2l.clone();
            for (i, ifd) in module.if_data.iter().enumerate() {
                if insts[i].is_empty() {
                    continue;
                }
                rec.eval();
                rec.bump("instances.conforming");
                if !ifd.ifdata_valid {
                    rec.violation(
                        &format!("instance generated from X_TEXT is not valid under X_TEXT ({})", $label),
                        &format!("block #{i}"),
                        witness_text("C19", &text, $label),
                    );
                    continue;
                }
                let x1 = match guarded(|| <$ty>::load_from_ifdata(ifd)) {
                    Err((sig, detail)) => {
                        rec.violation(&format!("{sig} in load_from_ifdata ({})", $label), &detail, witness_text("C19", &text, $label));
                        continue;
                    }
                    Ok(None) => {
                        rec.violation(
                            &format!("load_from_ifdata returns None for a conforming instance ({})", $label),
                            &format!("block #{i}: the typed code and the text constant describe different structures"),
                            witness_text("C19", &text, $label),
                        );
                        continue;
                    }
                    Ok(Some(x)) => x,
                };
                // store -> load
                let mut fresh = IfData::new();
                if let Err((sig, detail)) = guarded(|| x1.store_to_ifdata(&mut fresh)) {
                    rec.violation(&format!("{sig} in store_to_ifdata ({})", $label), &detail, witness_text("C19", &text, $label));
                    continue;
                }
                match guarded(|| <$ty>::load_from_ifdata(&fresh)) {
                    Err((sig, detail)) => rec.violation(&format!("{sig} in load_from_ifdata after store ({})", $label), &detail, witness_text("C19", &text, $label)),
                    Ok(None) => rec.violation(
                        &format!("value stored with store_to_ifdata cannot be loaded back ({})", $label),
                        &format!("block #{i}: {:?}", x1),
                        witness_text("C19", &text, $label),
                    ),
                    Ok(Some(x2)) => {
                        if x2 != x1 {
                            rec.violation(
                                &format!("store_to_ifdata / load_from_ifdata changes the value ({})", $label),
                                &format!("before: {} | after: {}", clip(&format!("{x1:?}"), 600), clip(&format!("{x2:?}"), 600)),
                                witness_text("C19", &text, $label),
                            );
                        }
                    }
                }
                // a value edited through the typed API (an element pushed onto a sequence member, a
                // new repeated item): store -> load must give back the edited value
                {
                    let mut xe = x1.clone();
                    if ApiEdit::api_edit(&mut xe, rng) {
                        rec.bump("api_edited_values");
                        let mut fresh = IfData::new();
                        match guarded(|| xe.store_to_ifdata(&mut fresh)) {
                            Err((sig, detail)) => rec.violation(&format!("{sig} in store_to_ifdata of an edited value ({})", $label), &detail, witness_text("C19", &text, $label)),
                            Ok(()) => match guarded(|| <$ty>::load_from_ifdata(&fresh)) {
                                Ok(Some(x2)) if x2 == xe => {}
                                Ok(other) => rec.violation(
                                    &format!("value edited through the typed API is not given back by store_to_ifdata / load_from_ifdata ({})", $label),
                                    &format!("stored: {} | loaded: {}", clip(&format!("{xe:?}"), 500), clip(&format!("{other:?}"), 500)),
                                    witness_text("C19", &text, $label),
                                ),
                                Err((sig, detail)) => rec.violation(&format!("{sig} loading an edited value ({})", $label), &detail, witness_text("C19", &text, $label)),
                            },
                        }
                    }
                }
                // load -> store into the model -> write
                x1.store_to_ifdata(&mut stored.project.module[0].if_data[i]);
            }
            match write(&stored) {
                Err((sig, detail)) => rec.violation(&format!("{sig} writing stored IF_DATA ({})", $label), &detail, witness_text("C19", &text, $label)),
                Ok(out) => {
                    match compare_tokens(&flat, &out) {
                        Err(d) => rec.violation(
                            &format!("IF_DATA written after load+store differs from the original content: {} ({})", d.class, $label),
                            &format!("{}; written: {}", d.msg, clip(&out, 1200)),
                            witness_text("C19", &text, $label),
                        ),
                        Ok(toks) => {
                            if let Some((a, b)) = crate::gram::first_inexact_float(&flat, &toks) {
                                rec.violation(
                                    &format!("float value in IF_DATA written after load+store differs from the original ({})", $label),
                                    &format!("`{a}` written as `{b}`"),
                                    witness_text("C19", &text, $label),
                                );
                            }
                            rec.add("tokens_compared", flat.toks.len() as u64);
                        }
                    }
                }
            }
            // ---------------- storing the value that was just loaded must not change the written text
            // (layout of IF_DATA and of everything around it included)
            if let (Ok(before), Ok(after)) = (write(&a2l), write(&stored)) {
                if before != after {
                    rec.violation(
                        &format!("written text changes when the loaded value is stored back unchanged ({})", $label),
                        &format!("first difference at {}", crate::gram::first_diff_line(&before, &after)),
                        witness_text("C19", &text, $label),
                    );
                }
                rec.bump("store_unchanged.text_compared");
            }
            // ---------------- update_a2ml(): a file that has another A2ML block (or none) gets the text
            // constant; after write and reload without a built-in definition the data still decodes
            if case % 4 == 1 {
                let other_a2ml = *rng.pick(&[Some("\n  block \"IF_DATA\" struct { int; };\n"), Some("\n  block \"IF_DATA\" taggedunion { \"OLD\" uint; };\n"), None]);
                let udoc = build_doc(other_a2ml, &insts);
                let utext = render(&udoc.flatten(), &LayoutCfg::c05(rng), rng).text;
                if let Ok(Ok((mut ua, _))) = load_str_spec(&utext, Some(text_const.to_string()), false) {
                    rec.bump("update_a2ml.cases");
                    let typed_before: Vec<Option<$ty>> = ua.project.module[0].if_data.iter().map(|i| <$ty>::load_from_ifdata(i)).collect();
                    if let Err((sig, detail)) = guarded(|| <$ty>::update_a2ml(&mut ua)) {
                        rec.violation(&format!("{sig} in update_a2ml ({})", $label), &detail, witness_text("C19 update_a2ml", &utext, $label));
                    } else {
                        rec.eval();
                        let all_set = ua.project.module.iter().all(|m| m.a2ml.as_ref().is_some_and(|a| a.a2ml_text == text_const));
                        if !all_set {
                            rec.violation(
                                &format!("update_a2ml() does not set the A2ML block of every module to the text constant ({})", $label),
                                &format!("file had: {other_a2ml:?}"),
                                witness_text("C19 update_a2ml", &utext, $label),
                            );
                        } else if let Ok(out) = {
                            // a block that update_a2ml() had to create is a new element: it is written
                            // at the end of the module unless sort_new_items() places it (at the head)
                            if other_a2ml.is_none() {
                                ua.sort_new_items();
                            }
                            write(&ua)
                        } {
                            match load_str_spec(&out, None, false) {
                                Ok(Ok((ra, rlog))) => {
                                    let typed_after: Vec<Option<$ty>> = ra.project.module[0].if_data.iter().map(|i| <$ty>::load_from_ifdata(i)).collect();
                                    if typed_after != typed_before {
                                        let valid: Vec<bool> = ra.project.module[0].if_data.iter().map(|i| i.ifdata_valid).collect();
                                        rec.violation(
                                            &format!("IF_DATA does not decode to the same values after update_a2ml(), write and reload ({})", $label),
                                            &format!("valid after reload: {valid:?}; reload log: {:?}; written: {} || before: {} | after: {}", rlog.iter().map(|e| e.to_string()).collect::<Vec<_>>(), clip(&out, 700), clip(&format!("{typed_before:?}"), 300), clip(&format!("{typed_after:?}"), 300)),
                                            witness_text("C19 update_a2ml", &utext, $label),
                                        );
                                    }
                                }
                                _ => rec.violation(
                                    &format!("file written after update_a2ml() does not load ({})", $label),
                                    "",
                                    witness_text("C19 update_a2ml", &utext, $label),
                                ),
                            }
                        }
                    }
                }
            }
            // ---------------- built-in definition first: the file's own A2ML block has the same shape with
            // wider scalar types; both accept the instances, the built-in one is tried first (documented),
            // so the typed code decodes them
            if case % 4 == 2 {
                let mut n_changed = 0;
                let wdef = Def {
                    root: widen(rng, &def.root, &mut n_changed),
                    hoisted: Vec::new(),
                    features: Vec::new(),
                };
                if n_changed > 0 {
                    let wtext = render_def(&wdef, rng);
                    let wdoc = build_doc(Some(&wtext), &insts);
                    let wrendered = render(&wdoc.flatten(), &LayoutCfg::c05(rng), rng).text;
                    if let Ok(Ok((wa, _))) = load_str_spec(&wrendered, Some(text_const.to_string()), false) {
                        rec.bump("builtin_first.cases");
                        for (i, ifd) in wa.project.module[0].if_data.iter().enumerate() {
                            if insts[i].is_empty() {
                                continue;
                            }
                            rec.eval();
                            if !matches!(guarded(|| <$ty>::load_from_ifdata(ifd)), Ok(Some(_))) {
                                rec.violation(
                                    &format!("IF_DATA is not decoded under the built-in definition although it is given and conforms ({})", $label),
                                    &format!("block #{i}; the A2ML block of the file has the same shape with {n_changed} wider scalar types"),
                                    witness_text("C19 built-in first", &wrendered, $label),
                                );
                                break;
                            }
                        }
                    }
                }
            }
            // ---------------- shape mismatch: IF_DATA valid under a different in-file definition
            for _ in 0..2 {
                let mut changed = Vec::new();
                let mdef = Def {
                    root: mutate(rng, &def.root, &mut changed),
                    hoisted: Vec::new(),
                    features: Vec::new(),
                };
                if changed.is_empty() {
                    continue;
                }
                let mtext = render_def(&mdef, rng);
                let minsts: Vec<Vec<Tok>> = (0..3).map(|_| gen_instance(rng, &mdef).toks).collect();
                let mdoc = build_doc(Some(&mtext), &minsts);
                let mrendered = render(&mdoc.flatten(), &LayoutCfg::c05(rng), rng).text;
                let Ok(Ok((ma, _))) = load_str_spec(&mrendered, None, false) else {
                    rec.bump("mismatch.document_rejected");
                    continue;
                };
                let mut stored_m = ma.clone();
                let mut any_stored = false;
                for (bi, ifd) in ma.project.module[0].if_data.iter().enumerate() {
                    if !ifd.ifdata_valid {
                        rec.bump("mismatch.not_valid_under_mutated_definition");
                        continue;
                    }
                    rec.eval();
                    for c in &changed {
                        rec.bump(&format!("mismatch.{c}"));
                    }
                    match guarded(|| <$ty>::load_from_ifdata(ifd)) {
                        Err((sig, detail)) => rec.violation(
                            &format!("{sig} decoding IF_DATA of a different shape ({})", $label),
                            &format!("{detail}; shape changes: {changed:?}"),
                            witness_text("C19 shape mismatch", &mrendered, $label),
                        ),
                        Ok(Some(x)) => {
                            rec.bump("mismatch.result.Some");
                            if guarded(|| x.store_to_ifdata(&mut stored_m.project.module[0].if_data[bi])).is_ok() {
                                any_stored = true;
                            }
                        }
                        Ok(None) => rec.bump("mismatch.result.None"),
                    }
                }
                // a value that was decoded although the shape differs must at least hold the whole
                // content: stored back and written, no token may be lost or changed (numbers are
                // compared by value)
                // judged for the mismatch classes the property names (shorter arrays, other scalar
                // types, missing members): there every difference makes an accessor fail, so a value is
                // only produced for data that does not reach the changed part. Definitions that merely
                // hold more than the specification (extra members, other block form, ...) are decoded
                // leniently by design and are not judged.
                const JUDGED: [&str; 7] = ["shorter_array", "other_scalar_type", "scalar_to_string", "string_to_scalar", "array_to_scalar", "enum_to_scalar", "missing_struct_member"];
                if any_stored && changed.iter().all(|c| JUDGED.contains(c)) {
                    if let (Ok(before), Ok(after)) = (write(&ma), write(&stored_m)) {
                        rec.bump("mismatch.store_back_compared");
                        if let Some(d) = token_value_diff(&before, &after) {
                            rec.violation(
                                &format!("IF_DATA of a different shape is decoded to a value that does not hold its content ({})", $label),
                                &format!("shape changes: {changed:?}; after store_to_ifdata and write: {d}"),
                                witness_text("C19 shape mismatch", &mrendered, $label),
                            );
                        }
                    }
                }
            }
        }
    };
}

/// edits of a typed value through its public fields (per specification; default: none)
trait ApiEdit {
    fn api_edit(&mut self, _rng: &mut Rng) -> bool {
        false
    }
}
impl ApiEdit for specs::s1::SpecOne {
    fn api_edit(&mut self, rng: &mut Rng) -> bool {
        // block "SEQUENCE" (char[256] name)*: one more element of the sequence (a new block if there was none)
        let seq = self.sequence.get_or_insert_with(specs::s1::Sequence::new);
        seq.item.push(format!("pushed_{}", rng.below(1000)));
        if rng.coin() {
            seq.item.push("second".to_string());
        }
        true
    }
}
impl ApiEdit for specs::s2::SpecTwo {}
impl ApiEdit for specs::s3::SpecThree {}
impl ApiEdit for specs::s4::SpecFour {}
impl ApiEdit for specs::s5::SpecFive {}
impl ApiEdit for specs::s6::SpecSix {}
impl ApiEdit for specs::s7::SpecSeven {}

spec_runner!(run_s1, specs::s1::SpecOne, specs::s1::SPECONE_TEXT, "SpecOne");
spec_runner!(run_s2, specs::s2::SpecTwo, specs::s2::SPECTWO_TEXT, "SpecTwo");
spec_runner!(run_s3, specs::s3::SpecThree, specs::s3::SPECTHREE_TEXT, "SpecThree");
spec_runner!(run_s4, specs::s4::SpecFour, specs::s4::SPECFOUR_TEXT, "SpecFour");
spec_runner!(run_s5, specs::s5::SpecFive, specs::s5::SPECFIVE_TEXT, "SpecFive");
spec_runner!(run_s6, specs::s6::SpecSix, specs::s6::SPECSIX_TEXT, "SpecSix");
spec_runner!(run_s7, specs::s7::SpecSeven, specs::s7::SPECSEVEN_TEXT, "SpecSeven");

pub fn run(args: &Args, rec: &mut Recorder) {
    rec.rule = "evaluation = one IF_DATA block handled through the types generated by a2ml_specification! (seven fixed specifications compiled with the in-tree a2lmacros, together using every A2ML construct): instances generated from the generated text constant X_TEXT (read by an independent A2ML reader) must be valid under X_TEXT (as built-in argument and as in-file A2ML), load_from_ifdata must yield a value, store_to_ifdata followed by load_from_ifdata must yield an equal value, and the text written after load+store must hold the original tokens; IF_DATA that is valid under a structurally mutated in-file definition is handed to load_from_ifdata, which must not panic, and a value it yields for the mismatch classes named by the property (shorter arrays, other scalar types, missing members) must hold the whole content (store back, write, compare tokens). distinct_nontrivial = distinct documents by content hash".into();
    rec.assumptions.push("the macro's non-standard `ident` member type is not used (its text constant is not A2ML); value equality is the generated PartialEq; the generic trees before and after store are not compared".into());
    let total: u64 = if args.thorough { 2_000_000 } else { 150_000 };
    run_cases(args, rec, total, crate::util::reset_budget, |rng, case, rec| {
        match case % 7 {
            0 => run_s1(rng, rec, case / 7),
            1 => run_s2(rng, rec, case / 7),
            2 => run_s3(rng, rec, case / 7),
            3 => run_s4(rng, rec, case / 7),
            4 => run_s5(rng, rec, case / 7),
            5 => run_s6(rng, rec, case / 7),
            _ => run_s7(rng, rec, case / 7),
        }
        None
    });
    for s in ["SpecOne", "SpecTwo", "SpecThree", "SpecFour", "SpecFive", "SpecSix", "SpecSeven"] {
        rec.floor(&format!("spec.{s}"), 10);
    }
    rec.floor("instances.conforming", 100);
    rec.floor("store_unchanged.text_compared", 10);
    rec.floor("mismatch.store_back_compared", 20);
    rec.floor("api_edited_values", 20);
    rec.floor("update_a2ml.cases", 5);
    rec.floor("builtin_first.cases", 5);
    rec.floor("definition.in_file(X_TEXT in A2ML block)", 10);
    rec.floor("definition.built_in(X_TEXT argument)", 10);
    for m in ["shorter_array", "other_scalar_type", "missing_struct_member", "block_form_flipped"] {
        rec.floor(&format!("mismatch.{m}"), 5);
    }
}
