//! C01 — save/reload stability: k-cycle round-trip monitor.

use crate::gram::{first_diff_line, load_str, write};
use a2lfile::A2lFile;
use vcommon::doc::Child;
use vcommon::docgen::{DocGen, GenCfg};
use vcommon::grammar::Grammar;
use vcommon::json::{clip, Json};
use vcommon::layout::{render, Eol, LayoutCfg, Mode};
use vcommon::rng::Rng;
use vcommon::runtime::{guarded, run_cases, Args, Recorder};

pub fn witness_text(kind: &str, text: &str, extra: &str) -> Json {
    Json::obj()
        .with("origin", Json::s(kind))
        .with("note", Json::s(extra))
        .with("input", Json::s(&clip(text, 60000)))
}

/// what in the input is responsible for a failed cycle (for finding signatures)
pub struct Features {
    pub multiline_block_comment: bool,
    pub crlf_and_a2ml: bool,
    pub crlf: bool,
    pub nonfinite_float: bool,
}

pub fn features(text: &str) -> Features {
    let mut multiline = false;
    let mut i = 0;
    let b = text.as_bytes();
    // find block comments outside of strings (approximation: scan /* .. */ pairs containing \n)
    while let Some(p) = text[i..].find("/*") {
        let st = i + p;
        if let Some(q) = text[st + 2..].find("*/") {
            let en = st + 2 + q;
            if text[st..en].contains('\n') {
                multiline = true;
                break;
            }
            i = en + 2;
        } else {
            break;
        }
    }
    let _ = b;
    let crlf = text.contains("\r\n");
    Features {
        multiline_block_comment: multiline,
        crlf_and_a2ml: crlf && text.contains("/begin A2ML"),
        crlf,
        nonfinite_float: false,
    }
}

/// run K load/write cycles starting from an already loaded model.
/// Returns Err((signature, detail)) for the first refutation.
pub fn cycle_check(m1: &A2lFile, k: usize, origin_text: &str) -> Result<(), (String, String)> {
    let f = features(origin_text);
    let suffix = if f.multiline_block_comment {
        " [input has a multi-line block comment]"
    } else if f.crlf_and_a2ml {
        " [input has CRLF line ends and an A2ML block]"
    } else {
        ""
    };
    let t1 = write(m1).map_err(|(s, d)| (format!("{s} in write"), d))?;
    let mut prev_text = t1;
    let mut prev_model: Option<A2lFile> = None;
    for cycle in 1..=k {
        let r = load_str(&prev_text, false).map_err(|(s, d)| (format!("{s} in reload"), d))?;
        let (m2, _log) = match r {
            Ok(v) => v,
            Err(e) => {
                let what = if prev_text.contains(" inf") || prev_text.contains("-inf") || prev_text.contains("NaN") {
                    " [written text contains inf/NaN]"
                } else {
                    suffix
                };
                return Err((
                    format!("reload of written text fails: {}{what}", crate::gram::err_class(&e)),
                    format!("cycle {cycle}: load(write(M)) failed: {e}; written text near the reported line: {}", near_error_line(&prev_text, &e.to_string())),
                ));
            }
        };
        let reference = prev_model.as_ref().unwrap_or(m1);
        if &m2 != reference {
            // known shape: several RESERVED items of one RECORD_LAYOUT that are not in ascending
            // position order are written in position order, so the reloaded list is permuted
            let mut n1 = reference.clone();
            let mut n2 = m2.clone();
            normalise_reserved(&mut n1);
            normalise_reserved(&mut n2);
            if n1 == n2 {
                return Err((
                    "reloaded model differs only in the order of RESERVED items (input not in position order)".to_string(),
                    format!("cycle {cycle}: load(write(M)) != M; {}", model_diff(reference, &m2)),
                ));
            }
            // second known shape: after swap_remove the in-memory order of a list differs from
            // the written order (the writer orders by uid)
            let mut s1 = reference.clone();
            let mut s2 = m2.clone();
            s1.sort();
            s2.sort();
            if s1 == s2 {
                return Err((
                    "reloaded model differs only in the order of list elements".to_string(),
                    format!("cycle {cycle}: load(write(M)) != M; {}", model_diff(reference, &m2)),
                ));
            }
            // both known shapes at once
            normalise_reserved(&mut s1);
            normalise_reserved(&mut s2);
            if s1 == s2 {
                return Err((
                    "reloaded model differs only in the order of RESERVED items and of list elements".to_string(),
                    format!("cycle {cycle}: load(write(M)) != M; {}", model_diff(reference, &m2)),
                ));
            }
            return Err((
                format!("reloaded model differs{suffix}"),
                format!(
                    "cycle {cycle}: load(write(M)) != M; {}",
                    model_diff(reference, &m2)
                ),
            ));
        }
        let t2 = write(&m2).map_err(|(s, d)| (format!("{s} in write"), d))?;
        if t2 != prev_text {
            return Err((
                format!("written text is not a fixpoint{suffix}"),
                format!(
                    "cycle {cycle}: write(load(T)) != T ({} vs {} bytes); first difference at {}",
                    t2.len(),
                    prev_text.len(),
                    first_diff_line(&prev_text, &t2)
                ),
            ));
        }
        prev_text = t2;
        prev_model = Some(m2);
    }
    Ok(())
}

/// K cycles write(path, banner) -> load(path): every loaded model equals the original, and from
/// the second file on the bytes do not change any more (the first file may differ from the later
/// ones in the blank that stands in front of a first token on line 1, which the banner moves to
/// line 2)
pub fn file_cycle_check(m1: &A2lFile, k: usize, banner: Option<&str>, dir: &std::path::Path) -> Result<(), (String, String)> {
    let path = dir.join("c01_cycle.a2l");
    let mut model = m1.clone();
    let mut files: Vec<Vec<u8>> = Vec::new();
    for cycle in 1..=k {
        guarded(|| model.write(&path, banner))
            .map_err(|(s, d)| (format!("{s} in write(path)"), d))?
            .map_err(|e| ("write(path) fails".to_string(), e.to_string()))?;
        let bytes = std::fs::read(&path).map_err(|e| ("harness: cannot read back the file".to_string(), e.to_string()))?;
        let loaded = guarded(|| a2lfile::load(&path, None, false)).map_err(|(s, d)| (format!("{s} in load(path)"), d))?;
        let (m2, _log) = loaded.map_err(|e| {
            (
                format!("reload of the written file fails: {}", crate::gram::err_class(&e)),
                format!("file cycle {cycle}: {e}"),
            )
        })?;
        if &m2 != m1 {
            let mut n1 = m1.clone();
            let mut n2 = m2.clone();
            normalise_reserved(&mut n1);
            normalise_reserved(&mut n2);
            let sig = if n1 == n2 {
                "reloaded model differs only in the order of RESERVED items (input not in position order)".to_string()
            } else {
                "model loaded from the written file differs".to_string()
            };
            return Err((sig, format!("file cycle {cycle}: {}", model_diff(m1, &m2))));
        }
        files.push(bytes);
        model = m2;
    }
    for i in 2..files.len() {
        if files[i] != files[1] {
            return Err((
                "written file is not a fixpoint over repeated file cycles".to_string(),
                format!(
                    "file of cycle {} has {} bytes, file of cycle 2 has {} bytes; first difference at {}",
                    i + 1,
                    files[i].len(),
                    files[1].len(),
                    first_diff_line(&String::from_utf8_lossy(&files[1]), &String::from_utf8_lossy(&files[i]))
                ),
            ));
        }
    }
    // the first file may only differ from the second in white space
    let strip = |b: &[u8]| -> Vec<u8> { b.iter().copied().filter(|c| !c.is_ascii_whitespace()).collect() };
    if files.len() >= 2 && strip(&files[0]) != strip(&files[1]) {
        return Err((
            "written file changes (other than in white space) in the second file cycle".to_string(),
            format!("first difference at {}", first_diff_line(&String::from_utf8_lossy(&files[0]), &String::from_utf8_lossy(&files[1]))),
        ));
    }
    Ok(())
}

/// lines of `text` around the line number named in a parser error message (":<line>:")
fn near_error_line(text: &str, msg: &str) -> String {
    let line = msg
        .split(':')
        .filter_map(|p| p.trim().parse::<usize>().ok())
        .next()
        .unwrap_or(1);
    let lines: Vec<&str> = text.lines().collect();
    let from = line.saturating_sub(6);
    let to = (line + 2).min(lines.len());
    let mut out = String::new();
    for (i, l) in lines.iter().enumerate().take(to).skip(from) {
        out.push_str(&format!("[{}] {}\n", i + 1, vcommon::json::clip(l, 300)));
    }
    out
}

/// describe where two models differ, using their Debug text (line multisets, because the
/// Debug text of the HashMaps inside IF_DATA has no stable order)
pub fn model_diff(a: &A2lFile, b: &A2lFile) -> String {
    let da = format!("{a:#?}");
    let db = format!("{b:#?}");
    let noise = |l: &&str| {
        !(l.starts_with("line:")
            || l.starts_with("uid:")
            || l.starts_with("start_offset:")
            || l.starts_with("end_offset:")
            || l.starts_with("incfile:")
            || (l.starts_with('"') && l.contains("\": ") && l.ends_with(',') && l.rsplit(' ').next().is_some_and(|n| n.trim_end_matches(',').parse::<u32>().is_ok())))
    };
    let mut la: Vec<&str> = da.lines().map(str::trim).filter(noise).collect();
    let mut lb: Vec<&str> = db.lines().map(str::trim).filter(noise).collect();
    la.sort_unstable();
    lb.sort_unstable();
    let (mut i, mut j) = (0, 0);
    let mut only_a = Vec::new();
    let mut only_b = Vec::new();
    while i < la.len() && j < lb.len() {
        match la[i].cmp(lb[j]) {
            std::cmp::Ordering::Equal => {
                i += 1;
                j += 1;
            }
            std::cmp::Ordering::Less => {
                only_a.push(la[i]);
                i += 1;
            }
            std::cmp::Ordering::Greater => {
                only_b.push(lb[j]);
                j += 1;
            }
        }
    }
    only_a.extend_from_slice(&la[i..]);
    only_b.extend_from_slice(&lb[j..]);
    if only_a.is_empty() && only_b.is_empty() {
        // same lines, different order
        let fa = da.lines().map(str::trim).filter(|l| noise(l));
        let fb = db.lines().map(str::trim).filter(|l| noise(l));
        for (x, y) in fa.zip(fb) {
            if x != y && !x.contains("\": [") {
                return format!(
                    "same Debug lines in a different order; first positional difference `{}` vs `{}`",
                    clip(x.trim(), 120),
                    clip(y.trim(), 120)
                );
            }
        }
        return "Debug texts have the same lines (difference in order inside IF_DATA maps or in a field hidden from Debug)".into();
    }
    format!(
        "Debug lines only in the original: {:?}; only in the reloaded model: {:?}",
        only_a.iter().take(8).map(|s| clip(s, 100)).collect::<Vec<_>>(),
        only_b.iter().take(8).map(|s| clip(s, 100)).collect::<Vec<_>>()
    )
}

/// sort the RESERVED lists of all record layouts by position (stable)
pub fn normalise_reserved(m: &mut A2lFile) {
    for module in m.project.module.iter_mut() {
        for rl in module.record_layout.iter_mut() {
            rl.reserved.sort_by_key(|r| r.position);
        }
    }
}

pub fn gen_cfg_wide(rng: &mut Rng, thorough: bool) -> GenCfg {
    let mut cfg = GenCfg::default();
    cfg.max_elems = *rng.pick(&[10usize, 40, 120, if thorough { 400 } else { 200 }]);
    cfg.opt_pct = rng.urange(10, 70) as u32;
    cfg.comments_pct = *rng.pick(&[0u32, 0, 5, 20]);
    cfg.multiline_comments = rng.chance(1, 3);
    cfg.vals.raw_breaks_in_strings = rng.chance(1, 4);
    cfg.ifdata_comments = rng.chance(1, 3);
    cfg
}

pub fn run(args: &Args, rec: &mut Recorder) {
    rec.rule = "evaluation = one accepted document (or API-built model) taken through K load->write cycles (K=3 quick, 6 thorough) with model equality and byte equality checked in every cycle; one case in eight also through K file cycles write(path, banner) / load(path); one in four after public-API edits (push, field edits, remove, swap_remove, rename, removal of whole lists and of children, negative values); distinct_nontrivial = distinct input texts by content hash with at least 5 elements".into();
    rec.assumptions.push("floats are finite (the format has no spelling for inf/NaN); model equality is the crate's PartialEq".into());
    let g = Grammar::load_default();
    let k = if args.thorough { 6 } else { 3 };
    let total: u64 = if args.thorough { 600_000 } else { 60_000 };
    let scratch = crate::c03::scratch_dir(args);
    run_cases(args, rec, total, crate::util::reset_budget, |rng, case, rec| {
        let variant = case % 10;
        if variant == 9 {
            // API-built model
            api_built_case(rng, rec, k);
            return None;
        }
        if case % 20 == 13 {
            bulk_push_case(rng, rec, k);
            return None;
        }
        if case % 40 == 26 {
            cross_file_case(rng, rec, k);
            return None;
        }
        if case % 40 == 6 {
            fragment_with_builtin_spec_case(rng, rec);
            return None;
        }
        if case % 20 == 17 || case % 20 == 3 {
            api_twin_case(&g, rng, rec, k, case / 20, args.thorough);
            return None;
        }
        if case % 20 == 7 {
            // IF_DATA that is interpreted through the A2ML block of the file (generated definition,
            // conforming instances with comments inside)
            // one document in three has float members beyond the f32 range (not decodable with the
            // definition, kept in generic form; still a legal document that has to survive the cycles)
            let huge = rng.chance(1, 3);
            vcommon::a2mlgen::HUGE_FLOATS.with(|h| h.set(huge));
            let (text, _flat, _n) = crate::c18::gen_conforming_document(rng);
            vcommon::a2mlgen::HUGE_FLOATS.with(|h| h.set(false));
            if huge && (text.contains("e38") || text.contains("E+38") || text.contains("e39") || text.contains("e300")) {
                rec.bump("a2ml_docs_with_float_beyond_f32");
            }
            rec.eval();
            rec.nontrivial(text.as_bytes());
            rec.bump("entry.a2ml_interpreted_if_data");
            match load_str(&text, false) {
                Err((sig, detail)) => rec.violation(&sig, &detail, witness_text("G-a2ml/string", &text, "")),
                Ok(Err(e)) => rec.violation(
                    &format!("document with A2ML-conforming IF_DATA is rejected: {}", crate::gram::err_class(&e)),
                    &e.to_string(),
                    witness_text("G-a2ml/string", &text, ""),
                ),
                Ok(Ok((m, _))) => {
                    if let Err((sig, detail)) = cycle_check(&m, k, &text) {
                        rec.violation(&format!("{sig} [A2ML-interpreted IF_DATA]"), &detail, witness_text("G-a2ml/string", &text, ""));
                    }
                }
            }
            return None;
        }
        let cfg = gen_cfg_wide(rng, args.thorough);
        let mut gen = DocGen::new(&g, cfg);
        let doc = gen.gen_doc(rng);
        let flat = doc.flatten();
        let lc = match rng.below(4) {
            0 => LayoutCfg::canonical(),
            1 => LayoutCfg::c05(rng),
            _ => LayoutCfg::wide(rng),
        };
        let r = render(&flat, &lc, rng);
        rec.eval();
        rec.bump(&format!("layout.{:?}", lc.mode));
        rec.bump(&format!("eol.{:?}", lc.eol));
        if r.gap_comments > 0 {
            rec.bump("docs_with_gap_comments");
        }
        if r.file_comments > 0 {
            rec.bump("docs_with_file_level_comments");
        }
        let n_elems = doc.count_elems();
        for t in &flat.elem_tags {
            rec.bump(&format!("kind.{t}"));
        }
        if n_elems >= 5 {
            rec.nontrivial(r.text.as_bytes());
        }
        if rec.want_sample() && case % 97 == 3 {
            rec.sample(
                Json::obj()
                    .with("elements", Json::UInt(n_elems as u64))
                    .with("layout", Json::s(&format!("{:?}/{:?}", lc.mode, lc.eol)))
                    .with("text", Json::s(&clip(&r.text, 500))),
            );
        }
        let entry = match variant {
            0 => "file",
            1 => "fragment",
            _ => "string",
        };
        rec.bump(&format!("entry.{entry}"));
        // ---- first load
        let m1: A2lFile = match entry {
            "file" => {
                let p = scratch.join("c01.a2l");
                std::fs::write(&p, &r.text).unwrap();
                match guarded(|| a2lfile::load(&p, None, false)) {
                    Err((sig, detail)) => {
                        rec.violation(&sig, &detail, witness_text("G-doc/file", &r.text, ""));
                        return None;
                    }
                    Ok(Err(e)) => {
                        rec.bump("rejected");
                        rec.bump(&format!("rejected.{}", crate::gram::err_class(&e)));
                        return None;
                    }
                    Ok(Ok((m, _))) => m,
                }
            }
            "fragment" => {
                // the body of the first module as a fragment
                let Some(module) = doc.project().find_first("MODULE") else {
                    return None;
                };
                let mut body = vcommon::doc::Flat::empty();
                for c in &module.children {
                    match c {
                        Child::Elem(e) => vcommon::doc::flatten_elem(e, 0, u32::MAX, true, false, &mut body),
                        _ => {}
                    }
                }
                if body.toks.is_empty() {
                    return None;
                }
                let fr = render(&body, &lc, rng);
                let res = guarded(|| a2lfile::load_fragment(&fr.text, None));
                match res {
                    Err((sig, detail)) => {
                        rec.violation(&sig, &detail, witness_text("G-doc/fragment", &fr.text, ""));
                        return None;
                    }
                    Ok(Err(e)) => {
                        rec.bump("rejected");
                        rec.bump(&format!("rejected.{}", crate::gram::err_class(&e)));
                        return None;
                    }
                    Ok(Ok(module)) => {
                        let mut f = a2lfile::new();
                        let name = f.project.module[0].get_name_compat();
                        let _ = name;
                        f.project.module = a2lfile::ItemList::new();
                        f.project.module.push(module);
                        f
                    }
                }
            }
            _ => match load_str(&r.text, false) {
                Err((sig, detail)) => {
                    rec.violation(&sig, &detail, witness_text("G-doc/string", &r.text, ""));
                    return None;
                }
                Ok(Err(e)) => {
                    rec.bump("rejected");
                    rec.violation(
                        &format!("document generated from the reference grammar is rejected: {}", crate::gram::err_class(&e)),
                        &e.to_string(),
                        witness_text("G-doc/string", &r.text, ""),
                    );
                    return None;
                }
                Ok(Ok((m, _))) => m,
            },
        };
        rec.bump("accepted");
        if let Err((sig, detail)) = cycle_check(&m1, k, &r.text) {
            rec.violation(&sig, &detail, witness_text(&format!("G-doc/{entry}"), &r.text, ""));
        }
        // ---- the same through files: A2lFile::write(path, banner) / load(path)
        if case % 8 == 3 {
            let banner = if rng.chance(2, 3) { Some("written by the C01 monitor") } else { None };
            rec.bump(if banner.is_some() { "file_cycles.with_banner" } else { "file_cycles.without_banner" });
            if let Err((sig, detail)) = file_cycle_check(&m1, k.max(3), banner, &scratch) {
                rec.violation(&sig, &detail, witness_text(&format!("G-doc/{entry} + file cycles"), &r.text, &format!("banner: {banner:?}")));
            }
        }
        // ---- edited model: a few public-API edits, then the same cycle check
        if case % 4 == 0 {
            let mut m = m1.clone();
            let swaps_before = rec.hist.get("edit.swap_remove").copied().unwrap_or(0);
            if crate::api::random_edits(rng, &mut m, rec) {
                rec.bump("edited_models");
                let swapped = rec.hist.get("edit.swap_remove").copied().unwrap_or(0) > swaps_before;
                if let Err((sig, detail)) = cycle_check(&m, k, "") {
                    let sig = if sig.ends_with("(input not in position order)") {
                        sig
                    } else {
                        format!("{sig} [after API edits{}]", if swapped { " incl. swap_remove" } else { "" })
                    };
                    rec.violation(
                        &sig,
                        &detail,
                        witness_text("G-doc + API edits", &r.text, "edits are regenerated from the case seed"),
                    );
                }
            }
        }
        None
    });
    let _ = std::fs::remove_dir_all(&scratch);
    rec.floor("accepted", 10);
    rec.floor("entry.file", 1);
    rec.floor("entry.fragment", 1);
    rec.floor("entry.a2ml_interpreted_if_data", 5);
    rec.floor("api_built_models", 1);
    rec.floor("bulk_push.group_over_32", 2);
    rec.floor("api_twin_models", 100);
    rec.floor("cross_file.module_pushed", 3);
    rec.floor("cross_file.merged_and_sorted", 3);
    rec.floor("fragment_with_builtin_spec", 3);
    rec.floor("cross_file.elements_pushed", 3);
    // ... and must have been built through the API (IF_DATA is reached through loading only)
    for e in &g.elements {
        for t in &e.tags {
            if matches!(t.as_str(), "A2L_FILE" | "IF_DATA" | "A2ML") {
                continue;
            }
            rec.floor(&format!("twin_kind.{t}"), 1);
        }
    }
    // every element kind of the reference grammar must have occurred
    for e in &g.elements {
        for t in &e.tags {
            if t == "A2L_FILE" {
                continue;
            }
            rec.floor(&format!("kind.{t}"), 1);
        }
    }
}

/// A loaded module whose element kinds are interleaved in the file (so the writer's group is not in
/// writer order when it is collected), plus many new elements of one kind pushed through the API:
/// the new elements must be written, and reloaded, in list order.
fn bulk_push_case(rng: &mut Rng, rec: &mut Recorder, k: usize) {
    use std::fmt::Write as _;
    rec.eval();
    rec.bump("bulk_push_cases");
    let pairs = 1 + rng.below(14) as usize;
    let mut text = String::from("ASAP2_VERSION 1 71\n/begin PROJECT p \"\"\n/begin MODULE m \"\"\n");
    for i in 0..pairs {
        let _ = writeln!(text, "/begin MEASUREMENT ld_{i} \"\" UBYTE cm_{i} 0 0 0 255\n/end MEASUREMENT");
        let _ = writeln!(text, "/begin COMPU_METHOD cm_{i} \"\" IDENTICAL \"%4.2\" \"-\"\n/end COMPU_METHOD");
        if rng.chance(1, 3) {
            let _ = writeln!(text, "/begin GROUP g_{i} \"\"\n/end GROUP");
        }
    }
    text.push_str("/end MODULE\n/end PROJECT\n");
    rec.nontrivial(text.as_bytes());
    let mut m = match load_str(&text, true) {
        Ok(Ok((m, _))) => m,
        Ok(Err(e)) => {
            rec.violation("interleaved document is rejected", &e.to_string(), witness_text("bulk push", &text, ""));
            return;
        }
        Err((sig, detail)) => {
            rec.violation(&sig, &detail, witness_text("bulk push", &text, ""));
            return;
        }
    };
    let n_new = 2 + rng.below(45) as usize;
    rec.bump(if pairs * 2 + n_new > 32 { "bulk_push.group_over_32" } else { "bulk_push.group_up_to_32" });
    let kind = rng.below(3);
    for j in 0..n_new {
        let name = format!("new_{j}");
        match kind {
            0 => {
                m.project.module[0].measurement.push(crate::api::measurement(rng, name));
            }
            1 => {
                m.project.module[0].compu_method.push(crate::api::compu_method(rng, name));
            }
            _ => {
                m.project.module[0].characteristic.push(crate::api::characteristic(rng, name));
            }
        }
    }
    if let Err((sig, detail)) = cycle_check(&m, k, "") {
        rec.violation(
            &format!("{sig} [loaded interleaved module + {} pushed]", if n_new > 8 { "many" } else { "few" }),
            &detail,
            witness_text("bulk push", &text, &format!("{n_new} new elements of kind {kind} pushed through the API")),
        );
    }
}

/// Elements (or a whole MODULE) that were loaded from one text are moved into the model loaded from
/// another text with `push`: copying content between files through the API. The combined model is a
/// model "built and edited through the public API" like any other.
fn cross_file_case(rng: &mut Rng, rec: &mut Recorder, k: usize) {
    use std::fmt::Write as _;
    rec.eval();
    rec.bump("cross_file_cases");
    let mk = |prefix: &str, n: usize, lead: usize| {
        let mut t = String::new();
        for _ in 0..lead {
            t.push('\n');
        }
        t.push_str("ASAP2_VERSION 1 71\n/begin PROJECT p \"\"\n");
        let _ = writeln!(t, "/begin MODULE {prefix}mod \"\"");
        for i in 0..n {
            let _ = writeln!(t, "/begin MEASUREMENT {prefix}m{i} \"\" UBYTE NO_COMPU_METHOD 0 0 0 255\n/end MEASUREMENT");
            let _ = writeln!(t, "/begin UNIT {prefix}u{i} \"\" \"x\" DERIVED\n/end UNIT");
        }
        t.push_str("/end MODULE\n/end PROJECT\n");
        t
    };
    // the two files have different lengths and line offsets, so uids and line numbers interleave
    let ta = mk("a_", 1 + rng.below(6) as usize, rng.below(4) as usize);
    let tb = mk("b_", 1 + rng.below(6) as usize, rng.below(4) as usize);
    rec.nontrivial(format!("{ta}|{tb}").as_bytes());
    let (Ok(Ok((mut a, _))), Ok(Ok((b, _)))) = (load_str(&ta, true), load_str(&tb, true)) else {
        rec.violation("cross-file: generated document is rejected", "", witness_text("cross-file", &ta, &tb));
        return;
    };
    // a third way to bring the content of another file in: merge_modules() followed by
    // sort_new_items() (the merged elements are given their places); the names of the second file do
    // not stand in alphabetical order
    if rng.chance(1, 3) {
        rec.bump("cross_file.merged_and_sorted");
        let n = 2 + rng.below(6) as usize;
        let mut order: Vec<usize> = (0..n).collect();
        rng.shuffle(&mut order);
        let mut tb2 = String::from("\n\nASAP2_VERSION 1 71\n/begin PROJECT p \"\"\n/begin MODULE b_mod \"\"\n");
        for i in &order {
            let _ = writeln!(tb2, "/begin MEASUREMENT b_m{i} \"\" UBYTE NO_COMPU_METHOD 0 0 0 255\n/end MEASUREMENT");
            if rng.coin() {
                let _ = writeln!(tb2, "/begin GROUP b_g{i} \"\" /begin REF_MEASUREMENT b_m{i} /end REF_MEASUREMENT\n/end GROUP");
            }
        }
        tb2.push_str("/end MODULE\n/end PROJECT\n");
        let Ok(Ok((mut b2, _))) = load_str(&tb2, true) else {
            rec.violation("cross-file: generated document is rejected", "", witness_text("cross-file", &tb2, ""));
            return;
        };
        let mut merged = a.clone();
        if let Err((sig, detail)) = guarded(|| merged.merge_modules(&mut b2)) {
            rec.violation(&format!("{sig} in merge_modules"), &detail, witness_text("cross-file", &ta, &tb2));
            return;
        }
        if let Err((sig, detail)) = guarded(|| merged.sort_new_items()) {
            rec.violation(&format!("{sig} in sort_new_items"), &detail, witness_text("cross-file", &ta, &tb2));
            return;
        }
        if let Err((sig, detail)) = cycle_check(&merged, k, "") {
            rec.violation(
                &format!("{sig} [module of another file merged in, then sort_new_items()]"),
                &detail,
                witness_text("cross-file", &ta, &format!("second file: {tb2}; merge_modules(), sort_new_items()")),
            );
        }
        return;
    }
    let whole_module = rng.chance(1, 3);
    if whole_module {
        rec.bump("cross_file.module_pushed");
        a.project.module.push(b.project.module[0].clone());
    } else {
        rec.bump("cross_file.elements_pushed");
        for m in b.project.module[0].measurement.iter() {
            if rng.chance(2, 3) {
                a.project.module[0].measurement.push(m.clone());
            }
        }
        for u in b.project.module[0].unit.iter() {
            if rng.coin() {
                a.project.module[0].unit.push(u.clone());
            }
        }
    }
    if let Err((sig, detail)) = cycle_check(&a, k, "") {
        rec.violation(
            &format!("{sig} [elements loaded from another file pushed into the model]"),
            &detail,
            witness_text("cross-file", &ta, &format!("second file: {tb}; {}", if whole_module { "its MODULE pushed" } else { "some of its MEASUREMENTs and UNITs pushed" })),
        );
    }
}

/// The entry points agree: a module body loaded with load_fragment(text, spec) equals the MODULE of
/// the same body loaded inside a file with load_from_string(file, spec), also when the body has an
/// A2ML block of its own next to the built-in specification and IF_DATA that both definitions accept.
pub fn fragment_with_builtin_spec_case(rng: &mut Rng, rec: &mut Recorder) {
    use a2lfile::A2lObjectNameSetter;
    const TYPES: [&str; 6] = ["ulong", "float", "long", "double", "uint", "int64"];
    let t_builtin = *rng.pick(&TYPES);
    let t_file = *rng.pick(&TYPES);
    let v = *rng.pick(&["100", "0x1F", "7", "65535", "0"]);
    let spec = format!("block \"IF_DATA\" taggedunion {{ \"X\" {t_builtin}; }};");
    let own_a2ml = rng.chance(3, 4);
    let body = format!(
        "{}/begin IF_DATA X {v} /end IF_DATA\n/begin MEASUREMENT x \"\" UBYTE NO_COMPU_METHOD 0 0 0 255 /begin IF_DATA X {v} /end IF_DATA /end MEASUREMENT\n",
        if own_a2ml { format!("/begin A2ML\n  block \"IF_DATA\" taggedunion {{ \"X\" {t_file}; }};\n/end A2ML\n") } else { String::new() }
    );
    let file = format!("ASAP2_VERSION 1 71\n/begin PROJECT p \"\"\n/begin MODULE m \"\"\n{body}/end MODULE\n/end PROJECT\n");
    rec.eval();
    rec.bump("fragment_with_builtin_spec");
    rec.nontrivial(format!("{spec}|{body}").as_bytes());
    let frag = guarded(|| a2lfile::load_fragment(&body, Some(spec.clone())));
    let whole = crate::gram::load_str_spec(&file, Some(spec.clone()), false);
    let note = format!("built-in: {spec}");
    match (frag, whole) {
        (Err((sig, detail)), _) | (_, Err((sig, detail))) => rec.violation(&sig, &detail, witness_text("fragment + built-in spec", &body, &note)),
        (Ok(Ok(mut fm)), Ok(Ok((wf, _)))) => {
            fm.set_name("m".to_string());
            if fm != wf.project.module[0] {
                rec.violation(
                    "load_fragment and load_from_string interpret the same module body differently (built-in specification given)",
                    &format!("{note}; fragment: {:?} | file: {:?}", fm.if_data.first().map(|i| &i.ifdata_items), wf.project.module[0].if_data.first().map(|i| &i.ifdata_items)),
                    witness_text("fragment + built-in spec", &body, &note),
                );
            }
        }
        (Ok(Err(e)), Ok(Ok(_))) => rec.violation(
            &format!("module body accepted inside a file is rejected by load_fragment: {}", crate::gram::err_class(&e)),
            &e.to_string(),
            witness_text("fragment + built-in spec", &body, &note),
        ),
        _ => rec.bump("fragment_with_builtin_spec.file_rejected"),
    }
}

fn api_built_case(rng: &mut Rng, rec: &mut Recorder, k: usize) {
    rec.eval();
    let m = crate::api::build_model(rng, rec);
    rec.bump("api_built_models");
    let t = match write(&m) {
        Ok(t) => t,
        Err((sig, detail)) => {
            rec.violation(&sig, &detail, Json::obj().with("origin", Json::s("API-built model")));
            return;
        }
    };
    rec.nontrivial(t.as_bytes());
    // the API-built model itself must equal its reload
    match load_str(&t, false) {
        Err((sig, detail)) => rec.violation(&sig, &detail, witness_text("API-built", &t, "")),
        Ok(Err(e)) => rec.violation(
            &format!("reload of API-built model fails: {}", crate::gram::err_class(&e)),
            &format!("load(write(M0)) failed: {e}"),
            witness_text("API-built", &t, ""),
        ),
        Ok(Ok((m1, _))) => {
            if m1 != m {
                // known shape: an A2ML text built through the API without leading white space gets
                // a separating blank when written, which is part of the text after the reload
                let trim = |x: &A2lFile| {
                    let mut y = x.clone();
                    for md in y.project.module.iter_mut() {
                        if let Some(a) = &mut md.a2ml {
                            a.a2ml_text = a.a2ml_text.trim_start().to_string();
                        }
                    }
                    y
                };
                let sig = if trim(&m1) == trim(&m) {
                    "reloaded model differs only in leading white space of the A2ML text [API-built A2ML text without leading white space]"
                } else {
                    "reloaded model differs [API-built]"
                };
                rec.violation(
                    sig,
                    &format!("load(write(M0)) != M0; {}", model_diff(&m, &m1)),
                    witness_text("API-built", &t, ""),
                );
            } else if let Err((sig, detail)) = cycle_check(&m, k, "") {
                rec.violation(&format!("{sig} [API-built]"), &detail, witness_text("API-built", &t, ""));
            }
        }
    }
}

/// The API-built twin of a generated document: the same element tree, created with `T::new(..)`,
/// assignments to public fields and `push` only (functions generated from the reference grammar,
/// all element kinds except IF_DATA). It must survive the cycles like any other model.
fn api_twin_case(g: &Grammar, rng: &mut Rng, rec: &mut Recorder, k: usize, idx: u64, thorough: bool) {
    let mut cfg = gen_cfg_wide(rng, thorough);
    cfg.if_data = false;
    cfg.a2ml = false;
    cfg.comments_pct = 0;
    cfg.reserved_ascending = true;
    cfg.max_elems = cfg.max_elems.min(120);
    let mut gen = DocGen::new(g, cfg);
    let doc = if idx % 2 == 0 {
        // systematic: one document per element kind, the kind with its optional sub-elements
        let kinds: Vec<&String> = g
            .elements
            .iter()
            .flat_map(|e| e.tags.iter())
            .filter(|t| !matches!(t.as_str(), "A2L_FILE" | "IF_DATA" | "A2ML" | "ASAP2_VERSION" | "A2ML_VERSION"))
            .collect();
        let target = kinds[(idx / 2) as usize % kinds.len()];
        let Some(path) = vcommon::docgen::containment_path(g, target) else {
            rec.bump("api_twin.no_path");
            return;
        };
        let (_lo, hi) = vcommon::docgen::path_version_range(g, &path);
        gen.version = hi;
        gen.cfg.opt_pct = 90;
        let t = gen.gen_elem(rng, target);
        gen.gen_doc_with(rng, &path, hi, t)
    } else {
        gen.gen_doc(rng)
    };
    let built = match crate::apibuild::build_file(&doc) {
        Ok(b) => b,
        Err(why) => {
            rec.bump("api_twin.not_built");
            if rec.notes.len() < 5 {
                rec.notes.push(format!("API twin not built: {why}"));
            }
            return;
        }
    };
    rec.eval();
    rec.bump("api_twin_models");
    let flat = doc.flatten();
    for t in &flat.elem_tags {
        rec.bump(&format!("twin_kind.{t}"));
    }
    let t = match write(&built) {
        Ok(t) => t,
        Err((sig, detail)) => {
            rec.violation(&format!("{sig} [API-built twin]"), &detail, Json::obj().with("origin", Json::s("API-built twin")));
            return;
        }
    };
    rec.nontrivial(t.as_bytes());
    match load_str(&t, false) {
        Err((sig, detail)) => rec.violation(&format!("{sig} [API-built twin]"), &detail, witness_text("API-built twin", &t, "")),
        Ok(Err(e)) => rec.violation(
            &format!("reload of API-built model fails: {} [API-built twin]", crate::gram::err_class(&e)),
            &format!("load(write(M0)) failed: {e}; written text near the reported line: {}", near_error_line(&t, &e.to_string())),
            witness_text("API-built twin", &t, ""),
        ),
        Ok(Ok(_)) => {
            // model equality in every cycle (with the classification of the known order-only shapes)
            if let Err((sig, detail)) = cycle_check(&built, k, "") {
                let sig = if sig.ends_with("(input not in position order)") { sig } else { format!("{sig} [API-built twin]") };
                rec.violation(&sig, &detail, witness_text("API-built twin", &t, ""));
            }
        }
    }
}

trait NameCompat {
    fn get_name_compat(&self) -> String;
}
impl NameCompat for a2lfile::Module {
    fn get_name_compat(&self) -> String {
        use a2lfile::A2lObjectName;
        self.get_name().to_string()
    }
}

#[allow(dead_code)]
fn unused(_: Mode, _: Eol) {}
