//! C18 — IF_DATA is interpreted exactly as the applicable A2ML definition says (conformance monitor).

use crate::c01::witness_text;
use crate::gram::{compare_tokens, load_str_spec, write};
use a2lfile::{A2lFile, IfData};
use vcommon::a2mlgen::{deviate, gen_def, gen_def_prefixed, gen_instance, render_def, AType, Def};
use vcommon::doc::{Child, Doc, Elem, Tok, Val, TK};
use vcommon::json::{clip, Json};
use vcommon::layout::{render, LayoutCfg};
use vcommon::rng::Rng;
use vcommon::runtime::{guarded, run_cases, Args, Recorder};

const SITES: [&str; 11] = [
    "MODULE", "MEASUREMENT", "CHARACTERISTIC", "AXIS_PTS", "BLOB", "FRAME", "FUNCTION", "GROUP", "INSTANCE",
    "MEMORY_LAYOUT", "MEMORY_SEGMENT",
];

fn kw(tag: &str, params: Vec<Tok>) -> Elem {
    let mut e = Elem::new(tag, false, false);
    e.params = params;
    e
}

fn blk(tag: &str, params: Vec<Tok>) -> Elem {
    let mut e = Elem::new(tag, true, true);
    e.params = params;
    e
}

fn id(s: &str) -> Tok {
    Tok::word(TK::Ident, s)
}
fn st(s: &str) -> Tok {
    Tok::string(s, format!("\"{s}\""))
}
fn num(v: i128) -> Tok {
    Tok::int(v, format!("{v}"))
}
fn fl(v: f64) -> Tok {
    Tok::float(v, format!("{v}"))
}
fn en(s: &str) -> Tok {
    Tok::word(TK::Enum, s)
}

/// the host element for an IF_DATA at a given site (minimal valid form)
fn host(site: &str) -> Elem {
    match site {
        "MEASUREMENT" => blk("MEASUREMENT", vec![id("meas1"), st(""), en("UBYTE"), id("NO_COMPU_METHOD"), num(0), fl(0.0), fl(0.0), fl(255.0)]),
        "CHARACTERISTIC" => blk("CHARACTERISTIC", vec![id("char1"), st(""), en("VALUE"), num(0), id("rl"), fl(0.0), id("NO_COMPU_METHOD"), fl(0.0), fl(1.0)]),
        "AXIS_PTS" => blk("AXIS_PTS", vec![id("axis1"), st(""), num(0), id("NO_INPUT_QUANTITY"), id("rl"), fl(0.0), id("NO_COMPU_METHOD"), num(2), fl(0.0), fl(1.0)]),
        "BLOB" => blk("BLOB", vec![id("blob1"), st(""), num(0), num(4)]),
        "FRAME" => blk("FRAME", vec![id("frame1"), st(""), num(1), num(1)]),
        "FUNCTION" => blk("FUNCTION", vec![id("func1"), st("")]),
        "GROUP" => blk("GROUP", vec![id("group1"), st("")]),
        "INSTANCE" => blk("INSTANCE", vec![id("inst1"), st(""), id("td"), num(0)]),
        "MEMORY_LAYOUT" => blk("MEMORY_LAYOUT", vec![en("PRG_DATA"), num(0), num(16), num(-1), num(-1), num(-1), num(-1), num(-1)]),
        "MEMORY_SEGMENT" => blk(
            "MEMORY_SEGMENT",
            vec![id("seg1"), st(""), en("DATA"), en("RAM"), en("INTERN"), num(0), num(16), num(-1), num(-1), num(-1), num(-1), num(-1)],
        ),
        _ => unreachable!(),
    }
}

struct Block {
    site: &'static str,
    conforming: bool,
    kind: &'static str,
    n_tokens: usize,
}

fn ifdata_elem(toks: Vec<Tok>) -> Elem {
    let mut e = Elem::new("IF_DATA", true, false);
    e.params = toks;
    e
}

/// IF_DATA blocks of the model in the order in which the host document was built
fn collect_ifdata<'a>(a: &'a A2lFile, order: &[&'static str]) -> Vec<&'a IfData> {
    let m = &a.project.module[0];
    let mut out = Vec::new();
    let mut idx_module = 0;
    for site in order {
        let list: Option<&Vec<IfData>> = match *site {
            "MODULE" => None,
            "MEASUREMENT" => m.measurement.get("meas1").map(|x| &x.if_data),
            "CHARACTERISTIC" => m.characteristic.get("char1").map(|x| &x.if_data),
            "AXIS_PTS" => m.axis_pts.get("axis1").map(|x| &x.if_data),
            "BLOB" => m.blob.get("blob1").map(|x| &x.if_data),
            "FRAME" => m.frame.get("frame1").map(|x| &x.if_data),
            "FUNCTION" => m.function.get("func1").map(|x| &x.if_data),
            "GROUP" => m.group.get("group1").map(|x| &x.if_data),
            "INSTANCE" => m.instance.get("inst1").map(|x| &x.if_data),
            "MEMORY_LAYOUT" => m.mod_par.as_ref().and_then(|p| p.memory_layout.first()).map(|x| &x.if_data),
            "MEMORY_SEGMENT" => m.mod_par.as_ref().and_then(|p| p.memory_segment.get("seg1")).map(|x| &x.if_data),
            _ => None,
        };
        match list {
            Some(l) => {
                if let Some(x) = l.first() {
                    out.push(x);
                }
            }
            None => {
                if let Some(x) = m.if_data.get(idx_module) {
                    out.push(x);
                    idx_module += 1;
                }
            }
        }
    }
    out
}

fn build_doc(a2ml_text: Option<&str>, blocks: &[(&'static str, Vec<Tok>)]) -> Doc {
    let mut module = blk("MODULE", vec![id("m"), st("")]);
    if let Some(t) = a2ml_text {
        let mut a = Elem::new("A2ML", true, false);
        a.params.push(Tok {
            kind: TK::A2ml,
            text: t.to_string(),
            val: Val::Raw(t.to_string()),
        });
        module.children.push(Child::Elem(a));
    }
    let mut mod_par: Option<Elem> = None;
    for (site, toks) in blocks {
        match *site {
            "MODULE" => module.children.push(Child::Elem(ifdata_elem(toks.clone()))),
            "MEMORY_LAYOUT" | "MEMORY_SEGMENT" => {
                let mp = mod_par.get_or_insert_with(|| blk("MOD_PAR", vec![st("")]));
                let mut h = host(site);
                h.children.push(Child::Elem(ifdata_elem(toks.clone())));
                mp.children.push(Child::Elem(h));
            }
            _ => {
                let mut h = host(site);
                h.children.push(Child::Elem(ifdata_elem(toks.clone())));
                module.children.push(Child::Elem(h));
            }
        }
    }
    if let Some(mp) = mod_par {
        module.children.push(Child::Elem(mp));
    }
    let mut project = blk("PROJECT", vec![id("p"), st("")]);
    project.children.push(Child::Elem(module));
    Doc {
        version: 171,
        top: vec![kw("ASAP2_VERSION", vec![num(1), num(71)]), project],
    }
}

/// a document whose IF_DATA blocks conform to the A2ML block of the file, a fifth of them deviating
/// in one token (for the A2ML-interpreted parts of C01 and C02): text, the token list the written text must hold (comments inside IF_DATA
/// are not kept), number of IF_DATA blocks
pub fn gen_conforming_document(rng: &mut Rng) -> (String, vcommon::doc::Flat, usize) {
    let def = gen_def(rng);
    let def_text = render_def(&def, rng);
    let mut blocks: Vec<(&'static str, Vec<Tok>)> = Vec::new();
    let mut blocks_nc: Vec<(&'static str, Vec<Tok>)> = Vec::new();
    let mut sites: Vec<&'static str> = SITES.to_vec();
    rng.shuffle(&mut sites);
    let n = rng.urange(3, 12);
    for k in 0..n {
        let site = if k < sites.len() { sites[k] } else { "MODULE" };
        let inst = gen_instance(rng, &def);
        if rng.chance(1, 5) {
            // content that does not conform is kept as uninterpreted data: it must be as stable
            // over load/write cycles as anything else
            if let Some((toks, _kind)) = deviate(rng, &inst) {
                blocks_nc.push((site, toks.clone()));
                blocks.push((site, toks));
                continue;
            }
        }
        let mut with_c = inst.toks.clone();
        if rng.chance(1, 3) && !with_c.is_empty() {
            for _ in 0..rng.urange(1, 3) {
                // behind the last token more often than elsewhere
                let at = if rng.coin() { with_c.len() } else { rng.below(with_c.len() + 1) };
                let c = if rng.coin() { "/* note */" } else { "// note" };
                with_c.insert(at, Tok::comment(c));
            }
        }
        blocks_nc.push((site, inst.toks));
        blocks.push((site, with_c));
    }
    let doc = build_doc(Some(&def_text), &blocks);
    let flat_for_tokens = build_doc(Some(&def_text), &blocks_nc).flatten();
    let text = render(&doc.flatten(), &LayoutCfg::c05(rng), rng).text;
    (text, flat_for_tokens, n)
}

fn source_label(s: usize) -> &'static str {
    ["in_file", "built_in", "both_equal", "both_conflicting(built-in applies)", "both_conflicting(in-file applies)"][s]
}

/// Two MODULEs, each with its own A2ML block; both definitions use the same tag with another member
/// type. The applicable definition for IF_DATA of a module is the A2ML block of that module: every
/// value must survive load and write exactly, in both modules.
fn two_modules_case(rng: &mut Rng, rec: &mut Recorder) {
    // (type in the first module, type in the second module, literal for the second module that is
    // exact under the second type but not under the first)
    const FAMILY: [(&str, &str, &str, &str); 6] = [
        ("float", "ulong", "7", "16777217"),
        ("double", "uint64", "2.5", "18446744073709551615"),
        ("float", "double", "0.5", "0.1"),
        ("float", "long", "1.5", "-2147483647"),
        ("double", "int64", "3.5", "-9223372036854775807"),
        ("ulong", "ulong", "4", "4000000000"),
    ];
    let (t1, t2, v1, v2) = *rng.pick(&FAMILY);
    let swap = rng.chance(1, 3);
    let (t1, t2, v1, v2) = if swap { (t2, t1, v2, v1) } else { (t1, t2, v1, v2) };
    let member = |t: &str| if rng_free_block(t) { format!("\"X\" {t};") } else { format!("\"X\" {t};") };
    let text = format!(
        "ASAP2_VERSION 1 71\n/begin PROJECT p \"\"\n/begin MODULE m1 \"\"\n/begin A2ML\n  block \"IF_DATA\" taggedunion {{ {} }};\n/end A2ML\n/begin IF_DATA X {v1} /end IF_DATA\n/end MODULE\n/begin MODULE m2 \"\"\n/begin A2ML\n  block \"IF_DATA\" taggedunion {{ {} }};\n/end A2ML\n/begin IF_DATA X {v2} /end IF_DATA\n/begin MEASUREMENT x \"\" UBYTE NO_COMPU_METHOD 0 0 0 255 /begin IF_DATA X {v2} /end IF_DATA /end MEASUREMENT\n/end MODULE\n/end PROJECT\n",
        member(t1),
        member(t2)
    );
    rec.eval();
    rec.nontrivial(text.as_bytes());
    rec.bump("two_modules.cases");
    let strict = rng.coin();
    match load_str_spec(&text, None, strict) {
        Err((sig, detail)) => rec.violation(&sig, &detail, witness_text("C18 two modules", &text, "")),
        Ok(Err(e)) => rec.violation(
            &format!("two modules with their own A2ML blocks: document is rejected: {}", crate::gram::err_class(&e)),
            &e.to_string(),
            witness_text("C18 two modules", &text, ""),
        ),
        Ok(Ok((a, _))) => {
            let all_valid = a.project.module.iter().all(|m| m.if_data.iter().all(|i| i.ifdata_valid));
            if !all_valid {
                rec.violation(
                    "two modules with their own A2ML blocks: conforming IF_DATA is flagged invalid",
                    &format!("types {t1} / {t2}"),
                    witness_text("C18 two modules", &text, ""),
                );
            }
            match crate::gram::write(&a) {
                Err((sig, detail)) => rec.violation(&sig, &detail, witness_text("C18 two modules", &text, "")),
                Ok(out) => {
                    // every literal behind a tag X must be written with exactly its input value
                    let vals = |t: &str| -> Vec<String> {
                        vcommon::lexer::lex(t)
                            .map(|toks| {
                                toks.windows(2)
                                    .filter(|w| w[0].text == "X")
                                    .map(|w| match &w[1].val {
                                        vcommon::doc::Val::Int(i) => format!("{}", *i as f64),
                                        vcommon::doc::Val::Float(f) => format!("{f}"),
                                        other => format!("{other:?}"),
                                    })
                                    .collect()
                            })
                            .unwrap_or_default()
                    };
                    let (vi, vo) = (vals(&text), vals(&out));
                    if vi != vo {
                        rec.violation(
                            "two modules with their own A2ML blocks: IF_DATA value changed by load+write (the definition of another module was applied)",
                            &format!("types {t1} / {t2}: values {vi:?} written as {vo:?}"),
                            witness_text("C18 two modules", &text, &out),
                        );
                    }
                }
            }
        }
    }
}

fn rng_free_block(_t: &str) -> bool {
    false
}

pub fn run(args: &Args, rec: &mut Recorder) {
    rec.rule = "evaluation = one IF_DATA block: for a generated A2ML definition (named/anonymous/referenced types, 10 scalar types, arrays, char[n], enums with and without values, repeated tagged items, inner repetition, blocks, depth <= 4) conforming instances (a quarter of them with comments in front of, between and behind their tokens) must be flagged valid and single-token deviations (wrong token kind, unknown tag, unknown enum item, surplus token, integer out of range) must load, be flagged invalid and be kept as data; in both cases the written text must hold exactly the input tokens (values and integer notation); ifdata_cleanup() must remove exactly the invalid blocks. The definition is supplied in the file, as built-in specification, or both (equal / conflicting). distinct_nontrivial = distinct (definition, instance) texts by content hash".into();
    rec.assumptions.push("conformance holds by construction of the instance generator (globally unique tags and enum items make it unambiguous); multiplicity of non-repeating tagged items and strings longer than char[n] are not judged".into());
    let n_defs: u64 = if args.thorough { 200_000 } else { 8_000 };
    run_cases(args, rec, n_defs, crate::util::reset_budget, |rng, case, rec| {
        if case % 16 == 5 {
            two_modules_case(rng, rec);
            return None;
        }
        if case % 16 == 13 {
            // the built-in definition takes precedence over the A2ML block of the text for every
            // entry point: a module body loaded as a fragment is interpreted like the same body
            // inside a file
            crate::c01::fragment_with_builtin_spec_case(rng, rec);
            return None;
        }
        let def = gen_def(rng);
        let def_text = render_def(&def, rng);
        for f in &def.features {
            rec.bump(&format!("feature.{f}"));
        }
        // where does the definition come from?
        let source = rng.below(5);
        rec.bump(&format!("definition.{}", source_label(source)));
        let other: Option<(Def, String)> = if source >= 3 {
            // the other definition must not be able to claim an instance of `def`: its tags and enum
            // items are disjoint by prefix, but a non-strict load also accepts a bare word where a
            // char[n] string is expected (and writes it back quoted) and an integer where a float is
            // expected (and writes it back as a float). So the root of the other definition is a
            // tagged type: whatever it accepts starts with one of its own tags.
            let (d, t) = loop {
                let d = gen_def_prefixed(rng, "OT_");
                if matches!(d.root, AType::TaggedStruct { .. } | AType::TaggedUnion { .. }) {
                    let t = render_def(&d, rng);
                    break (d, t);
                }
            };
            Some((d, t))
        } else {
            None
        };
        let (a2ml_in_file, builtin): (Option<String>, Option<String>) = match source {
            0 => (Some(def_text.clone()), None),
            1 => (None, Some(def_text.clone())),
            2 => (Some(def_text.clone()), Some(def_text.clone())),
            3 => (other.as_ref().map(|o| o.1.clone()), Some(def_text.clone())),
            _ => (Some(def_text.clone()), other.as_ref().map(|o| o.1.clone())),
        };
        // 10 conforming instances + 5 deviations, spread over the sites
        let mut blocks: Vec<(&'static str, Vec<Tok>)> = Vec::new();
        let mut blocks_nc: Vec<(&'static str, Vec<Tok>)> = Vec::new();
        let mut meta: Vec<Block> = Vec::new();
        let mut sites: Vec<&'static str> = SITES.to_vec();
        rng.shuffle(&mut sites);
        // MODULE can hold several IF_DATA blocks: the remaining instances go there
        for k in 0..15 {
            let site = if k < sites.len() { sites[k] } else { "MODULE" };
            let inst = gen_instance(rng, &def);
            // deviations are judged where exactly one definition applies
            if k % 3 == 2 && source < 3 {
                if let Some((toks, kind)) = deviate(rng, &inst) {
                    meta.push(Block {
                        site,
                        conforming: false,
                        kind,
                        n_tokens: toks.len(),
                    });
                    blocks_nc.push((site, toks.clone()));
                    blocks.push((site, toks));
                    continue;
                }
            }
            meta.push(Block {
                site,
                conforming: true,
                kind: "conforming",
                n_tokens: inst.toks.len(),
            });
            if rng.chance(1, 4) && !inst.toks.is_empty() {
                // comments are not content: a conforming instance stays conforming with comments in
                // front of, between and behind its tokens
                let mut with_c = inst.toks.clone();
                for _ in 0..rng.urange(1, 3) {
                    let at = rng.below(with_c.len() + 1);
                    let c = if rng.coin() { "/* note */" } else { "// note" };
                    if at == with_c.len() {
                        rec.bump("comments.before_end_of_if_data");
                    } else {
                        rec.bump("comments.inside_if_data");
                    }
                    with_c.insert(at, Tok::comment(c));
                }
                blocks_nc.push((site, inst.toks));
                blocks.push((site, with_c));
                continue;
            }
            blocks_nc.push((site, inst.toks.clone()));
            blocks.push((site, inst.toks));
        }
        let doc = build_doc(a2ml_in_file.as_deref(), &blocks);
        // the token oracle works on the document without the comments inside IF_DATA (they are not kept)
        let flat_for_tokens = build_doc(a2ml_in_file.as_deref(), &blocks_nc).flatten();
        let flat = doc.flatten();
        let lc = LayoutCfg::c05(rng);
        let text = render(&flat, &lc, rng).text;
        let note = format!("definition source: {}; built-in spec: {}", source_label(source), builtin.as_deref().map_or("-".to_string(), |b| clip(b, 1500)));
        rec.nontrivial(text.as_bytes());
        if rec.want_sample() && case % 29 == 3 {
            rec.sample(Json::obj().with("definition", Json::s(&clip(&def_text, 600))).with("document", Json::s(&clip(&text, 600))));
        }
        for strict in [false, true] {
            if strict && meta.iter().any(|b| !b.conforming) {
                // strict mode is judged for the conforming part only: build the document without deviations
            }
            let (a2l, _log) = match load_str_spec(&text, builtin.clone(), strict) {
                Err((sig, detail)) => {
                    rec.violation(&sig, &detail, witness_text("C18", &text, &note));
                    return None;
                }
                Ok(Err(e)) => {
                    if !strict {
                        rec.violation(
                            &format!("document with balanced IF_DATA is rejected: {}", crate::gram::err_class(&e)),
                            &e.to_string(),
                            witness_text("C18", &text, &note),
                        );
                        return None;
                    }
                    rec.bump("strict_rejects_document_with_deviations");
                    continue;
                }
                Ok(Ok(v)) => v,
            };
            let order: Vec<&'static str> = blocks.iter().map(|b| b.0).collect();
            // collect in build order: per site the first block, MODULE blocks in sequence
            let found = collect_ifdata_in_build_order(&a2l, &order);
            if found.len() != meta.len() {
                rec.violation(
                    "IF_DATA blocks lost while loading",
                    &format!("{} blocks in the document, {} in the model", meta.len(), found.len()),
                    witness_text("C18", &text, &note),
                );
                return None;
            }
            for (b, ifd) in meta.iter().zip(found.iter()) {
                rec.eval();
                rec.bump(&format!("site.{}", b.site));
                rec.bump(&format!("instance.{}", b.kind));
                let empty = b.n_tokens == 0;
                if empty {
                    rec.bump("instance.empty");
                    continue; // an empty IF_DATA holds no content at all
                }
                if b.conforming && !ifd.ifdata_valid {
                    rec.violation(
                        &format!("conforming IF_DATA is flagged invalid ({})", source_label(source)),
                        &format!("site {} strict={strict}", b.site),
                        witness_text("C18", &text, &note),
                    );
                }
                if !b.conforming && ifd.ifdata_valid {
                    rec.violation(
                        &format!("non-conforming IF_DATA is flagged valid: {}", b.kind),
                        &format!("site {} strict={strict}", b.site),
                        witness_text("C18", &text, &note),
                    );
                }
            }
            // content: the written text must hold exactly the input tokens
            let out = match write(&a2l) {
                Ok(o) => o,
                Err((sig, detail)) => {
                    rec.violation(&sig, &detail, witness_text("C18", &text, &note));
                    return None;
                }
            };
            match compare_tokens(&flat_for_tokens, &out) {
                Ok(toks) => {
                    // integer notation (hex / decimal) must survive as well
                    for (ft, lt) in flat_for_tokens.toks.iter().zip(toks.iter()) {
                        if ft.in_ifdata && ft.tok.kind == TK::Int {
                            let was_hex = ft.tok.text.starts_with("0x") || ft.tok.text.starts_with("0X");
                            if was_hex != lt.hex {
                                rec.violation(
                                    "integer notation (hex/decimal) in IF_DATA changed",
                                    &format!("`{}` written as `{}`", ft.tok.text, lt.text),
                                    witness_text("C18", &text, &note),
                                );
                                break;
                            }
                        }
                    }
                    if let Some((a, b)) = crate::gram::first_inexact_float(&flat_for_tokens, &toks) {
                        rec.violation(
                            "float value in IF_DATA changed by load+write",
                            &format!("`{a}` written as `{b}`"),
                            witness_text("C18", &text, &note),
                        );
                    }
                    rec.add("tokens_compared", toks.len() as u64);
                }
                Err(d) => {
                    rec.violation(
                        &format!("IF_DATA content changed by load+write: {}", d.class),
                        &d.msg,
                        witness_text("C18", &text, &note),
                    );
                }
            }
            // ifdata_cleanup removes exactly the invalid blocks
            let mut c = a2l.clone();
            if let Err((sig, detail)) = guarded(|| c.ifdata_cleanup()) {
                rec.violation(&sig, &detail, witness_text("C18", &text, &note));
                return None;
            }
            let remaining = count_ifdata(&c);
            let expected_remaining = found.iter().filter(|x| x.ifdata_valid).count();
            let expected_by_construction = meta.iter().filter(|b| b.conforming && b.n_tokens > 0).count();
            if remaining != expected_remaining {
                rec.violation(
                    "ifdata_cleanup() does not remove exactly the blocks flagged invalid",
                    &format!("{remaining} blocks remain, {expected_remaining} were flagged valid"),
                    witness_text("C18", &text, &note),
                );
            }
            if remaining != expected_by_construction && !strict {
                rec.bump("cleanup_count_differs_from_construction");
            }
        }
        None
    });
    for s in SITES {
        rec.floor(&format!("site.{s}"), 5);
    }
    for k in ["conforming", "wrong_token_kind", "unknown_tag", "unknown_enum_item", "surplus_token_at_end", "integer_out_of_range"] {
        rec.floor(&format!("instance.{k}"), 5);
    }
    for f in [
        "scalar", "char_array", "array", "enum", "enum_with_values", "struct", "taggedstruct", "taggedunion", "block",
        "repeated_tagged_item", "inner_repeat", "tag_without_content", "named_in_place", "reference_to_earlier_type",
    ] {
        rec.floor(&format!("feature.{f}"), 3);
    }
    for s in 0..5 {
        rec.floor(&format!("definition.{}", source_label(s)), 3);
        rec.floor("two_modules.cases", 5);
        rec.floor("fragment_with_builtin_spec", 5);
    }
}

fn count_ifdata(a: &A2lFile) -> usize {
    let m = &a.project.module[0];
    let mut n = m.if_data.len();
    n += m.measurement.iter().map(|x| x.if_data.len()).sum::<usize>();
    n += m.characteristic.iter().map(|x| x.if_data.len()).sum::<usize>();
    n += m.axis_pts.iter().map(|x| x.if_data.len()).sum::<usize>();
    n += m.blob.iter().map(|x| x.if_data.len()).sum::<usize>();
    n += m.frame.iter().map(|x| x.if_data.len()).sum::<usize>();
    n += m.function.iter().map(|x| x.if_data.len()).sum::<usize>();
    n += m.group.iter().map(|x| x.if_data.len()).sum::<usize>();
    n += m.instance.iter().map(|x| x.if_data.len()).sum::<usize>();
    if let Some(p) = &m.mod_par {
        n += p.memory_layout.iter().map(|x| x.if_data.len()).sum::<usize>();
        n += p.memory_segment.iter().map(|x| x.if_data.len()).sum::<usize>();
    }
    n
}

fn collect_ifdata_in_build_order<'a>(a: &'a A2lFile, order: &[&'static str]) -> Vec<&'a IfData> {
    collect_ifdata(a, order)
}
