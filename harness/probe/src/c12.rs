//! C12 — check(): limit plausibility follows data type and conversion (limit-verdict monitor).

use a2lfile::*;
use vcommon::json::{clip, Json};
use vcommon::rng::Rng;
use vcommon::runtime::{guarded, run_cases, Args, Recorder};

const DATATYPES: [(DataType, &str, f64, f64); 11] = [
    (DataType::Ubyte, "UBYTE", 0.0, 255.0),
    (DataType::Sbyte, "SBYTE", -128.0, 127.0),
    (DataType::Uword, "UWORD", 0.0, 65535.0),
    (DataType::Sword, "SWORD", -32768.0, 32767.0),
    (DataType::Ulong, "ULONG", 0.0, 4294967295.0),
    (DataType::Slong, "SLONG", -2147483648.0, 2147483647.0),
    (DataType::AUint64, "A_UINT64", 0.0, 18446744073709551615.0),
    (DataType::AInt64, "A_INT64", -9223372036854775808.0, 9223372036854775807.0),
    (DataType::Float16Ieee, "FLOAT16_IEEE", -65504.0, 65504.0),
    (DataType::Float32Ieee, "FLOAT32_IEEE", -3.4028234663852886e38, 3.4028234663852886e38),
    (DataType::Float64Ieee, "FLOAT64_IEEE", f64::MIN, f64::MAX),
];

#[derive(Clone, Copy, Debug, PartialEq)]
enum Conv {
    None,
    Identical,
    TabIntp,
    TabNointp,
    TabVerb,
    Linear(f64, f64),
    /// RAT_FUNC with a=d=e=0: INT = (b*PHYS + c)/f
    RatLinear(f64, f64, f64),
    /// RAT_FUNC that is not of the linear form (index into GENERAL_COEFFS): never evaluated
    RatGeneral(u8),
    Form,
}

impl Conv {
    fn label(&self) -> &'static str {
        match self {
            Conv::None => "NO_COMPU_METHOD",
            Conv::Identical => "IDENTICAL",
            Conv::TabIntp => "TAB_INTP",
            Conv::TabNointp => "TAB_NOINTP",
            Conv::TabVerb => "TAB_VERB",
            Conv::Linear(a, _) => {
                if *a < 0.0 {
                    "LINEAR(a<0)"
                } else {
                    "LINEAR(a>0)"
                }
            }
            Conv::RatLinear(..) => "RAT_FUNC(linear)",
            Conv::RatGeneral(_) => "RAT_FUNC(general)",
            Conv::Form => "FORM",
        }
    }
}

/// coefficient sets a..f that are not of the form 0 b c 0 0 f (f != 0): each of a, d, e non-zero on
/// its own, and the degenerate f = 0
const GENERAL_COEFFS: [(f64, f64, f64, f64, f64, f64); 6] = [
    (1.0, 2.0, 3.0, 0.5, 1.0, 2.0),
    (0.0, 2.0, 0.0, 0.0, 1.0, 4.0),
    (0.0, 1.0, 0.0, 1.0, 0.0, 1.0),
    (2.0, 0.0, 1.0, 0.0, 0.0, 1.0),
    (0.0, 3.0, 1.0, 0.0, 0.5, 0.0),
    (0.0, 2.0, 1.0, 0.0, 0.0, 0.0),
];

#[derive(Clone, Copy, Debug, PartialEq)]
enum Place {
    Inside,
    OutsideLow,
    OutsideHigh,
    /// outside by 100 times the documented tolerance of that side (1e-6 relative to the limit of
    /// the same side; any amount if that limit is 0), however large the other end of the range is
    NearLow,
    NearHigh,
    /// outside by 1 % of the documented tolerance of that side: "within the documented relative
    /// tolerance", never an error (not placed if that limit is 0: the tolerance is relative)
    TolLow,
    TolHigh,
}

const PLACES: [Place; 7] = [
    Place::Inside,
    Place::OutsideLow,
    Place::OutsideHigh,
    Place::NearLow,
    Place::NearHigh,
    Place::TolLow,
    Place::TolHigh,
];

#[derive(Clone, Copy, Debug, PartialEq)]
enum Host {
    Measurement,
    Characteristic,
    AxisPts,
    StdAxisDescr,
    /// STD_AXIS as the second axis (Y) of a MAP whose first axis is a FIX_AXIS
    StdAxisDescrY,
    TypedefMeasurement,
}

const HOSTS: [Host; 6] = [
    Host::Measurement,
    Host::Characteristic,
    Host::AxisPts,
    Host::StdAxisDescr,
    Host::StdAxisDescrY,
    Host::TypedefMeasurement,
];

/// the independent range calculator: None = conversion is not evaluated (never an error)
fn expected_range(raw: (f64, f64), conv: Conv) -> Option<(f64, f64)> {
    let (lo, hi) = raw;
    match conv {
        Conv::None | Conv::Identical | Conv::TabIntp | Conv::TabNointp | Conv::TabVerb => Some((lo, hi)),
        Conv::Linear(a, b) => {
            let (x, y) = (a * lo + b, a * hi + b);
            Some((x.min(y), x.max(y)))
        }
        Conv::RatLinear(b, c, f) => {
            let inv = |i: f64| (f * i - c) / b;
            let (x, y) = (inv(lo), inv(hi));
            Some((x.min(y), x.max(y)))
        }
        Conv::RatGeneral(_) | Conv::Form => None,
    }
}

/// how many digits the conversion cancels at the ends of the raw range: (sum of the magnitudes
/// of the terms) / |result|; large values mean that two correct calculators may differ by much
/// more than an ulp, so placements measured in fractions of the tolerance are not judged there
fn cancellation(raw: (f64, f64), conv: Conv) -> f64 {
    let term = |x: f64, y: f64| -> f64 {
        let r = (x + y).abs();
        if r == 0.0 { f64::INFINITY } else { (x.abs() + y.abs()) / r }
    };
    match conv {
        Conv::Linear(a, b) => term(a * raw.0, b).max(term(a * raw.1, b)),
        Conv::RatLinear(_, c, f) => term(f * raw.0, -c).max(term(f * raw.1, -c)),
        _ => 1.0,
    }
}

fn build(host: Host, dt: DataType, conv: Conv, limits: (f64, f64)) -> A2lFile {
    let mut a2l = a2lfile::new();
    let m = &mut a2l.project.module[0];
    let conv_name = if conv == Conv::None { "NO_COMPU_METHOD" } else { "cm" };
    if conv != Conv::None {
        let ct = match conv {
            Conv::Identical => ConversionType::Identical,
            Conv::TabIntp => ConversionType::TabIntp,
            Conv::TabNointp => ConversionType::TabNointp,
            Conv::TabVerb => ConversionType::TabVerb,
            Conv::Linear(..) => ConversionType::Linear,
            Conv::RatLinear(..) | Conv::RatGeneral(_) => ConversionType::RatFunc,
            Conv::Form => ConversionType::Form,
            Conv::None => unreachable!(),
        };
        let mut cm = CompuMethod::new("cm".into(), "".into(), ct, "%8.3".into(), "".into());
        match conv {
            Conv::Linear(a, b) => cm.coeffs_linear = Some(CoeffsLinear::new(a, b)),
            Conv::RatLinear(b, c, f) => cm.coeffs = Some(Coeffs::new(0.0, b, c, 0.0, 0.0, f)),
            Conv::RatGeneral(k) => {
                let (a, b, c, d, e, f) = GENERAL_COEFFS[k as usize % GENERAL_COEFFS.len()];
                cm.coeffs = Some(Coeffs::new(a, b, c, d, e, f));
            }
            Conv::Form => cm.formula = Some(Formula::new("sin(X1)".into())),
            Conv::TabIntp | Conv::TabNointp => {
                let mut t = CompuTab::new("tab".into(), "".into(), ct, 1);
                t.tab_entry.push(TabEntryStruct::new(0.0, 1000.0));
                m.compu_tab.push(t);
                cm.compu_tab_ref = Some(CompuTabRef::new("tab".into()));
            }
            Conv::TabVerb => {
                let mut t = CompuVtab::new("tab".into(), "".into(), ct, 1);
                t.value_pairs.push(ValuePairsStruct::new(0.0, "x".into()));
                m.compu_vtab.push(t);
                cm.compu_tab_ref = Some(CompuTabRef::new("tab".into()));
            }
            _ => {}
        }
        if matches!(host, Host::Measurement | Host::AxisPts | Host::TypedefMeasurement) {
            // the conversion is looked up by name in a list that was edited before: two other
            // conversions are pushed first, the one in front of `cm` is removed again (which moves
            // `cm`), and another one with different coefficients is appended
            let other = |name: &str, a: f64| {
                let mut o = CompuMethod::new(name.into(), "".into(), ConversionType::Linear, "%8.3".into(), "".into());
                o.coeffs_linear = Some(CoeffsLinear::new(a, 12345.0));
                o
            };
            m.compu_method.push(other("cm_other0", 3.0));
            m.compu_method.push(other("cm_other1", 5.0));
            m.compu_method.push(cm);
            m.compu_method.swap_remove("cm_other1");
            m.compu_method.push(other("cm_other2", -7.0));
            // renaming an item to the name it already has, and away and back, leaves the list as it was
            if let Some(i) = m.compu_method.index("cm") {
                m.compu_method.rename_item(i, "cm_tmp");
                m.compu_method.rename_item(i, "cm");
                m.compu_method.rename_item(i, "cm");
            }
            if let Some(i) = m.compu_method.index("cm_other0") {
                m.compu_method.rename_item(i, "cm_other0");
            }
        } else {
            m.compu_method.push(cm);
        }
    }
    // a record layout whose FNC_VALUES / AXIS_PTS_X carry the data type under test; the other one is
    // FLOAT64 so that only the element under test can be out of range
    let mut rl = RecordLayout::new("rl".into());
    let (fnc_dt, axis_dt) = match host {
        Host::Characteristic => (dt, DataType::Float64Ieee),
        Host::AxisPts | Host::StdAxisDescr => (DataType::Float64Ieee, dt),
        Host::StdAxisDescrY => (DataType::Float64Ieee, DataType::Sbyte),
        _ => (DataType::Float64Ieee, DataType::Float64Ieee),
    };
    rl.fnc_values = Some(FncValues::new(1, fnc_dt, IndexMode::RowDir, AddrType::Direct));
    rl.axis_pts_x = Some(AxisPtsDim::new(2, axis_dt, IndexOrder::IndexIncr, AddrType::Direct));
    if host == Host::StdAxisDescrY {
        // AXIS_PTS_X has another (narrow) type, AXIS_PTS_Y carries the type under test
        rl.axis_pts_y = Some(AxisPtsDim::new(3, dt, IndexOrder::IndexIncr, AddrType::Direct));
    }
    m.record_layout.push(rl);
    let (lo, hi) = limits;
    match host {
        Host::Measurement => {
            m.measurement.push(Measurement::new("x".into(), "".into(), dt, conv_name.into(), 1, 0.0, lo, hi));
        }
        Host::TypedefMeasurement => {
            m.typedef_measurement
                .push(TypedefMeasurement::new("x".into(), "".into(), dt, conv_name.into(), 1, 0.0, lo, hi));
        }
        Host::Characteristic => {
            m.characteristic.push(Characteristic::new(
                "x".into(),
                "".into(),
                CharacteristicType::Value,
                0,
                "rl".into(),
                0.0,
                conv_name.into(),
                lo,
                hi,
            ));
        }
        Host::AxisPts => {
            m.axis_pts.push(AxisPts::new(
                "x".into(),
                "".into(),
                0,
                "NO_INPUT_QUANTITY".into(),
                "rl".into(),
                0.0,
                conv_name.into(),
                4,
                lo,
                hi,
            ));
        }
        Host::StdAxisDescrY => {
            let mut c = Characteristic::new(
                "x".into(),
                "".into(),
                CharacteristicType::Map,
                0,
                "rl".into(),
                0.0,
                "NO_COMPU_METHOD".into(),
                -1.0,
                1.0,
            );
            let mut fix = AxisDescr::new(
                AxisDescrAttribute::FixAxis,
                "NO_INPUT_QUANTITY".into(),
                "NO_COMPU_METHOD".into(),
                4,
                0.0,
                1.0,
            );
            fix.fix_axis_par = Some(FixAxisPar::new(0, 1, 4));
            c.axis_descr.push(fix);
            c.axis_descr.push(AxisDescr::new(
                AxisDescrAttribute::StdAxis,
                "NO_INPUT_QUANTITY".into(),
                conv_name.into(),
                4,
                lo,
                hi,
            ));
            m.characteristic.push(c);
        }
        Host::StdAxisDescr => {
            // the characteristic itself has wide-open limits and no conversion
            let mut c = Characteristic::new(
                "x".into(),
                "".into(),
                CharacteristicType::Curve,
                0,
                "rl".into(),
                0.0,
                "NO_COMPU_METHOD".into(),
                -1.0,
                1.0,
            );
            c.axis_descr.push(AxisDescr::new(
                AxisDescrAttribute::StdAxis,
                "NO_INPUT_QUANTITY".into(),
                conv_name.into(),
                4,
                lo,
                hi,
            ));
            m.characteristic.push(c);
        }
    }
    a2l
}

fn place_limits(range: (f64, f64), place: Place) -> Option<(f64, f64)> {
    let (lo, hi) = range;
    if !lo.is_finite() || !hi.is_finite() {
        return None;
    }
    let w = hi - lo;
    if w.is_finite() {
        let inner = (lo + 0.25 * w, hi - 0.25 * w);
        // "clearly" outside: 1 % of the larger of the width and the magnitude of the limit,
        // i.e. 10^4 times the documented relative tolerance
        let d_lo = 0.01 * w.max(lo.abs());
        let d_hi = 0.01 * w.max(hi.abs());
        let out = match place {
            Place::Inside => (lo + 0.01 * w, hi - 0.01 * w),
            Place::OutsideLow => (lo - d_lo, inner.1),
            Place::OutsideHigh => (inner.0, hi + d_hi),
            Place::NearLow => {
                let d = if lo == 0.0 { 1e-7 * w } else { 1e-4 * lo.abs() };
                (lo - d, inner.1)
            }
            Place::NearHigh => {
                let d = if hi == 0.0 { 1e-7 * w } else { 1e-4 * hi.abs() };
                (inner.0, hi + d)
            }
            Place::TolLow => {
                if lo == 0.0 || !(lo - 1e-8 * lo.abs() < lo) {
                    return None;
                }
                (lo - 1e-8 * lo.abs(), inner.1)
            }
            Place::TolHigh => {
                if hi == 0.0 || !(hi + 1e-8 * hi.abs() > hi) {
                    return None;
                }
                (inner.0, hi + 1e-8 * hi.abs())
            }
        };
        if out.0.is_finite() && out.1.is_finite() && d_lo > 0.0 && d_hi > 0.0 {
            Some(out)
        } else {
            None
        }
    } else {
        // the width itself overflows (FLOAT64 full range): only "inside" can be placed
        match place {
            Place::Inside => Some((lo / 2.0, hi / 2.0)),
            _ => None,
        }
    }
}

struct Case {
    host: Host,
    dt_idx: usize,
    conv: Conv,
    place: Place,
}

fn run_case(rec: &mut Recorder, c: &Case) {
    let (dt, dt_name, rlo, rhi) = DATATYPES[c.dt_idx];
    let exp = expected_range((rlo, rhi), c.conv);
    // for conversions that are not evaluated, place the limits relative to the raw range
    let range_for_placement = exp.unwrap_or((rlo, rhi));
    if matches!(c.place, Place::TolLow | Place::TolHigh) && !(cancellation((rlo, rhi), c.conv) <= 1e4) {
        rec.bump("skipped.tolerance_placement_with_cancellation");
        return;
    }
    let Some(limits) = place_limits(range_for_placement, c.place) else {
        rec.bump("skipped.range_not_finite");
        return;
    };
    let a2l = build(c.host, dt, c.conv, limits);
    rec.eval();
    rec.bump(&format!("host.{:?}", c.host));
    rec.bump(&format!("conv.{}", c.conv.label()));
    rec.bump(&format!("type.{dt_name}"));
    rec.bump(&format!("place.{:?}", c.place));
    let key = format!("{:?}|{dt_name}|{:?}|{:?}", c.host, c.conv, c.place);
    rec.nontrivial(key.as_bytes());
    if rec.want_sample() && rec.hist.get("place.Inside").copied().unwrap_or(0) % 5000 == 7 {
        rec.sample(Json::obj().with("case", Json::s(&key)).with("limits", Json::s(&format!("{limits:?}"))).with("expected_range", Json::s(&format!("{exp:?}"))));
    }
    let report = match guarded(|| a2l.check()) {
        Ok(r) => r,
        Err((sig, detail)) => {
            rec.violation(&sig, &detail, Json::obj().with("case", Json::s(&key)));
            return;
        }
    };
    let limit_errors: Vec<String> = report
        .iter()
        .filter(|e| matches!(e, A2lError::LimitCheckError { .. }))
        .map(|e| e.to_string())
        .collect();
    let other: Vec<String> = report
        .iter()
        .filter(|e| !matches!(e, A2lError::LimitCheckError { .. }))
        .map(|e| e.to_string())
        .collect();
    if !other.is_empty() {
        rec.bump("unexpected_other_reports");
        rec.notes.push(format!("non-limit report for {key}: {}", clip(&other[0], 200)));
    }
    // the verdict must not depend on the order of the lists: sort() (or sort_new_items(), which
    // orders the new elements) followed by check() on the same object gives the same limit report
    if matches!(c.host, Host::Measurement | Host::AxisPts | Host::TypedefMeasurement | Host::Characteristic) {
        let mut sorted = a2l.clone();
        let which = if limits.0.to_bits() % 2 == 0 { "sort()" } else { "sort_new_items()" };
        if which == "sort()" {
            sorted.sort();
        } else {
            sorted.sort_new_items();
        }
        rec.bump("sorted_before_check");
        match guarded(|| sorted.check()) {
            Err((sig, detail)) => rec.violation(&format!("{sig} after {which}"), &detail, Json::obj().with("case", Json::s(&key))),
            Ok(r2) => {
                let mut l2: Vec<String> = r2.iter().filter(|e| matches!(e, A2lError::LimitCheckError { .. })).map(|e| e.to_string()).collect();
                let mut l1 = limit_errors.clone();
                l1.sort();
                l2.sort();
                if l1 != l2 {
                    rec.violation(
                        &format!("limit report changes when the lists are sorted before check(): {:?}", c.host),
                        &format!("{key}: before {l1:?}, after {which}: {l2:?}"),
                        Json::obj().with("case", Json::s(&key)).with("input", Json::s(&clip(&a2l.write_to_string(), 4000))),
                    );
                }
            }
        }
    }
    let expect_error = exp.is_some() && !matches!(c.place, Place::Inside | Place::TolLow | Place::TolHigh);
    let sig_ctx = format!("{} {:?}", c.conv.label(), c.host);
    let witness = Json::obj()
        .with("case", Json::s(&key))
        .with("declared_limits", Json::s(&format!("{limits:?}")))
        .with("expected_range", Json::s(&format!("{exp:?}")))
        .with("input", Json::s(&clip(&a2l.write_to_string(), 4000)));
    if expect_error && limit_errors.is_empty() {
        rec.violation(
            &format!("limits clearly outside the range are not reported: {sig_ctx}"),
            &format!("{key}: declared {limits:?}, expected range {exp:?}, no LimitCheckError"),
            witness,
        );
    } else if !expect_error && !limit_errors.is_empty() {
        let why = if exp.is_none() {
            "conversion is not evaluated"
        } else if c.place == Place::Inside {
            "limits are inside the range"
        } else {
            "limits are within the documented tolerance of the range"
        };
        rec.violation(
            &format!("limit error although {why}: {sig_ctx}"),
            &format!("{key}: declared {limits:?}, expected range {exp:?}: {}", clip(&limit_errors[0], 300)),
            witness,
        );
    }
}

/// two MODULEs in one file that use the same names with different conversions and limits: the
/// modules are judged independently, so the report of the file is the union of the reports the
/// modules get when each stands alone in a file
fn two_module_case(rng: &mut Rng, rec: &mut Recorder) {
    let c1 = random_case(rng);
    let mut c2 = random_case(rng);
    c2.host = c1.host;
    c2.dt_idx = c1.dt_idx; // same data type, other coefficients: a cache keyed by name and type would mix them up
    let mk = |c: &Case| -> Option<A2lFile> {
        let (dt, _, rlo, rhi) = DATATYPES[c.dt_idx];
        let exp = expected_range((rlo, rhi), c.conv);
        let limits = place_limits(exp.unwrap_or((rlo, rhi)), c.place)?;
        Some(build(c.host, dt, c.conv, limits))
    };
    let (Some(f1), Some(f2)) = (mk(&c1), mk(&c2)) else {
        rec.bump("skipped.range_not_finite");
        return;
    };
    let mut both = f1.clone();
    let mut m2 = f2.project.module[0].clone();
    m2.set_name("m_second".to_string());
    both.project.module.push(m2);
    rec.eval();
    rec.bump("two_module_files");
    let key = format!("two modules: {:?}|{}|{:?}|{:?} + {:?}|{:?}", c1.host, DATATYPES[c1.dt_idx].1, c1.conv, c1.place, c2.conv, c2.place);
    rec.nontrivial(key.as_bytes());
    let limit_msgs = |f: &A2lFile| -> Result<Vec<String>, (String, String)> {
        let rep = guarded(|| f.check())?;
        let mut v: Vec<String> = rep
            .iter()
            .filter(|e| matches!(e, A2lError::LimitCheckError { .. }))
            .map(|e| e.to_string())
            .collect();
        v.sort();
        Ok(v)
    };
    let w = Json::obj().with("case", Json::s(&key)).with("input", Json::s(&clip(&both.write_to_string(), 4000)));
    match (limit_msgs(&f1), limit_msgs(&f2), limit_msgs(&both)) {
        (Ok(a), Ok(b), Ok(ab)) => {
            let mut expected = a;
            expected.extend(b);
            expected.sort();
            if expected != ab {
                rec.violation(
                    "limit check of a module depends on the other modules of the file",
                    &format!("{key}: alone {expected:?}, together {ab:?}"),
                    w,
                );
            }
        }
        (Err((sig, detail)), _, _) | (_, Err((sig, detail)), _) | (_, _, Err((sig, detail))) => rec.violation(&sig, &detail, w),
    }
}

fn grid() -> Vec<Case> {
    let mags = [1e-6, 1e-3, 1.0, 7.5, 1e3, 1e6];
    let mut convs = vec![
        Conv::None,
        Conv::Identical,
        Conv::TabIntp,
        Conv::TabNointp,
        Conv::TabVerb,
        Conv::RatGeneral(0),
        Conv::RatGeneral(1),
        Conv::RatGeneral(2),
        Conv::RatGeneral(3),
        Conv::RatGeneral(4),
        Conv::RatGeneral(5),
        Conv::Form,
    ];
    for a in mags {
        for sa in [1.0, -1.0] {
            for b in [0.0, 1e-3, 7.5, 1e6] {
                for sb in [1.0, -1.0] {
                    if b == 0.0 && sb < 0.0 {
                        continue;
                    }
                    convs.push(Conv::Linear(sa * a, sb * b));
                }
            }
        }
    }
    for b in [1e-3, 1.0, 7.5, 1e3] {
        for sb in [1.0, -1.0] {
            for c in [0.0, -7.5, 1e3] {
                for f in [1e-3, 1.0, -2.0, 1e3] {
                    convs.push(Conv::RatLinear(sb * b, c, f));
                }
            }
        }
    }
    let mut out = Vec::new();
    for host in HOSTS {
        for dt_idx in 0..DATATYPES.len() {
            for conv in &convs {
                for place in PLACES {
                    out.push(Case {
                        host,
                        dt_idx,
                        conv: *conv,
                        place,
                    });
                }
            }
        }
    }
    out
}

pub fn run(args: &Args, rec: &mut Recorder) {
    rec.rule = "evaluation = one check() call on a module holding one element (MEASUREMENT, CHARACTERISTIC via FNC_VALUES, AXIS_PTS via AXIS_PTS_X, STD_AXIS AXIS_DESCR via AXIS_PTS_X, TYPEDEF_MEASUREMENT) of one of the 11 data types with one conversion and limits placed clearly inside / outside-low / outside-high of the range computed by an independent calculator; the LimitCheckError verdict must match. The grid is enumerated completely in both tiers; quick adds 400 000 and thorough 5 000 000 random coefficient draws (magnitudes 1e-6..1e6, both signs). distinct_nontrivial = distinct (host, type, conversion, placement) tuples".into();
    rec.assumptions.push("'clearly' outside = by 1 % of max(range width, |limit|), i.e. 10^4 times the documented 1e-6 relative tolerance; limits exactly at the range are not judged; 'near' placements are outside by 100 x the documented tolerance of the same side (any amount if that limit is 0); 'tol' placements are outside by 1 % of the documented tolerance (1e-8 relative to the limit of that side; none if that limit is 0 or the conversion cancels more than four digits) and must not be reported; ranges that are not finite in f64 have no outside placement".into());
    let cases = grid();
    let n_grid = cases.len() as u64;
    let n_rand: u64 = if args.thorough { 5_000_000 } else { 400_000 };
    if args.shard == 0 {
        rec.extra.insert("grid_cases".into(), Json::UInt(n_grid));
        rec.extra.insert("exhaustive".into(), Json::Bool(n_rand == 0));
    }
    run_cases(args, rec, n_grid + n_rand, crate::util::reset_budget, |rng, case, rec| {
        if case < n_grid {
            run_case(rec, &cases[case as usize]);
        } else if case % 10 == 3 {
            two_module_case(rng, rec);
        } else {
            let c = random_case(rng);
            run_case(rec, &c);
        }
        None
    });
    for h in HOSTS {
        rec.floor(&format!("host.{h:?}"), 10);
    }
    for (_, n, _, _) in DATATYPES {
        rec.floor(&format!("type.{n}"), 10);
    }
    for l in [
        "NO_COMPU_METHOD", "IDENTICAL", "TAB_INTP", "TAB_NOINTP", "TAB_VERB", "LINEAR(a<0)", "LINEAR(a>0)",
        "RAT_FUNC(linear)", "RAT_FUNC(general)", "FORM",
    ] {
        rec.floor(&format!("conv.{l}"), 10);
    }
    rec.floor("place.Inside", 10);
    rec.floor("place.OutsideLow", 10);
    rec.floor("place.OutsideHigh", 10);
    rec.floor("two_module_files", 10);
    rec.floor("place.NearLow", 10);
    rec.floor("place.NearHigh", 10);
    rec.floor("place.TolLow", 10);
    rec.floor("sorted_before_check", 100);
    rec.floor("place.TolHigh", 10);
}

fn random_case(rng: &mut Rng) -> Case {
    let mag = |rng: &mut Rng| -> f64 {
        let e = rng.range(-6, 6) as i32;
        let m = 1.0 + rng.f64_unit() * 9.0;
        let s = if rng.coin() { 1.0 } else { -1.0 };
        s * m * 10f64.powi(e)
    };
    let conv = if rng.coin() {
        Conv::Linear(mag(rng), if rng.chance(1, 4) { 0.0 } else { mag(rng) })
    } else {
        Conv::RatLinear(mag(rng), if rng.chance(1, 4) { 0.0 } else { mag(rng) }, mag(rng))
    };
    Case {
        host: *rng.pick(&HOSTS),
        dt_idx: rng.below(DATATYPES.len()),
        conv,
        place: *rng.pick(&PLACES),
    }
}
