//! C06 — strict vs non-strict: two-mode relation monitor + diagnostic position (file/line) oracle.

use crate::c01::witness_text;
use crate::gram::{err_class, load_str};
use a2lfile::A2lError;
use vcommon::doc::{Child, Doc, Elem, Tok, TK};
use vcommon::docgen::{DocGen, GenCfg};
use vcommon::grammar::{in_range, Grammar, Item, PType, Ver, VERSIONS};
use vcommon::hostile::{gen_hostile, Seeds};
use vcommon::json::{clip, Json};
use vcommon::layout::{render, LayoutCfg};
use vcommon::rng::Rng;
use vcommon::runtime::{guarded, run_cases, Args, Recorder};

#[derive(Clone, Debug)]
struct Fault {
    class: &'static str,
    /// sentinel token text, or element marker, used to find the line span after rendering
    sentinel: String,
    marker: u32,
    deprecation: bool,
    /// filled in after rendering
    lo: u32,
    hi: u32,
}

fn short_class(e: &A2lError) -> String {
    let c = err_class(e);
    c.strip_prefix("ParserError.").unwrap_or(&c).to_string()
}

/// (filename, line) carried by a diagnostic, if it has position fields
fn position_of(e: &A2lError) -> Option<(String, u32)> {
    let d = format!("{e:?}");
    let file = d.find("filename: \"").map(|p| {
        let rest = &d[p + 11..];
        rest[..rest.find('"').unwrap_or(0)].to_string()
    })?;
    let line = d.find("error_line: ").and_then(|p| {
        let rest = &d[p + 12..];
        let n: String = rest.chars().take_while(|c| c.is_ascii_digit()).collect();
        n.parse::<u32>().ok()
    }).or_else(|| d.find("line: ").and_then(|p| {
        let rest = &d[p + 6..];
        let n: String = rest.chars().take_while(|c| c.is_ascii_digit()).collect();
        n.parse::<u32>().ok()
    }))?;
    Some((file, line))
}

fn is_deprecation(c: &str) -> bool {
    c == "BlockRefDeprecated" || c == "EnumRefDeprecated"
}

struct Injector<'a> {
    g: &'a Grammar,
    next_marker: u32,
    faults: Vec<Fault>,
    counter: u32,
}

fn preorder<'e>(e: &'e Elem, out: &mut Vec<&'e Elem>) {
    out.push(e);
    for c in &e.children {
        if let Child::Elem(k) = c {
            preorder(k, out);
        }
    }
}

fn nth_mut<'e>(e: &'e mut Elem, counter: &mut usize, target: usize) -> Option<&'e mut Elem> {
    if *counter == target {
        return Some(e);
    }
    *counter += 1;
    for c in &mut e.children {
        if let Child::Elem(k) = c {
            if let Some(r) = nth_mut(k, counter, target) {
                return Some(r);
            }
        }
    }
    None
}

fn doc_nth_mut(doc: &mut Doc, target: usize) -> &mut Elem {
    let mut counter = 0;
    for e in &mut doc.top {
        if let Some(r) = nth_mut(e, &mut counter, target) {
            return r;
        }
    }
    unreachable!()
}

impl<'a> Injector<'a> {
    fn fresh(&mut self) -> u32 {
        self.counter += 1;
        self.counter
    }

    /// try to inject one recoverable fault of a random kind into the document
    fn inject(&mut self, rng: &mut Rng, doc: &mut Doc) -> bool {
        let kind = rng.below(7);
        let n = self.fresh();
        let g = self.g;
        // a PROJECT without any MODULE (the library requires at least one): only as the first fault,
        // so that no other injected fault disappears together with its module
        if self.faults.is_empty() && rng.chance(1, 12) {
            if let Some(project) = doc.top.iter_mut().find(|e| e.tag == "PROJECT" && e.marker == 0) {
                let before = project.children.len();
                project.children.retain(|c| !matches!(c, Child::Elem(k) if k.tag == "MODULE"));
                if project.children.len() < before {
                    self.next_marker += 1;
                    project.marker = self.next_marker;
                    self.faults.push(Fault {
                        class: "InvalidMultiplicityNotPresent",
                        sentinel: String::new(),
                        marker: self.next_marker,
                        deprecation: false,
                        lo: 0,
                        hi: 0,
                    });
                    return true;
                }
            }
        }
        let cand: Vec<usize> = {
            let mut elems: Vec<&Elem> = Vec::new();
            for e in &doc.top {
                preorder(e, &mut elems);
            }
            (0..elems.len())
                .filter(|i| {
                    let e = elems[*i];
                    g.is_tag(&e.tag)
                        && e.tag != "IF_DATA"
                        && e.tag != "A2ML"
                        && e.tag != "ASAP2_VERSION"
                        && e.tag != "A2ML_VERSION"
                        && e.marker == 0
                })
                .collect()
        };
        if cand.is_empty() {
            return false;
        }
        for _attempt in 0..30 {
            let idx = *rng.pick(&cand);
            let e = doc_nth_mut(doc, idx);
            if e.marker != 0 {
                continue;
            }
            let def = g.elem(&e.tag);
            match kind {
                0 => {
                    // unknown sub-element at a block-level slot (a block, so that no exclusion applies)
                    if e.is_block && e.has_opts {
                        let tag = format!("ZZ_UNK_{n}");
                        let mut p = vec![Tok::begin(), Tok::word(TK::Tag, &tag)];
                        for _ in 0..rng.below(3) {
                            p.push(Tok::int(5, "5".into()));
                        }
                        p.push(Tok::end());
                        p.push(Tok::word(TK::EndTag, &tag));
                        let at = rng.below(e.children.len() + 1);
                        e.children.insert(at, Child::Raw(p));
                        self.faults.push(Fault {
                            class: "UnknownSubBlock",
                            sentinel: tag,
                            marker: 0,
                            deprecation: false,
                            lo: 0,
                            hi: 0,
                        });
                        return true;
                    }
                }
                1 => {
                    // duplicate of a non-repeatable optional child
                    let dup = e
                        .child_elems()
                        .filter(|c| {
                            def.opts.iter().any(|o| o.tag == c.tag && !o.repeat)
                                && c.marker == 0
                                && c.children.is_empty()
                                && c.tag != "A2ML"
                                // a keyword ending in an identifier list would swallow its duplicate
                                && !(!c.is_block && matches!(g.elem(&c.tag).params.last(), Some(Item::Seq(..))))
                        })
                        .cloned()
                        .next();
                    if let Some(mut d) = dup {
                        self.next_marker += 1;
                        d.marker = self.next_marker;
                        fn clear_markers(e: &mut Elem) {
                            for c in &mut e.children {
                                if let Child::Elem(k) = c {
                                    k.marker = 0;
                                    clear_markers(k);
                                }
                            }
                        }
                        clear_markers(&mut d);
                        e.children.push(Child::Elem(d));
                        self.faults.push(Fault {
                            class: "InvalidMultiplicityTooMany",
                            sentinel: String::new(),
                            marker: self.next_marker,
                            deprecation: false,
                            lo: 0,
                            hi: 0,
                        });
                        return true;
                    }
                }
                2 | 3 => {
                    // identifier starting with a digit / longer than 1024 bytes, in a single ident parameter
                    let mut pos = 0;
                    for item in &def.params {
                        match item {
                            Item::Single(f) => {
                                if f.ty == PType::Ident && pos < e.params.len() && pos > 0 {
                                    let text = if kind == 2 {
                                        format!("9zz{n}")
                                    } else {
                                        format!("zzlong{n}_{}", "x".repeat(1030))
                                    };
                                    e.params[pos] = Tok::word(TK::Ident, &text);
                                    self.faults.push(Fault {
                                        class: "InvalidIdentifier",
                                        sentinel: text,
                                        marker: 0,
                                        deprecation: false,
                                        lo: 0,
                                        hi: 0,
                                    });
                                    self.next_marker += 1;
                                    e.marker = self.next_marker;
                                    return true;
                                }
                                pos += 1;
                            }
                            Item::Array(_, k) => pos += k,
                            Item::Seq(..) => break,
                        }
                    }
                }
                4 => {
                    // identifier where a string is expected
                    let mut pos = 0;
                    for item in &def.params {
                        match item {
                            Item::Single(f) => {
                                if f.ty == PType::Str && pos < e.params.len() {
                                    let text = format!("zzstr{n}");
                                    e.params[pos] = Tok::word(TK::Ident, &text);
                                    self.faults.push(Fault {
                                        class: "UnexpectedTokenType",
                                        sentinel: text,
                                        marker: 0,
                                        deprecation: false,
                                        lo: 0,
                                        hi: 0,
                                    });
                                    self.next_marker += 1;
                                    e.marker = self.next_marker;
                                    return true;
                                }
                                pos += 1;
                            }
                            Item::Array(_, k) => pos += k,
                            Item::Seq(..) => break,
                        }
                    }
                }
                5 => {
                    // wrong /end tag: done at flat level through a sentinel; mark the element
                    if e.is_block && e.tag != "PROJECT" {
                        self.next_marker += 1;
                        e.marker = self.next_marker;
                        self.faults.push(Fault {
                            class: "IncorrectEndTag",
                            sentinel: format!("ZZ_WRONGEND_{n}"),
                            marker: self.next_marker,
                            deprecation: false,
                            lo: 0,
                            hi: 0,
                        });
                        return true;
                    }
                }
                _ => {
                    // handled by declaring another version (see caller)
                    return false;
                }
            }
        }
        false
    }
}

/// expected version diagnostics with the element markers / enum sentinels needed for the line oracle
fn mark_version_faults(g: &Grammar, doc: &mut Doc, declared: Ver, inj: &mut Injector) {
    fn walk(g: &Grammar, e: &mut Elem, ver: Ver, inj: &mut Injector) {
        if !g.is_tag(&e.tag) || e.tag == "IF_DATA" || e.tag == "A2ML" {
            return;
        }
        let def = g.elem(&e.tag);
        // enum parameters (single ones)
        let mut idx = 0;
        let mut enum_faults: Vec<(usize, &'static str, bool)> = Vec::new();
        for item in &def.params {
            match item {
                Item::Single(f) => {
                    if let (PType::Enum(name), Some(tok)) = (&f.ty, e.params.get(idx)) {
                        if let Some(it) = g.enums[name].items.iter().find(|i| i.name == tok.text) {
                            if it.vmin.is_some_and(|m| ver < m) {
                                enum_faults.push((idx, "EnumRefTooNew", false));
                            }
                            if it.vmax.is_some_and(|m| ver > m) {
                                enum_faults.push((idx, "EnumRefDeprecated", true));
                            }
                        }
                    }
                    idx += 1;
                }
                Item::Array(_, n) => idx += n,
                Item::Seq(..) => break,
            }
        }
        if !enum_faults.is_empty() {
            if e.marker == 0 {
                inj.next_marker += 1;
                e.marker = inj.next_marker;
            }
            for (_, class, dep) in enum_faults {
                inj.faults.push(Fault {
                    class,
                    sentinel: String::new(),
                    marker: e.marker,
                    deprecation: dep,
                    lo: 0,
                    hi: 0,
                });
            }
        }
        for c in &mut e.children {
            if let Child::Elem(k) = c {
                if let Some(o) = def.opts.iter().find(|o| o.tag == k.tag) {
                    let too_new = o.vmin.is_some_and(|m| ver < m);
                    let depr = o.vmax.is_some_and(|m| ver > m);
                    if too_new || depr {
                        if k.marker == 0 {
                            inj.next_marker += 1;
                            k.marker = inj.next_marker;
                        }
                        inj.faults.push(Fault {
                            class: if too_new { "BlockRefTooNew" } else { "BlockRefDeprecated" },
                            sentinel: String::new(),
                            marker: k.marker,
                            deprecation: depr && !too_new,
                            lo: 0,
                            hi: 0,
                        });
                    }
                }
                walk(g, k, ver, inj);
            }
        }
    }
    for e in &mut doc.top {
        walk(g, e, declared, inj);
    }
}

fn relation(
    rec: &mut Recorder,
    text: &str,
    has_ifdata: bool,
    origin: &str,
) -> Option<(Result<(a2lfile::A2lFile, Vec<A2lError>), A2lError>, Result<(a2lfile::A2lFile, Vec<A2lError>), A2lError>)> {
    let strict = match load_str(text, true) {
        Err((sig, detail)) => {
            rec.violation(&sig, &detail, witness_text(origin, text, "strict"));
            return None;
        }
        Ok(r) => r,
    };
    let lenient = match load_str(text, false) {
        Err((sig, detail)) => {
            rec.violation(&sig, &detail, witness_text(origin, text, "non-strict"));
            return None;
        }
        Ok(r) => r,
    };
    rec.bump(&format!(
        "outcome.strict={}.nonstrict={}",
        if strict.is_ok() { "Ok" } else { "Err" },
        match &lenient {
            Ok((_, l)) if l.is_empty() => "Ok",
            Ok(_) => "Ok+log",
            Err(_) => "Err",
        }
    ));
    // R1
    if let (Ok(_), Err(e)) = (&strict, &lenient) {
        rec.violation(
            "R1: strict succeeds but non-strict fails",
            &format!("non-strict error: {e}"),
            witness_text(origin, text, ""),
        );
    }
    // R2
    if let Ok((m, log)) = &lenient {
        if log.is_empty() {
            match &strict {
                Err(e) => rec.violation(
                    &format!("R2: non-strict succeeds without warnings but strict fails ({})", short_class(e)),
                    &format!("strict error: {e}"),
                    witness_text(origin, text, ""),
                ),
                Ok((ms, ls)) => {
                    if !ls.is_empty() {
                        rec.violation(
                            "R2: strict logs something although non-strict logs nothing",
                            &format!("strict log: {:?}", ls.iter().map(short_class).collect::<Vec<_>>()),
                            witness_text(origin, text, ""),
                        );
                    }
                    if ms != m {
                        rec.violation(
                            "R2: strict and non-strict models differ",
                            &crate::c01::model_diff(m, ms),
                            witness_text(origin, text, ""),
                        );
                    }
                }
            }
        }
    }
    if !has_ifdata {
        // R3 / R4
        if let Ok((m, log)) = &lenient {
            let problems: Vec<String> = log.iter().map(short_class).filter(|c| !is_deprecation(c)).collect();
            match &strict {
                Ok((ms, _)) => {
                    if !problems.is_empty() {
                        rec.violation(
                            &format!("R3: strict succeeds although non-strict reports {}", problems[0]),
                            &format!("non-strict problems: {problems:?}"),
                            witness_text(origin, text, ""),
                        );
                    }
                    if ms != m {
                        rec.violation(
                            "R4: both modes succeed but the models differ",
                            &crate::c01::model_diff(m, ms),
                            witness_text(origin, text, ""),
                        );
                    }
                }
                Err(e) => {
                    if problems.is_empty() {
                        rec.violation(
                            &format!("R3: strict fails ({}) although non-strict reports only deprecation notices", short_class(e)),
                            &format!("strict error: {e}; non-strict log: {:?}", log.iter().map(short_class).collect::<Vec<_>>()),
                            witness_text(origin, text, ""),
                        );
                    }
                }
            }
        }
    }
    Some((strict, lenient))
}

/// A2ML blocks that cannot be interpreted, alone, behind a valid block of another MODULE, or next to a
/// built-in definition: an A2ML problem is reported in non-strict mode, so strict mode must fail
/// (no IF_DATA in these documents)
fn a2ml_definitions_case(rng: &mut Rng, rec: &mut Recorder) {
    let valid = "\n  block \"IF_DATA\" taggedunion { \"OK\" uint; };\n";
    let broken = *rng.pick(&[
        "\n  block \"IF_DATA\" struct { int; \n",
        "\n  block IF_DATA struct { int; };\n",
        "\n  struct { unknown_type x; };\n",
        "\n  block \"IF_DATA\" taggedunion { \"A\" };;; }\n",
    ]);
    let module = |name: &str, a2ml: Option<&str>| {
        let a = a2ml.map_or(String::new(), |t| format!("/begin A2ML{t}/end A2ML\n"));
        format!("/begin MODULE {name} \"\"\n{a}/begin MEASUREMENT x \"\" UBYTE NO_COMPU_METHOD 0 0 0 255\n/end MEASUREMENT\n/end MODULE\n")
    };
    let (label, modules, spec): (&str, String, Option<String>) = match rng.below(5) {
        0 => ("broken_block_alone", module("m1", Some(broken)), None),
        1 => ("valid_then_broken", format!("{}{}", module("m1", Some(valid)), module("m2", Some(broken))), None),
        2 => ("broken_then_valid", format!("{}{}", module("m1", Some(broken)), module("m2", Some(valid))), None),
        3 => ("broken_block_with_built_in_definition", module("m1", Some(broken)), Some(valid.to_string())),
        _ => ("valid_blocks", format!("{}{}", module("m1", Some(valid)), module("m2", Some(valid))), Some(valid.to_string())),
    };
    let text = format!("ASAP2_VERSION 1 71\n/begin PROJECT p \"\"\n{modules}/end PROJECT\n");
    rec.nontrivial(format!("{label}{text}").as_bytes());
    rec.bump(&format!("a2ml_definitions.{label}"));
    let strict = crate::gram::load_str_spec(&text, spec.clone(), true);
    let lenient = crate::gram::load_str_spec(&text, spec, false);
    let (Ok(strict), Ok(lenient)) = (strict, lenient) else {
        rec.violation("panic while loading a document with A2ML blocks", label, witness_text("A2ML definitions", &text, label));
        return;
    };
    match (&strict, &lenient) {
        (Ok(_), Ok((_, log))) => {
            let problems: Vec<String> = log.iter().map(short_class).filter(|c| !is_deprecation(c)).collect();
            if !problems.is_empty() {
                rec.violation(
                    &format!("R3: strict succeeds although non-strict reports {} [{label}]", problems[0]),
                    &format!("non-strict problems: {problems:?}"),
                    witness_text("A2ML definitions", &text, label),
                );
            }
        }
        (Err(e), Ok((_, log))) => {
            if log.iter().map(short_class).all(|c| is_deprecation(&c)) {
                rec.violation(
                    &format!("R3: strict fails ({}) although non-strict reports only deprecation notices [{label}]", short_class(e)),
                    &e.to_string(),
                    witness_text("A2ML definitions", &text, label),
                );
            }
        }
        (Ok(_), Err(e)) => rec.violation(
            &format!("R1: strict succeeds but non-strict fails [{label}]"),
            &e.to_string(),
            witness_text("A2ML definitions", &text, label),
        ),
        (Err(_), Err(_)) => {}
    }
}

/// tokens behind /end PROJECT that stand in an include file: the diagnostic must name that file
fn stray_tokens_in_include_case(rng: &mut Rng, rec: &mut Recorder, scratch: &std::path::Path, case: u64) {
    let root = scratch.join(format!("c06inc_{case}"));
    let _ = std::fs::remove_dir_all(&root);
    std::fs::create_dir_all(&root).unwrap();
    let doc = "ASAP2_VERSION 1 71\n/begin PROJECT p \"\"\n/begin MODULE m \"\"\n/end MODULE\n/end PROJECT\n";
    let stray = "\nstray_token 1 2\n";
    let (label, main_text, inc_name, inc_text, stray_line): (&str, String, &str, String, u32) = if rng.coin() {
        ("whole_document_in_include", "/include \"body.a2l\"\n".to_string(), "body.a2l", format!("{doc}{stray}"), 7)
    } else {
        ("trailer_include", format!("{doc}/include trailer.a2l\n"), "trailer.a2l", format!("\n\n{stray}"), 4)
    };
    std::fs::write(root.join(inc_name), &inc_text).unwrap();
    let main = root.join("main.a2l");
    std::fs::write(&main, &main_text).unwrap();
    rec.bump(&format!("stray_tokens_in_include.{label}"));
    rec.nontrivial(format!("{label}{main_text}{inc_text}").as_bytes());
    let w = witness_text("stray tokens in an include file", &main_text, &format!("{inc_name}: {inc_text:?}"));
    for strict in [false, true] {
        let r = guarded(|| a2lfile::load(&main, None, strict));
        let diags: Vec<A2lError> = match r {
            Err((sig, detail)) => {
                rec.violation(&sig, &detail, w.clone());
                continue;
            }
            Ok(Ok((_, log))) => log,
            Ok(Err(e)) => vec![e],
        };
        let Some(d) = diags.iter().find(|e| short_class(e) == "AdditionalTokensError") else {
            rec.violation(
                &format!("tokens behind /end PROJECT are not reported (strict={strict}) [{label}]"),
                &format!("{:?}", diags.iter().map(|e| e.to_string()).collect::<Vec<_>>()),
                w.clone(),
            );
            continue;
        };
        rec.bump("diag.positions_checked");
        match position_of(d) {
            Some((file, line)) => {
                if !file.ends_with(inc_name) || line != stray_line {
                    rec.violation(
                        &format!("diagnostic AdditionalTokensError does not carry the include file and line of the token [{label}]"),
                        &format!("strict={strict}: reported {file}:{line}, the token stands in {inc_name}:{stray_line}: {d}"),
                        w.clone(),
                    );
                }
            }
            None => rec.bump("diag.without_position"),
        }
    }
    let _ = std::fs::remove_dir_all(&root);
}

/// IF_DATA that is interpreted with the A2ML block of the file: as generated (conforming, some blocks
/// deviating), or with a recoverable fault inside the IF_DATA (a string written as a bare word).
/// The first two clauses of the property hold for every input.
fn interpreted_ifdata_case(rng: &mut Rng, rec: &mut Recorder) {
    let (text0, _flat, _n) = crate::c18::gen_conforming_document(rng);
    let mut text = text0.clone();
    let mut stripped = 0;
    if rng.chance(2, 3) {
        // strip the quotes of identifier-like strings inside IF_DATA blocks
        let mut out = String::with_capacity(text0.len());
        let mut rest = text0.as_str();
        while let Some(at) = rest.find("/begin IF_DATA") {
            let end = rest[at..].find("/end IF_DATA").map(|e| at + e).unwrap_or(rest.len());
            out.push_str(&rest[..at]);
            let body = &rest[at..end];
            let mut i = 0;
            let b = body.as_bytes();
            while i < b.len() {
                if b[i] == b'"' {
                    if let Some(close) = body[i + 1..].find('"') {
                        let inner = &body[i + 1..i + 1 + close];
                        let ident_like = !inner.is_empty()
                            && inner.chars().next().is_some_and(|c| c.is_ascii_alphabetic() || c == '_')
                            && inner.chars().all(|c| c.is_ascii_alphanumeric() || c == '_');
                        let next_is_quote = body[i + 2 + close..].starts_with('"');
                        if ident_like && !next_is_quote && rng.chance(1, 2) {
                            out.push_str(inner);
                            stripped += 1;
                        } else {
                            out.push_str(&body[i..i + 2 + close]);
                        }
                        i += close + 2;
                        continue;
                    }
                }
                let ch_len = body[i..].chars().next().map(char::len_utf8).unwrap_or(1);
                out.push_str(&body[i..i + ch_len]);
                i += ch_len;
            }
            rest = &rest[end..];
        }
        out.push_str(rest);
        text = out;
    }
    rec.nontrivial(text.as_bytes());
    rec.bump("input.interpreted_if_data");
    if stripped > 0 {
        rec.bump("input.interpreted_if_data.with_bare_word_for_string");
    }
    relation(rec, &text, true, "G-a2ml document");
}

fn text_has_ifdata(text: &str) -> bool {
    text.contains("IF_DATA") || text.contains("A2ML")
}

pub fn run(args: &Args, rec: &mut Recorder) {
    rec.rule = "evaluation = one input loaded with strict=true and strict=false; the relation between the two outcomes (R1 strict Ok => non-strict Ok; R2 non-strict Ok without warnings => strict Ok, equal model, no log; for IF_DATA-free inputs R3 strict fails iff non-strict reports a non-deprecation problem, R4 equal models) is checked for every input; for documents with injected faults at known lines every positioned diagnostic must carry the file name passed and a line inside the span of an injected fault of the same class. distinct_nontrivial = distinct inputs by content hash".into();
    rec.assumptions.push("MissingVersionInfo / InvalidVersion carry no position (public type); AdditionalTokensError may carry the line of the last regular token; for multiplicity errors the line must lie inside the duplicated element".into());
    let g = Grammar::load_default();
    let total: u64 = if args.thorough { 1_000_000 } else { 100_000 };
    let mut srng = Rng::derive(&[args.seed, 0xC06, args.shard]);
    let seeds = Seeds::build(&g, &mut srng, 10);
    let scratch = crate::c03::scratch_dir(args);
    run_cases(args, rec, total, crate::util::reset_budget, |rng, case, rec| {
        rec.eval();
        if case % 40 == 13 {
            a2ml_definitions_case(rng, rec);
            return None;
        }
        if case % 40 == 33 {
            stray_tokens_in_include_case(rng, rec, &scratch, case);
            return None;
        }
        if case % 40 == 23 || case % 40 == 3 {
            interpreted_ifdata_case(rng, rec);
            return None;
        }
        let variant = case % 10;
        if variant >= 8 {
            // hostile / hard-fault inputs: relation only
            let h = gen_hostile(&g, &seeds, rng);
            let text = String::from_utf8_lossy(&h.bytes).into_owned();
            rec.nontrivial(text.as_bytes());
            rec.bump("input.hostile");
            let has_ifd = text_has_ifdata(&text);
            relation(rec, &text, has_ifd, &format!("hostile/{}", h.kind));
            return None;
        }
        // grammar documents
        let mut cfg = GenCfg::default();
        cfg.max_elems = *rng.pick(&[10usize, 40, 100]);
        cfg.opt_pct = rng.urange(15, 60) as u32;
        let with_ifdata = variant == 7;
        cfg.if_data = with_ifdata;
        // A2ML blocks alone are inside the IF_DATA-free clauses: the block is raw text that spans
        // several lines, and every diagnostic behind it must still carry the right line
        cfg.a2ml = with_ifdata || rng.chance(1, 3);
        if cfg.a2ml {
            rec.bump("input.doc.with_a2ml_block");
        }
        cfg.comments_pct = *rng.pick(&[0u32, 5]);
        let mut gen = DocGen::new(&g, cfg);
        let mut doc = gen.gen_doc(rng);
        let mut inj = Injector {
            g: &g,
            next_marker: 0,
            faults: Vec::new(),
            counter: 0,
        };
        let n_faults = match variant {
            0 | 1 => 0,
            2 | 3 => 1,
            _ => rng.urange(1, 4),
        };
        for _ in 0..n_faults {
            inj.inject(rng, &mut doc);
        }
        // version faults: declare another version in some cases
        let mut declared = doc.version;
        if variant == 5 || variant == 6 {
            declared = *rng.pick(&VERSIONS);
            for e in &mut doc.top {
                if e.tag == "ASAP2_VERSION" {
                    let minor = i128::from(declared % 100);
                    e.params[1] = Tok::int(minor, format!("{minor}"));
                }
            }
            mark_version_faults(&g, &mut doc, declared, &mut inj);
        }
        let _ = in_range(declared, None, None);
        // trailing tokens after /end PROJECT
        let trailing = variant == 4 && rng.coin();
        let mut flat = doc.flatten();
        // apply wrong end tags at the flat level
        for f in inj.faults.iter().filter(|f| f.class == "IncorrectEndTag") {
            if let Some(id) = flat.elem_marker.iter().position(|m| *m == f.marker) {
                let (_, last) = flat.elem_span[id];
                flat.toks[last].tok = Tok::word(TK::EndTag, &f.sentinel);
            }
        }
        // one token per line (except the tag behind /begin and /end): every fault has its own line
        let mut lc = LayoutCfg::c05(rng);
        lc.newline_pct = 100;
        let mut r = render(&flat, &lc, rng);
        // a comment on a line of its own directly in front of a faulty token (inside a parameter
        // list comments are skipped, not stored): the diagnostic must still carry the line of the token
        if rng.coin() {
            let cand: Vec<usize> = inj
                .faults
                .iter()
                .filter(|f| !f.sentinel.is_empty() && (f.marker == 0 || f.class == "InvalidIdentifier" || f.class == "UnexpectedTokenType"))
                .filter_map(|f| flat.toks.iter().position(|t| t.tok.text == f.sentinel))
                .collect();
            if !cand.is_empty() {
                let i = *rng.pick(&cand);
                let l = r.lines[i] as usize;
                let mut lines: Vec<&str> = r.text.split('\n').collect();
                if l >= 2 && l <= lines.len() && lines[l - 1].trim_start().starts_with(flat.toks[i].tok.text.as_str()) {
                    let n = rng.urange(1, 2);
                    for _ in 0..n {
                        lines.insert(l - 1, if rng.coin() { "  /* remark */" } else { "// remark" });
                    }
                    let new_text = lines.join("\n");
                    for x in r.lines.iter_mut() {
                        if *x as usize >= l {
                            *x += n as u32;
                        }
                    }
                    r.text = new_text;
                    rec.bump("docs_with_comment_in_front_of_faulty_token");
                }
            }
        }
        let mut trailing_span = (0u32, 0u32);
        if trailing {
            let last_line = r.text.matches('\n').count() as u32 + 1;
            r.text.push_str("\nzz_trailing_token 1 2\n");
            trailing_span = (last_line.saturating_sub(1), last_line + 1);
        }
        // fault spans
        let mut faults = inj.faults.clone();
        for f in &mut faults {
            if f.marker != 0 && f.class != "InvalidIdentifier" && f.class != "UnexpectedTokenType" {
                if let Some(id) = flat.elem_marker.iter().position(|m| *m == f.marker) {
                    let (a, b) = flat.elem_span[id];
                    f.lo = r.lines[a];
                    f.hi = r.lines[b];
                    if f.class == "IncorrectEndTag" {
                        f.lo = r.lines[b.saturating_sub(1)];
                    }
                }
            } else if !f.sentinel.is_empty() {
                if let Some(i) = flat.toks.iter().position(|t| t.tok.text == f.sentinel) {
                    f.lo = r.lines[i].saturating_sub(if f.class == "UnknownSubBlock" { 0 } else { 0 });
                    f.hi = r.lines[i];
                    if f.class == "UnknownSubBlock" {
                        f.lo = r.lines[i.saturating_sub(1)];
                    }
                }
            }
        }
        let text = r.text;
        rec.nontrivial(text.as_bytes());
        rec.bump(&format!("input.doc.faults={}", faults.len().min(5)));
        for f in &faults {
            rec.bump(&format!("injected.{}", f.class));
        }
        if rec.want_sample() && !faults.is_empty() && case % 37 == 4 {
            rec.sample(
                Json::obj()
                    .with("faults", Json::Arr(faults.iter().map(|f| Json::s(&format!("{} lines {}..{}", f.class, f.lo, f.hi))).collect()))
                    .with("text", Json::s(&clip(&text, 400))),
            );
        }
        let Some((strict, lenient)) = relation(rec, &text, with_ifdata, "G-doc+faults") else {
            return None;
        };
        // ---- position oracle
        let fault_note = format!("{:?}", faults.iter().map(|f| (f.class, f.lo, f.hi)).collect::<Vec<_>>());
        let mut check_pos = |rec: &mut Recorder, e: &A2lError, mode: &str, expect_file: &str| {
            let class = short_class(e);
            let Some((file, line)) = position_of(e) else {
                rec.bump("diag.without_position");
                return;
            };
            rec.bump("diag.positions_checked");
            if file != expect_file {
                rec.violation(
                    &format!("diagnostic carries the wrong file name ({class})"),
                    &format!("{mode}: file `{file}`, expected `{expect_file}`: {e}"),
                    witness_text("G-doc+faults", &text, &fault_note),
                );
            }
            if class == "AdditionalTokensError" {
                if trailing && (line < trailing_span.0 || line > trailing_span.1) {
                    rec.violation(
                        "diagnostic line outside the fault (AdditionalTokensError)",
                        &format!("{mode}: line {line}, expected {trailing_span:?}"),
                        witness_text("G-doc+faults", &text, &fault_note),
                    );
                }
                return;
            }
            let matching = faults.iter().any(|f| {
                let class_ok = f.class == class
                    // strict mode may meet the same faulty token through another rule
                    || (mode == "strict" && (class == "UnknownSubBlock" || class == "UnexpectedTokenType"));
                class_ok && line >= f.lo && line <= f.hi
            });
            if !matching {
                rec.violation(
                    &format!("diagnostic {class} not at the line of an injected fault"),
                    &format!("{mode}: {e} -- injected faults (class, first line, last line): {fault_note}"),
                    witness_text("G-doc+faults", &text, &fault_note),
                );
            }
        };
        if !with_ifdata {
            match &lenient {
                Ok((_, log)) => {
                    for e in log {
                        check_pos(rec, e, "non-strict", "");
                    }
                    // every injected fault must have been reported (otherwise the position clause is vacuous)
                    for f in &faults {
                        let n_rep = log.iter().filter(|e| short_class(e) == f.class).count();
                        let n_inj = faults.iter().filter(|x| x.class == f.class).count();
                        if n_rep < n_inj {
                            rec.bump("faults_not_reported");
                            rec.violation(
                                &format!("injected fault not reported in non-strict mode ({})", f.class),
                                &format!("{} injected, {} reported; log: {:?}", n_inj, n_rep, log.iter().map(short_class).collect::<Vec<_>>()),
                                witness_text("G-doc+faults", &text, &fault_note),
                            );
                            break;
                        }
                    }
                }
                Err(e) => {
                    if let A2lError::ParserError { .. } = e {
                        check_pos(rec, e, "non-strict", "");
                    }
                }
            }
            if let Err(e) = &strict {
                if let A2lError::ParserError { .. } = e {
                    check_pos(rec, e, "strict", "");
                }
            }
            // the same through a file: the diagnostics must carry the path
            if case % 16 == 3 && !faults.is_empty() {
                let p = scratch.join("c06.a2l");
                std::fs::write(&p, &text).unwrap();
                let pstr = p.to_string_lossy().to_string();
                if let Ok(Ok((_, log))) = guarded(|| a2lfile::load(&p, None, false)) {
                    rec.bump("file_loads");
                    for e in &log {
                        check_pos(rec, e, "non-strict", &pstr);
                    }
                }
            }
        }
        None
    });
    let _ = std::fs::remove_dir_all(&scratch);
    for k in [
        "injected.UnknownSubBlock",
        "injected.InvalidMultiplicityTooMany",
        "injected.InvalidIdentifier",
        "injected.UnexpectedTokenType",
        "injected.IncorrectEndTag",
        "injected.InvalidMultiplicityNotPresent",
        "injected.BlockRefTooNew",
        "injected.BlockRefDeprecated",
        "injected.EnumRefTooNew",
        "input.hostile",
        "diag.positions_checked",
        "file_loads",
    ] {
        rec.floor(k, 3);
    }
    rec.floor("outcome.strict=Ok.nonstrict=Ok", 10);
    rec.floor("input.interpreted_if_data.with_bare_word_for_string", 5);
    rec.floor("docs_with_comment_in_front_of_faulty_token", 5);
    rec.floor("outcome.strict=Err.nonstrict=Ok+log", 10);
    rec.floor("outcome.strict=Err.nonstrict=Err", 10);
}
