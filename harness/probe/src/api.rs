//! models built and edited through the public API (C01, C05)

use a2lfile::*;
use vcommon::grammar::Grammar;
use vcommon::rng::Rng;
use vcommon::runtime::Recorder;
use vcommon::values::{gen_ident_text, gen_string_value, ValCfg};

thread_local! {
    static GRAMMAR: Grammar = Grammar::load_default();
}

pub fn ident(rng: &mut Rng) -> String {
    GRAMMAR.with(|g| {
        gen_ident_text(
            rng,
            g,
            &ValCfg {
                extremes: false,
                ..ValCfg::default()
            },
        )
    })
}

pub fn text(rng: &mut Rng) -> String {
    gen_string_value(rng, &ValCfg::default())
}

pub fn float(rng: &mut Rng) -> f64 {
    match rng.below(8) {
        0 => 0.0,
        1 => rng.range(-1000, 1000) as f64,
        2 => f64::MAX,
        3 => f64::MIN_POSITIVE,
        4 => -1e-7,
        5 => 123456789012.5,
        _ => (rng.f64_unit() - 0.5) * 10f64.powi(rng.range(-6, 12) as i32),
    }
}

fn datatype(rng: &mut Rng) -> DataType {
    *rng.pick(&[
        DataType::Ubyte,
        DataType::Sbyte,
        DataType::Uword,
        DataType::Sword,
        DataType::Ulong,
        DataType::Slong,
        DataType::AUint64,
        DataType::AInt64,
        DataType::Float16Ieee,
        DataType::Float32Ieee,
        DataType::Float64Ieee,
    ])
}

fn unique(rng: &mut Rng, used: &mut Vec<String>) -> String {
    loop {
        let n = ident(rng);
        if !used.contains(&n) {
            used.push(n.clone());
            return n;
        }
    }
}

fn annotation(rng: &mut Rng) -> Annotation {
    let mut a = Annotation::new();
    if rng.coin() {
        a.annotation_label = Some(AnnotationLabel::new(text(rng)));
    }
    if rng.coin() {
        a.annotation_origin = Some(AnnotationOrigin::new(text(rng)));
    }
    if rng.coin() {
        let mut t = AnnotationText::new();
        for _ in 0..rng.below(4) {
            t.annotation_text_list.push(text(rng));
        }
        a.annotation_text = Some(t);
    }
    a
}

pub fn measurement(rng: &mut Rng, name: String) -> Measurement {
    let mut m = Measurement::new(
        name,
        text(rng),
        datatype(rng),
        ident(rng),
        rng.below(65536) as u16,
        float(rng),
        float(rng),
        float(rng),
    );
    if rng.coin() {
        m.ecu_address = Some(EcuAddress::new(rng.next_u64() as u32));
    }
    if rng.coin() {
        m.bit_mask = Some(BitMask::new(rng.next_u64()));
    }
    if rng.coin() {
        m.annotation.push(annotation(rng));
    }
    if rng.chance(1, 3) {
        let mut md = MatrixDim::new();
        for _ in 0..rng.urange(1, 3) {
            md.dim_list.push(rng.below(100) as u16);
        }
        m.matrix_dim = Some(md);
    }
    if rng.chance(1, 3) {
        m.symbol_link = Some(SymbolLink::new(text(rng), rng.range(-5, 100000) as i32));
    }
    if rng.chance(1, 3) {
        m.format = Some(Format::new(text(rng)));
    }
    if rng.chance(1, 4) {
        m.discrete = Some(Discrete::new());
    }
    if rng.chance(1, 4) {
        let mut v = Virtual::new();
        v.measuring_channel_list.push(ident(rng));
        m.var_virtual = Some(v);
    }
    if rng.chance(1, 4) {
        let mut bo = BitOperation::new();
        bo.left_shift = Some(LeftShift::new(rng.below(32) as u32));
        if rng.coin() {
            bo.sign_extend = Some(SignExtend::new());
        }
        m.bit_operation = Some(bo);
    }
    if rng.chance(1, 4) {
        m.ecu_address_extension = Some(EcuAddressExtension::new(rng.range(-32768, 32767) as i16));
    }
    if rng.chance(1, 4) {
        let mut fl = FunctionList::new();
        fl.name_list.push(ident(rng));
        fl.name_list.push(ident(rng));
        m.function_list = Some(fl);
    }
    m
}

pub fn characteristic(rng: &mut Rng, name: String) -> Characteristic {
    let mut c = Characteristic::new(
        name,
        text(rng),
        *rng.pick(&[
            CharacteristicType::Value,
            CharacteristicType::Curve,
            CharacteristicType::Map,
            CharacteristicType::ValBlk,
            CharacteristicType::Ascii,
        ]),
        rng.next_u64() as u32,
        ident(rng),
        float(rng),
        ident(rng),
        float(rng),
        float(rng),
    );
    for _ in 0..rng.below(3) {
        let mut ad = AxisDescr::new(
            *rng.pick(&[
                AxisDescrAttribute::StdAxis,
                AxisDescrAttribute::ComAxis,
                AxisDescrAttribute::FixAxis,
            ]),
            ident(rng),
            ident(rng),
            rng.below(200) as u16,
            float(rng),
            float(rng),
        );
        if rng.coin() {
            ad.axis_pts_ref = Some(AxisPtsRef::new(ident(rng)));
        }
        if rng.coin() {
            ad.fix_axis_par = Some(FixAxisPar::new(1, 2, 3));
        }
        if rng.chance(1, 3) {
            let mut l = FixAxisParList::new();
            for _ in 0..rng.below(4) {
                l.axis_pts_value_list.push(float(rng));
            }
            ad.fix_axis_par_list = Some(l);
        }
        c.axis_descr.push(ad);
    }
    if rng.coin() {
        c.extended_limits = Some(ExtendedLimits::new(float(rng), float(rng)));
    }
    if rng.chance(1, 3) {
        c.calibration_access = Some(CalibrationAccess::new(CalibrationAccessEnum::NoCalibration));
    }
    if rng.chance(1, 3) {
        let mut dc = DependentCharacteristic::new(text(rng));
        dc.characteristic_list.push(ident(rng));
        c.dependent_characteristic = Some(dc);
    }
    if rng.chance(1, 3) {
        c.number = Some(Number::new(rng.below(1000) as u16));
    }
    if rng.chance(1, 3) {
        c.read_only = Some(ReadOnly::new());
    }
    if rng.chance(1, 3) {
        c.max_refresh = Some(MaxRefresh::new(rng.below(100) as u16, rng.next_u64() as u32));
    }
    c
}

pub fn compu_method(rng: &mut Rng, name: String) -> CompuMethod {
    let mut cm = CompuMethod::new(
        name,
        text(rng),
        *rng.pick(&[
            ConversionType::Identical,
            ConversionType::Linear,
            ConversionType::RatFunc,
            ConversionType::TabVerb,
            ConversionType::Form,
        ]),
        text(rng),
        text(rng),
    );
    if rng.coin() {
        cm.coeffs_linear = Some(CoeffsLinear::new(float(rng), float(rng)));
    }
    if rng.coin() {
        cm.coeffs = Some(Coeffs::new(
            float(rng),
            float(rng),
            float(rng),
            float(rng),
            float(rng),
            float(rng),
        ));
    }
    if rng.chance(1, 3) {
        cm.compu_tab_ref = Some(CompuTabRef::new(ident(rng)));
    }
    if rng.chance(1, 3) {
        let mut f = Formula::new(text(rng));
        if rng.coin() {
            f.formula_inv = Some(FormulaInv::new(text(rng)));
        }
        cm.formula = Some(f);
    }
    if rng.chance(1, 3) {
        cm.ref_unit = Some(RefUnit::new(ident(rng)));
    }
    cm
}

pub fn build_module_content(rng: &mut Rng, module: &mut Module, rec: &mut Recorder) {
    let mut used = Vec::new();
    let n = rng.urange(1, 25);
    for _ in 0..n {
        match rng.below(16) {
            0 | 1 => {
                let nm = unique(rng, &mut used);
                module.measurement.push(measurement(rng, nm));
                rec.bump("api.Measurement");
            }
            2 | 3 => {
                let nm = unique(rng, &mut used);
                module.characteristic.push(characteristic(rng, nm));
                rec.bump("api.Characteristic");
            }
            4 => {
                let nm = unique(rng, &mut used);
                module.compu_method.push(compu_method(rng, nm));
                rec.bump("api.CompuMethod");
            }
            5 => {
                let mut t = CompuTab::new(
                    unique(rng, &mut used),
                    text(rng),
                    ConversionType::TabIntp,
                    rng.below(5) as u16,
                );
                for _ in 0..rng.below(5) {
                    t.tab_entry.push(TabEntryStruct::new(float(rng), float(rng)));
                }
                if rng.coin() {
                    t.default_value_numeric = Some(DefaultValueNumeric::new(float(rng)));
                }
                module.compu_tab.push(t);
                rec.bump("api.CompuTab");
            }
            6 => {
                let mut t = CompuVtab::new(
                    unique(rng, &mut used),
                    text(rng),
                    ConversionType::TabVerb,
                    2,
                );
                for _ in 0..rng.below(4) {
                    t.value_pairs.push(ValuePairsStruct::new(float(rng), text(rng)));
                }
                if rng.coin() {
                    t.default_value = Some(DefaultValue::new(text(rng)));
                }
                module.compu_vtab.push(t);
                rec.bump("api.CompuVtab");
            }
            7 => {
                let mut t = CompuVtabRange::new(unique(rng, &mut used), text(rng), 1);
                for _ in 0..rng.below(3) {
                    t.value_triples
                        .push(ValueTriplesStruct::new(float(rng), float(rng), text(rng)));
                }
                module.compu_vtab_range.push(t);
                rec.bump("api.CompuVtabRange");
            }
            8 => {
                let mut g = Group::new(unique(rng, &mut used), text(rng));
                if rng.coin() {
                    g.root = Some(Root::new());
                }
                if rng.coin() {
                    let mut r = RefMeasurement::new();
                    for _ in 0..rng.below(4) {
                        r.identifier_list.push(ident(rng));
                    }
                    g.ref_measurement = Some(r);
                }
                if rng.coin() {
                    let mut r = SubGroup::new();
                    r.identifier_list.push(ident(rng));
                    g.sub_group = Some(r);
                }
                module.group.push(g);
                rec.bump("api.Group");
            }
            9 => {
                let mut f = Function::new(unique(rng, &mut used), text(rng));
                if rng.coin() {
                    let mut r = DefCharacteristic::new();
                    r.identifier_list.push(ident(rng));
                    f.def_characteristic = Some(r);
                }
                if rng.coin() {
                    f.function_version = Some(FunctionVersion::new(text(rng)));
                }
                module.function.push(f);
                rec.bump("api.Function");
            }
            10 => {
                let mut rl = RecordLayout::new(unique(rng, &mut used));
                rl.fnc_values = Some(FncValues::new(
                    1,
                    datatype(rng),
                    IndexMode::RowDir,
                    AddrType::Direct,
                ));
                if rng.coin() {
                    rl.axis_pts_x = Some(AxisPtsDim::new(
                        2,
                        datatype(rng),
                        IndexOrder::IndexIncr,
                        AddrType::Direct,
                    ));
                }
                if rng.coin() {
                    rl.reserved.push(Reserved::new(3, DataTypeSize::Word));
                }
                if rng.coin() {
                    rl.alignment_long = Some(AlignmentLong::new(4));
                }
                module.record_layout.push(rl);
                rec.bump("api.RecordLayout");
            }
            11 => {
                let mut u = Unit::new(unique(rng, &mut used), text(rng), text(rng), UnitType::Derived);
                if rng.coin() {
                    u.si_exponents = Some(SiExponents::new(1, -2, 3, 0, 0, 0, -7));
                }
                if rng.coin() {
                    u.unit_conversion = Some(UnitConversion::new(float(rng), float(rng)));
                }
                module.unit.push(u);
                rec.bump("api.Unit");
            }
            12 => {
                let mut a = AxisPts::new(
                    unique(rng, &mut used),
                    text(rng),
                    rng.next_u64() as u32,
                    ident(rng),
                    ident(rng),
                    float(rng),
                    ident(rng),
                    rng.below(100) as u16,
                    float(rng),
                    float(rng),
                );
                if rng.coin() {
                    a.deposit = Some(Deposit::new(DepositMode::Absolute));
                }
                if rng.coin() {
                    a.monotony = Some(Monotony::new(MonotonyType::StrictIncrease));
                }
                module.axis_pts.push(a);
                rec.bump("api.AxisPts");
            }
            13 => {
                let mut ts = TypedefStructure::new(unique(rng, &mut used), text(rng), rng.below(1000) as u32);
                for _ in 0..rng.below(3) {
                    let mut sc = StructureComponent::new(ident(rng), ident(rng), rng.below(100) as u32);
                    if rng.coin() {
                        sc.symbol_type_link = Some(SymbolTypeLink::new(text(rng)));
                    }
                    ts.structure_component.push(sc);
                }
                module.typedef_structure.push(ts);
                let inst = Instance::new(unique(rng, &mut used), text(rng), ident(rng), rng.next_u64() as u32);
                module.instance.push(inst);
                rec.bump("api.TypedefStructure+Instance");
            }
            14 => {
                if module.mod_par.is_none() {
                    let mut mp = ModPar::new(text(rng));
                    mp.system_constant.push(SystemConstant::new(text(rng), text(rng)));
                    mp.memory_segment.push(MemorySegment::new(
                        ident(rng),
                        text(rng),
                        PrgType::Data,
                        MemoryType::Ram,
                        MemoryAttribute::Intern,
                        rng.next_u64() as u32,
                        rng.next_u64() as u32,
                        [-1, -1, 0, 1, i32::MAX],
                    ));
                    if rng.coin() {
                        mp.epk = Some(Epk::new(text(rng)));
                    }
                    if rng.coin() {
                        mp.addr_epk.push(AddrEpk::new(rng.next_u64() as u32));
                    }
                    module.mod_par = Some(mp);
                    rec.bump("api.ModPar");
                }
            }
            _ => {
                if module.mod_common.is_none() {
                    let mut mc = ModCommon::new(text(rng));
                    mc.byte_order = Some(ByteOrder::new(ByteOrderEnum::MsbLast));
                    mc.alignment_word = Some(AlignmentWord::new(2));
                    module.mod_common = Some(mc);
                    rec.bump("api.ModCommon");
                } else {
                    let mut b = Blob::new(unique(rng, &mut used), text(rng), 1, 2);
                    if rng.coin() {
                        b.address_type = Some(AddressType::new(AddrType::Plong));
                    }
                    module.blob.push(b);
                    rec.bump("api.Blob");
                }
            }
        }
    }
    // VARIANT_CODING: VAR_CRITERION is the one element in which an open-ended identifier list is
    // directly followed by optional keyword elements; every combination of the two is built
    if rng.chance(1, 4) && module.variant_coding.is_none() {
        let mut vc = VariantCoding::new();
        for k in 0..rng.urange(1, 4) {
            let mut c = VarCriterion::new(format!("crit_{k}"), text(rng));
            for v in 0..rng.below(4) {
                c.value_list.push(format!("val_{v}"));
            }
            if rng.coin() {
                c.var_measurement = Some(VarMeasurement::new(ident(rng)));
            }
            if rng.coin() {
                c.var_selection_characteristic = Some(VarSelectionCharacteristic::new(ident(rng)));
            }
            vc.var_criterion.push(c);
        }
        if rng.coin() {
            vc.var_separator = Some(VarSeparator::new(".".into()));
        }
        if rng.coin() {
            vc.var_naming = Some(VarNaming::new(VarNamingTag::Numeric));
        }
        module.variant_coding = Some(vc);
        rec.bump("api.VariantCoding");
    }
}

/// a model built entirely through `new()` / `T::new()` / `push`
pub fn build_model(rng: &mut Rng, rec: &mut Recorder) -> A2lFile {
    let mut a2l = a2lfile::new();
    if rng.coin() {
        let mut h = Header::new(text(rng));
        if rng.coin() {
            h.version = Some(Version::new(text(rng)));
        }
        if rng.coin() {
            h.project_no = Some(ProjectNo::new(ident(rng)));
        }
        a2l.project.header = Some(h);
    }
    a2l.project.long_identifier = text(rng);
    build_module_content(rng, &mut a2l.project.module[0], rec);
    if rng.chance(1, 3) {
        // an A2ML block built through the API, with and without white space around the text
        let body = "block \"IF_DATA\" taggedunion {\n  \"API\" struct { uint; char[10]; };\n};";
        let (lead, trail, label) = match rng.below(4) {
            0 => ("\n", "\n", "a2ml.newline_both"),
            1 => ("", "", "a2ml.no_white_space"),
            2 => (" ", "\n    ", "a2ml.blank_and_indent"),
            _ => ("\n  ", "", "a2ml.newline_front_only"),
        };
        rec.bump(label);
        a2l.project.module[0].a2ml = Some(A2ml::new(format!("{lead}{body}{trail}")));
    }
    if rng.chance(1, 4) {
        let mut m2 = Module::new(ident(rng), text(rng));
        build_module_content(rng, &mut m2, rec);
        if m2.get_name() != a2l.project.module[0].get_name() {
            a2l.project.module.push(m2);
        }
    }
    a2l
}

/// apply 1..4 random edits through the public API; returns false if nothing could be edited
pub fn random_edits(rng: &mut Rng, a2l: &mut A2lFile, rec: &mut Recorder) -> bool {
    let mut done = false;
    let n = rng.urange(1, 4);
    for _ in 0..n {
        let module = &mut a2l.project.module[0];
        match rng.below(11) {
            9 => {
                // remove whole lists (and optional children): comments that stood in front of the
                // removed elements become the last item of their block
                let mut any = false;
                macro_rules! strip {
                    ($($l:ident),*) => {$(
                        if rng.coin() && !module.$l.is_empty() {
                            module.$l.retain(|_| false);
                            any = true;
                        }
                    )*};
                }
                strip!(
                    axis_pts, blob, characteristic, compu_method, compu_tab, compu_vtab, compu_vtab_range, frame,
                    function, group, instance, measurement, record_layout, transformer, typedef_axis, typedef_blob,
                    typedef_characteristic, typedef_measurement, typedef_structure, unit
                );
                if rng.coin() && module.mod_par.is_some() {
                    module.mod_par = None;
                    any = true;
                }
                if rng.coin() && module.variant_coding.is_some() {
                    module.variant_coding = None;
                    any = true;
                }
                if any {
                    rec.bump("edit.strip_lists");
                    done = true;
                }
            }
            10 => {
                // remove children inside module-level elements
                let mut any = false;
                for m in module.measurement.iter_mut() {
                    if rng.coin() && (!m.annotation.is_empty() || !m.if_data.is_empty() || m.function_list.is_some()) {
                        m.annotation.clear();
                        m.if_data.clear();
                        m.function_list = None;
                        any = true;
                    }
                }
                for c in module.characteristic.iter_mut() {
                    if rng.coin() && (!c.annotation.is_empty() || !c.axis_descr.is_empty() || !c.if_data.is_empty()) {
                        c.annotation.clear();
                        c.axis_descr.clear();
                        c.if_data.clear();
                        any = true;
                    }
                }
                for f in module.function.iter_mut() {
                    if rng.coin() {
                        f.def_characteristic = None;
                        f.ref_characteristic = None;
                        f.in_measurement = None;
                        f.annotation.clear();
                        any = true;
                    }
                }
                for g in module.group.iter_mut() {
                    if rng.coin() {
                        g.ref_characteristic = None;
                        g.sub_group = None;
                        g.annotation.clear();
                        any = true;
                    }
                }
                for r in module.record_layout.iter_mut() {
                    if rng.coin() {
                        r.reserved.clear();
                        r.axis_pts_x = None;
                        r.fnc_values = None;
                        any = true;
                    }
                }
                if any {
                    rec.bump("edit.strip_children");
                    done = true;
                }
            }
            0 => {
                let mut used: Vec<String> = module
                    .measurement
                    .iter()
                    .map(|m| m.get_name().to_string())
                    .collect();
                let name = unique(rng, &mut used);
                module.measurement.push(measurement(rng, name));
                rec.bump("edit.push_measurement");
                done = true;
            }
            1 => {
                if !module.measurement.is_empty() {
                    let i = rng.below(module.measurement.len());
                    module.measurement[i].long_identifier = text(rng);
                    module.measurement[i].lower_limit = float(rng);
                    rec.bump("edit.field_measurement");
                    done = true;
                }
            }
            2 => {
                if !module.characteristic.is_empty() {
                    let i = rng.below(module.characteristic.len());
                    if rng.coin() {
                        module.characteristic.swap_remove_idx(i);
                        rec.bump("edit.swap_remove");
                    } else {
                        let name = module.characteristic[i].get_name().to_string();
                        module.characteristic.retain(|c| c.get_name() != name);
                    }
                    rec.bump("edit.remove_characteristic");
                    done = true;
                }
            }
            3 => {
                if !module.compu_method.is_empty() {
                    let i = rng.below(module.compu_method.len());
                    let mut names: Vec<String> = module
                        .compu_method
                        .iter()
                        .map(|m| m.get_name().to_string())
                        .collect();
                    let nn = unique(rng, &mut names);
                    module.compu_method.rename_item(i, &nn);
                    rec.bump("edit.rename_compu_method");
                    done = true;
                }
            }
            4 => {
                let mut used: Vec<String> = module.group.iter().map(|m| m.get_name().to_string()).collect();
                let name = unique(rng, &mut used);
                let mut g = Group::new(name, text(rng));
                g.root = Some(Root::new());
                module.group.push(g);
                rec.bump("edit.push_group");
                done = true;
            }
            5 => {
                if let Some(mp) = &mut module.mod_par {
                    mp.comment = text(rng);
                    mp.system_constant.push(SystemConstant::new(text(rng), text(rng)));
                    rec.bump("edit.mod_par");
                    done = true;
                }
            }
            6 => {
                if !module.measurement.is_empty() {
                    let i = rng.below(module.measurement.len());
                    module.measurement[i].ecu_address = Some(EcuAddress::new(rng.next_u64() as u32));
                    module.measurement[i].annotation.push(annotation(rng));
                    rec.bump("edit.add_child_to_measurement");
                    done = true;
                }
            }
            7 => {
                // assign negative values to signed integer fields (which may carry a hex notation flag)
                let neg16 = *rng.pick(&[-1i16, -2, -128, i16::MIN]);
                let neg32 = *rng.pick(&[-1i32, -5, i32::MIN]);
                for m in module.measurement.iter_mut() {
                    if let Some(x) = &mut m.ecu_address_extension {
                        x.extension = neg16;
                        done = true;
                    }
                    if let Some(x) = &mut m.symbol_link {
                        x.offset = neg32;
                        done = true;
                    }
                }
                for c in module.characteristic.iter_mut() {
                    if let Some(x) = &mut c.ecu_address_extension {
                        x.extension = neg16;
                        done = true;
                    }
                    for ad in &mut c.axis_descr {
                        if let Some(f) = &mut ad.fix_axis_par {
                            f.offset = neg16;
                            f.shift = -1;
                            done = true;
                        }
                        if let Some(f) = &mut ad.fix_axis_par_dist {
                            f.offset = neg16;
                            done = true;
                        }
                    }
                }
                if let Some(mp) = &mut module.mod_par {
                    if let Some(x) = &mut mp.ecu_calibration_offset {
                        x.offset = neg32;
                        done = true;
                    }
                    for ms in mp.memory_segment.iter_mut() {
                        ms.offset = [neg32, -1, 0, 1, neg32];
                        done = true;
                    }
                    for cm in mp.calibration_method.iter_mut() {
                        for h in cm.calibration_handle.iter_mut() {
                            for v in h.handle_list.iter_mut() {
                                *v = neg32;
                                done = true;
                            }
                        }
                    }
                }
                for u in module.unit.iter_mut() {
                    if let Some(x) = &mut u.si_exponents {
                        x.length = neg16;
                        x.time = -3;
                        done = true;
                    }
                }
                rec.bump("edit.negative_values_in_signed_fields");
            }
            _ => {
                a2l.project.long_identifier = text(rng);
                rec.bump("edit.project_field");
                done = true;
            }
        }
    }
    done
}
