//! G-mod: semantically consistent modules built through the public API (C08-C12, C14, C15).
//! Every module-level element carries a unique marker ("mk<N>" in its long identifier, or in a
//! numeric field for kinds without a string) so that monitors can identify it independently of
//! its name.

use a2lfile::*;
use vcommon::rng::Rng;

#[derive(Clone, Debug)]
pub struct ModCfg {
    /// scale: number of objects per kind etc.
    pub size: usize,
    /// name suffix universe: names are `<prefix>_<i>` with i < universe
    pub universe: usize,
    /// probability (percent) of optional reference sites being populated
    pub ref_pct: u32,
    /// REF_UNIT / SUB_FUNCTION chains and cycles
    pub cycles: bool,
    /// use typedefs / instances / variant coding / transformers (version 1.70+)
    pub full: bool,
    /// first marker value
    pub marker_base: u32,
    /// prefix of all generated names (to make two modules disjoint)
    pub prefix: String,
    /// also generate names of the form X.MERGE next to X (pre-existing merge names)
    pub merge_names: bool,
}

impl Default for ModCfg {
    fn default() -> Self {
        ModCfg {
            size: 4,
            universe: 12,
            ref_pct: 70,
            cycles: true,
            full: true,
            marker_base: 1,
            prefix: String::new(),
            merge_names: false,
        }
    }
}

pub struct Gen<'r> {
    pub rng: &'r mut Rng,
    pub cfg: ModCfg,
    pub next_marker: u32,
}

thread_local! {
    static NAME_PREFIX: std::cell::RefCell<String> = const { std::cell::RefCell::new(String::new()) };
    static MERGE_NAMES: std::cell::Cell<bool> = const { std::cell::Cell::new(false) };
}

fn pick_names(rng: &mut Rng, prefix: &str, universe: usize, n: usize) -> Vec<String> {
    let global = NAME_PREFIX.with(|p| p.borrow().clone());
    let prefix = &format!("{global}{prefix}");
    let mut idx: Vec<usize> = (0..universe).collect();
    rng.shuffle(&mut idx);
    idx.truncate(n.min(universe));
    let mut names: Vec<String> = idx.iter().map(|i| format!("{prefix}_{i}")).collect();
    if MERGE_NAMES.with(|m| m.get()) {
        // some names get a sibling X.MERGE (and X.MERGE2)
        let mut extra: Vec<String> = Vec::new();
        for n in &names {
            if rng.chance(1, 5) {
                extra.push(if rng.chance(1, 4) { format!("{n}.MERGE2") } else { format!("{n}.MERGE") });
            }
        }
        names.extend(extra);
    }
    names
}

impl<'r> Gen<'r> {
    pub fn new(rng: &'r mut Rng, cfg: ModCfg) -> Self {
        let nm = cfg.marker_base;
        Gen {
            rng,
            cfg,
            next_marker: nm,
        }
    }

    fn mk(&mut self) -> u32 {
        let m = self.next_marker;
        self.next_marker += 1;
        m
    }

    fn mk_text(&mut self) -> String {
        let m = self.mk();
        format!("mk{m} text {}", self.rng.below(1000))
    }

    fn want(&mut self) -> bool {
        let p = self.cfg.ref_pct;
        self.rng.chance(p, 100)
    }

    fn pick(&mut self, list: &[String]) -> Option<String> {
        if list.is_empty() {
            None
        } else {
            Some(list[self.rng.below(list.len())].clone())
        }
    }

    /// like pick_some, but a list may name the same object more than once (legal in lists of
    /// measuring channels, dependent characteristics, map lists, frame measurements, ...)
    fn pick_some_rep(&mut self, list: &[String], max: usize) -> Vec<String> {
        let mut out = self.pick_some(list, max);
        if !out.is_empty() && self.rng.chance(1, 3) {
            let again = out[self.rng.below(out.len())].clone();
            let at = self.rng.below(out.len() + 1);
            out.insert(at, again);
            if self.rng.chance(1, 3) {
                let again = out[0].clone();
                out.push(again);
            }
        }
        out
    }

    fn pick_some(&mut self, list: &[String], max: usize) -> Vec<String> {
        let mut out: Vec<String> = Vec::new();
        if list.is_empty() {
            return out;
        }
        let n = self.rng.urange(1, max.max(1));
        for _ in 0..n {
            let c = list[self.rng.below(list.len())].clone();
            if !out.contains(&c) {
                out.push(c);
            }
        }
        out
    }

    /// a fully consistent module (all references resolve, check() reports nothing)
    pub fn module(&mut self, module_name: &str) -> Module {
        let mut m = Module::new(module_name.to_string(), String::new());
        NAME_PREFIX.with(|p| *p.borrow_mut() = self.cfg.prefix.clone());
        MERGE_NAMES.with(|m| m.set(self.cfg.merge_names));
        let sz = self.cfg.size;
        let uni = self.cfg.universe;
        let n = |g: &mut Gen, base: usize| -> usize { g.rng.urange(base.min(1), base.max(1)) };

        // ---- names per namespace
        let units = { let cnt = n(self, sz); pick_names(self.rng, "u", uni, cnt) };
        let tabs = { let cnt = n(self, sz + 2); pick_names(self.rng, "tab", uni, cnt) };
        let cms = { let cnt = n(self, sz + 1); pick_names(self.rng, "cm", uni, cnt) };
        let rls = { let cnt = n(self, sz); pick_names(self.rng, "rl", uni, cnt) };
        let segs = { let cnt = n(self, 2); pick_names(self.rng, "seg", uni, cnt) };
        let objs = { let cnt = n(self, sz * 4).max(6); pick_names(self.rng, "o", uni * 2, cnt) };
        let tds = { let cnt = if self.cfg.full { n(self, sz).max(5) } else { 0 }; pick_names(self.rng, "td", uni, cnt) };
        let funcs = { let cnt = n(self, sz); pick_names(self.rng, "f", uni, cnt) };
        let grps = { let cnt = n(self, sz); pick_names(self.rng, "g", uni, cnt) };
        let trfs = { let cnt = if self.cfg.full { n(self, 2) } else { 0 }; pick_names(self.rng, "trf", uni, cnt) };
        let frames = { let cnt = n(self, 2); pick_names(self.rng, "fr", uni, cnt) };
        let crits = { let cnt = if self.cfg.full { n(self, 2) } else { 0 }; pick_names(self.rng, "crit", uni, cnt) };
        let urs = { let cnt = n(self, 2); pick_names(self.rng, "ur", uni, cnt) };

        // split the object names over the five kinds (at least one measurement, characteristic, axis_pts)
        let mut meas: Vec<String> = Vec::new();
        let mut chars: Vec<String> = Vec::new();
        let mut axes: Vec<String> = Vec::new();
        let mut blobs: Vec<String> = Vec::new();
        let mut insts: Vec<String> = Vec::new();
        for (i, o) in objs.iter().enumerate() {
            match i {
                0 => meas.push(o.clone()),
                1 => chars.push(o.clone()),
                2 => axes.push(o.clone()),
                _ => match self.rng.below(if self.cfg.full { 10 } else { 8 }) {
                    0..=2 => meas.push(o.clone()),
                    3..=5 => chars.push(o.clone()),
                    6 | 7 => axes.push(o.clone()),
                    8 => blobs.push(o.clone()),
                    _ => insts.push(o.clone()),
                },
            }
        }
        // reference targets: the checker and the grammar know one object namespace, so a reference
        // that usually names a MEASUREMENT (or CHARACTERISTIC) may name any object; one module in
        // three draws these targets from the whole namespace
        let mix_kinds = self.rng.chance(1, 3);
        let meas_t: Vec<String> = if mix_kinds { objs.clone() } else { meas.clone() };
        let chars_t: Vec<String> = if mix_kinds { objs.clone() } else { chars.clone() };
        // typedef kinds
        let mut td_axis = Vec::new();
        let mut td_blob = Vec::new();
        let mut td_char = Vec::new();
        let mut td_meas = Vec::new();
        let mut td_struct = Vec::new();
        for (i, t) in tds.iter().enumerate() {
            match i % 5 {
                0 => td_meas.push(t.clone()),
                1 => td_char.push(t.clone()),
                2 => td_struct.push(t.clone()),
                3 => td_axis.push(t.clone()),
                _ => td_blob.push(t.clone()),
            }
        }

        // ---- UNIT
        // direction of the REF_UNIT chains: to the next unit of the file, to the previous one (the
        // chain then runs against the file order, every unit chained), or to a random other one
        let unit_ref_mode = self.rng.below(3);
        for (i, name) in units.iter().enumerate() {
            let mut u = Unit::new(name.clone(), self.mk_text(), "unit".into(), UnitType::Derived);
            let chain_start = unit_ref_mode == 1 && i == 0 && self.rng.coin();
            if self.cfg.cycles && units.len() > 1 && !chain_start && (unit_ref_mode == 1 || self.want()) {
                // chains and cycles among units
                let t = match unit_ref_mode {
                    0 => units[(i + 1) % units.len()].clone(),
                    1 => units[(i + units.len() - 1) % units.len()].clone(),
                    _ => loop {
                        let k = self.rng.below(units.len());
                        if k != i {
                            break units[k].clone();
                        }
                    },
                };
                u.ref_unit = Some(RefUnit::new(t));
            }
            if self.rng.coin() {
                u.si_exponents = Some(SiExponents::new(1, 0, -1, 0, 0, 0, 0));
            }
            m.unit.push(u);
        }
        // ---- conversion tables (three kinds in one namespace)
        let mut vtabs: Vec<String> = Vec::new();
        for (i, name) in tabs.iter().enumerate() {
            match i % 3 {
                0 => {
                    let mut t = CompuVtab::new(name.clone(), self.mk_text(), ConversionType::TabVerb, 2);
                    t.value_pairs.push(ValuePairsStruct::new(0.0, "off".into()));
                    t.value_pairs.push(ValuePairsStruct::new(1.0, format!("on{}", self.rng.below(9))));
                    vtabs.push(name.clone());
                    m.compu_vtab.push(t);
                }
                1 => {
                    let mut t = CompuTab::new(name.clone(), self.mk_text(), ConversionType::TabIntp, 2);
                    t.tab_entry.push(TabEntryStruct::new(0.0, 0.0));
                    t.tab_entry.push(TabEntryStruct::new(10.0, self.rng.below(100) as f64));
                    m.compu_tab.push(t);
                }
                _ => {
                    let mut t = CompuVtabRange::new(name.clone(), self.mk_text(), 1);
                    t.value_triples.push(ValueTriplesStruct::new(0.0, 5.0, "low".into()));
                    m.compu_vtab_range.push(t);
                }
            }
        }
        // ---- COMPU_METHOD
        for name in &cms {
            let choice = self.rng.below(5);
            let ct = match choice {
                0 => ConversionType::Identical,
                1 => ConversionType::Linear,
                2 => ConversionType::TabVerb,
                3 => ConversionType::Form,
                _ => ConversionType::RatFunc,
            };
            // the unit text of a COMPU_METHOD is free text; it is often the name of a UNIT
            let unit_text = if self.rng.chance(1, 3) && !units.is_empty() {
                units[self.rng.below(units.len())].clone()
            } else {
                "unit".to_string()
            };
            let mut cm = CompuMethod::new(name.clone(), self.mk_text(), ct, "%6.2".into(), unit_text);
            match choice {
                1 => cm.coeffs_linear = Some(CoeffsLinear::new(2.0, 1.0)),
                2 => {
                    if let Some(t) = self.pick(&tabs) {
                        cm.compu_tab_ref = Some(CompuTabRef::new(t));
                    }
                }
                3 => cm.formula = Some(Formula::new("X1+1".into())),
                4 => cm.coeffs = Some(Coeffs::new(0.0, 2.0, 1.0, 0.0, 0.0, 1.0)),
                _ => {}
            }
            if self.want() {
                // the target namespace of STATUS_STRING_REF are the conversion tables (all three kinds)
                if let Some(t) = self.pick(&tabs) {
                    cm.status_string_ref = Some(StatusStringRef::new(t));
                }
            }
            if self.want() {
                if let Some(u) = self.pick(&units) {
                    cm.ref_unit = Some(RefUnit::new(u));
                }
            }
            m.compu_method.push(cm);
        }
        // ---- RECORD_LAYOUT (marker in ALIGNMENT_BYTE)
        for name in &rls {
            let mut rl = RecordLayout::new(name.clone());
            let mk = self.mk();
            rl.alignment_byte = Some(AlignmentByte::new(mk as u16));
            rl.fnc_values = Some(FncValues::new(1, DataType::Uword, IndexMode::RowDir, AddrType::Direct));
            rl.axis_pts_x = Some(AxisPtsDim::new(2, DataType::Uword, IndexOrder::IndexIncr, AddrType::Direct));
            rl.axis_pts_y = Some(AxisPtsDim::new(3, DataType::Uword, IndexOrder::IndexIncr, AddrType::Direct));
            rl.no_axis_pts_x = Some(NoAxisPtsDim::new(4, DataType::Uword));
            m.record_layout.push(rl);
        }
        // ---- MOD_PAR / MEMORY_SEGMENT
        {
            let mut mp = ModPar::new("mod par".into());
            for name in &segs {
                let ms = MemorySegment::new(
                    name.clone(),
                    self.mk_text(),
                    PrgType::Data,
                    MemoryType::Ram,
                    MemoryAttribute::Intern,
                    0x1000,
                    0x100,
                    [-1, -1, -1, -1, -1],
                );
                mp.memory_segment.push(ms);
            }
            let mk = self.mk();
            mp.system_constant
                .push(SystemConstant::new(format!("sc_{}", self.rng.below(self.cfg.universe)), format!("mk{mk}")));
            m.mod_par = Some(mp);
        }
        // helper closures for common reference choices
        let cm_or_none = |g: &mut Gen| -> String {
            if g.want() {
                g.pick(&cms).unwrap_or_else(|| "NO_COMPU_METHOD".into())
            } else {
                "NO_COMPU_METHOD".into()
            }
        };
        let iq_or_none = |g: &mut Gen| -> String {
            if g.want() {
                g.pick(&meas).unwrap_or_else(|| "NO_INPUT_QUANTITY".into())
            } else {
                "NO_INPUT_QUANTITY".into()
            }
        };
        // ---- MEASUREMENT
        for name in &meas {
            let conv = cm_or_none(self);
            let mut x = Measurement::new(name.clone(), self.mk_text(), DataType::Uword, conv, 1, 0.0, 10.0, 100.0);
            x.ecu_address = Some(EcuAddress::new(self.rng.below(0xFFFF) as u32));
            if self.want() {
                let l = self.pick_some(&funcs, 2);
                if !l.is_empty() {
                    let mut fl = FunctionList::new();
                    fl.name_list = l;
                    x.function_list = Some(fl);
                }
            }
            if self.want() {
                if let Some(s) = self.pick(&segs) {
                    x.ref_memory_segment = Some(RefMemorySegment::new(s));
                }
            }
            if self.want() {
                let l = self.pick_some_rep(&meas_t, 2);
                let mut v = Virtual::new();
                v.measuring_channel_list = l;
                x.var_virtual = Some(v);
            }
            m.measurement.push(x);
        }
        // ---- AXIS_PTS
        for name in &axes {
            let iq = iq_or_none(self);
            let rl = self.pick(&rls).unwrap();
            let conv = cm_or_none(self);
            let mut x = AxisPts::new(name.clone(), self.mk_text(), 0x2000, iq, rl, 0.0, conv, 8, 10.0, 100.0);
            if self.want() {
                let l = self.pick_some(&funcs, 2);
                if !l.is_empty() {
                    let mut fl = FunctionList::new();
                    fl.name_list = l;
                    x.function_list = Some(fl);
                }
            }
            if self.want() {
                if let Some(s) = self.pick(&segs) {
                    x.ref_memory_segment = Some(RefMemorySegment::new(s));
                }
            }
            m.axis_pts.push(x);
        }
        // ---- CHARACTERISTIC
        let curve_names: Vec<String> = chars.iter().take(1).cloned().collect(); // first one is always a CURVE
        for (ci, name) in chars.iter().enumerate() {
            let ctype = if ci == 0 {
                CharacteristicType::Curve
            } else {
                *self.rng.pick(&[
                    CharacteristicType::Value,
                    CharacteristicType::Value,
                    CharacteristicType::Curve,
                    CharacteristicType::Map,
                    CharacteristicType::ValBlk,
                ])
            };
            let rl = self.pick(&rls).unwrap();
            let conv = cm_or_none(self);
            let mut x = Characteristic::new(name.clone(), self.mk_text(), ctype, 0x3000, rl, 0.0, conv, 10.0, 100.0);
            let n_axes = match ctype {
                CharacteristicType::Curve => 1,
                CharacteristicType::Map => 2,
                _ => 0,
            };
            for _ in 0..n_axes {
                x.axis_descr.push(self.axis_descr(&cms, &meas_t, &axes, &curve_names, ci != 0, None));
            }
            if self.want() {
                if let Some(t) = self.pick(&meas_t) {
                    x.comparison_quantity = Some(ComparisonQuantity::new(t));
                }
            }
            if self.want() {
                let mut d = DependentCharacteristic::new("X1".into());
                d.characteristic_list = self.pick_some_rep(&chars_t, 2);
                x.dependent_characteristic = Some(d);
            } else if self.want() {
                let mut d = VirtualCharacteristic::new("X1".into());
                d.characteristic_list = self.pick_some_rep(&chars_t, 2);
                x.virtual_characteristic = Some(d);
            }
            if self.want() {
                let mut ml = MapList::new();
                ml.name_list = self.pick_some_rep(&chars_t, 2);
                x.map_list = Some(ml);
            }
            if self.want() {
                let l = self.pick_some(&funcs, 2);
                if !l.is_empty() {
                    let mut fl = FunctionList::new();
                    fl.name_list = l;
                    x.function_list = Some(fl);
                }
            }
            if self.want() {
                if let Some(s) = self.pick(&segs) {
                    x.ref_memory_segment = Some(RefMemorySegment::new(s));
                }
            }
            m.characteristic.push(x);
        }
        // ---- BLOB
        for name in &blobs {
            m.blob.push(Blob::new(name.clone(), self.mk_text(), 0x4000, 16));
        }
        // ---- typedefs
        for name in &td_meas {
            let conv = cm_or_none(self);
            m.typedef_measurement.push(TypedefMeasurement::new(
                name.clone(),
                self.mk_text(),
                DataType::Uword,
                conv,
                1,
                0.0,
                10.0,
                100.0,
            ));
        }
        for name in &td_blob {
            m.typedef_blob.push(TypedefBlob::new(name.clone(), self.mk_text(), 8));
        }
        for name in &td_axis {
            let iq = iq_or_none(self);
            let rl = self.pick(&rls).unwrap();
            let conv = cm_or_none(self);
            m.typedef_axis
                .push(TypedefAxis::new(name.clone(), self.mk_text(), iq, rl, 0.0, conv, 8, 10.0, 100.0));
        }
        // component names of structures: each structure has components named c0.. referring to typedefs
        let comp_names = ["c0", "c1", "c2"];
        for name in &td_char {
            let rl = self.pick(&rls).unwrap();
            let conv = cm_or_none(self);
            let mut x = TypedefCharacteristic::new(
                name.clone(),
                self.mk_text(),
                CharacteristicType::Curve,
                rl,
                0.0,
                conv,
                10.0,
                100.0,
            );
            // THIS. is legal only for typedef characteristics that are structure components and not
            // the type of an INSTANCE; those are exactly the ones generated here as components
            let this_ref = if self.rng.coin() {
                Some(format!("THIS.{}", comp_names[0]))
            } else {
                None
            };
            x.axis_descr
                .push(self.axis_descr(&cms, &meas_t, &axes, &curve_names, true, this_ref));
            m.typedef_characteristic.push(x);
        }
        for name in &td_struct {
            let mut x = TypedefStructure::new(name.clone(), self.mk_text(), 64);
            // component c0 -> a typedef measurement / axis, c1 -> the typedef characteristics
            let mut k = 0;
            let firsts: Vec<String> = td_meas.iter().chain(td_axis.iter()).cloned().collect();
            if let Some(t) = self.pick(&firsts) {
                x.structure_component
                    .push(StructureComponent::new(comp_names[k].into(), t, 0));
                k += 1;
            }
            for t in &td_char {
                if k < comp_names.len() {
                    x.structure_component
                        .push(StructureComponent::new(comp_names[k].into(), t.clone(), (k * 8) as u32));
                    k += 1;
                }
            }
            m.typedef_structure.push(x);
        }
        // two more TYPEDEF_CHARACTERISTICs without THIS. references: one that nothing uses, and one
        // that is a structure component and the type of an INSTANCE at the same time
        let mut dual_td: Option<String> = None;
        // (names of the generator's form <prefix>_<number>, numbers beyond the universe)
        let extra_base: Option<(String, usize)> = td_char
            .iter()
            .find(|n| !n.contains('.'))
            .and_then(|n| n.rsplit_once('_'))
            .and_then(|(p, k)| k.parse::<usize>().ok().map(|k| (p.to_string(), k)));
        if let (true, Some((td_prefix, td_num)), true) = (self.cfg.full, extra_base.clone(), self.rng.coin()) {
            for (offset, dual) in [(1000usize, false), (2000, true)] {
                let name = format!("{td_prefix}_{}", offset + td_num);
                let rl = self.pick(&rls).unwrap();
                let conv = cm_or_none(self);
                let mut x = TypedefCharacteristic::new(name.clone(), self.mk_text(), CharacteristicType::Curve, rl, 0.0, conv, 10.0, 100.0);
                x.axis_descr.push(self.axis_descr(&cms, &meas_t, &axes, &curve_names, true, None));
                m.typedef_characteristic.push(x);
                if dual {
                    if let Some(st) = m.typedef_structure.iter_mut().next() {
                        st.structure_component.push(StructureComponent::new("cd".into(), name.clone(), 48));
                        dual_td = Some(name);
                    }
                }
            }
        }
        // ---- INSTANCE (never of a TYPEDEF_CHARACTERISTIC that uses THIS.: use structures / measurements)
        let inst_types: Vec<String> = td_struct.iter().chain(td_meas.iter()).chain(td_blob.iter()).cloned().collect();
        for name in &insts {
            let Some(t) = self.pick(&inst_types) else { continue };
            let mut x = Instance::new(name.clone(), self.mk_text(), t, 0x5000);
            if self.want() {
                let mut ow = Overwrite::new("c0".into(), 0);
                if let Some(c) = self.pick(&cms) {
                    ow.conversion = Some(Conversion::new(c));
                }
                if let Some(q) = self.pick(&meas_t) {
                    ow.input_quantity = Some(InputQuantity::new(q));
                }
                x.overwrite.push(ow);
            }
            m.instance.push(x);
        }
        if let (Some(t), Some((td_prefix, td_num))) = (dual_td, extra_base) {
            // an object name: same module prefix, object prefix
            let name = format!("{}o_{}", td_prefix.strip_suffix("td").unwrap_or(""), 3000 + td_num);
            m.instance.push(Instance::new(name, self.mk_text(), t, 0x7000));
        }
        // names live in separate namespaces: an INSTANCE may be called like a TYPEDEF_CHARACTERISTIC
        // (of which it is not an instance)
        if self.rng.chance(1, 5) && !td_char.is_empty() {
            let other_types: Vec<String> = td_meas.iter().chain(td_blob.iter()).cloned().collect();
            if let Some(t) = self.pick(&other_types) {
                let name = td_char[self.rng.below(td_char.len())].clone();
                if !m.instance.contains_key(&name) {
                    m.instance.push(Instance::new(name, self.mk_text(), t, 0x6000));
                }
            }
        }
        // REF_CHARACTERISTIC / DEF_CHARACTERISTIC name adjustable objects: CHARACTERISTICs and AXIS_PTS
        let adjustables: Vec<String> = chars.iter().chain(axes.iter()).cloned().collect();
        // ---- FUNCTION
        for (i, name) in funcs.iter().enumerate() {
            let mut x = Function::new(name.clone(), self.mk_text());
            if self.want() {
                let mut l = DefCharacteristic::new();
                l.identifier_list = if self.rng.coin() { self.pick_some(&chars_t, 3) } else { self.pick_some(&adjustables, 3) };
                x.def_characteristic = Some(l);
            }
            if self.want() {
                let mut l = RefCharacteristic::new();
                l.identifier_list = match self.rng.below(3) {
                    0 => self.pick_some(&chars_t, 3),
                    1 => self.pick_some(&adjustables, 3),
                    _ => self.pick_some(&axes, 2),
                };
                x.ref_characteristic = Some(l);
            }
            if self.want() {
                let mut l = InMeasurement::new();
                l.identifier_list = self.pick_some(&meas_t, 3);
                x.in_measurement = Some(l);
            }
            if self.want() {
                let mut l = LocMeasurement::new();
                l.identifier_list = self.pick_some(&meas_t, 3);
                x.loc_measurement = Some(l);
            }
            if self.want() {
                let mut l = OutMeasurement::new();
                l.identifier_list = self.pick_some(&meas_t, 3);
                x.out_measurement = Some(l);
            }
            if self.cfg.cycles && self.want() && funcs.len() > 1 {
                let mut l = SubFunction::new();
                l.identifier_list = vec![funcs[(i + 1) % funcs.len()].clone()];
                x.sub_function = Some(l);
            }
            m.function.push(x);
        }
        // ---- GROUP: a forest, every non-root group has exactly one parent
        let mut children: Vec<Vec<String>> = vec![Vec::new(); grps.len()];
        let mut is_root = vec![true; grps.len()];
        for i in 1..grps.len() {
            if self.rng.coin() {
                let parent = self.rng.below(i);
                children[parent].push(grps[i].clone());
                is_root[i] = false;
            }
        }
        for (i, name) in grps.iter().enumerate() {
            let mut x = Group::new(name.clone(), self.mk_text());
            if is_root[i] {
                x.root = Some(Root::new());
            }
            if !children[i].is_empty() {
                let mut l = SubGroup::new();
                l.identifier_list = children[i].clone();
                x.sub_group = Some(l);
            }
            if self.want() {
                let mut l = RefCharacteristic::new();
                l.identifier_list = match self.rng.below(3) {
                    0 => self.pick_some(&chars_t, 3),
                    1 => self.pick_some(&adjustables, 3),
                    _ => self.pick_some(&axes, 2),
                };
                x.ref_characteristic = Some(l);
            }
            if self.want() {
                let mut l = RefMeasurement::new();
                l.identifier_list = self.pick_some(&meas_t, 3);
                x.ref_measurement = Some(l);
            }
            if self.want() {
                let l = self.pick_some(&funcs, 2);
                if !l.is_empty() {
                    let mut fl = FunctionList::new();
                    fl.name_list = l;
                    x.function_list = Some(fl);
                }
            }
            m.group.push(x);
        }
        // ---- FRAME
        for name in &frames {
            let mut x = Frame::new(name.clone(), self.mk_text(), 1, 10);
            if self.want() {
                let mut l = FrameMeasurement::new();
                l.identifier_list = self.pick_some_rep(&meas_t, 3);
                x.frame_measurement = Some(l);
            }
            m.frame.push(x);
        }
        // ---- TRANSFORMER
        for (i, name) in trfs.iter().enumerate() {
            let inv = if trfs.len() > 1 && self.want() {
                trfs[(i + 1) % trfs.len()].clone()
            } else {
                "NO_INVERSE_TRANSFORMER".into()
            };
            let mk = self.mk();
            let mut x = Transformer::new(
                name.clone(),
                format!("mk{mk}"),
                "t32.dll".into(),
                "t64.dll".into(),
                100,
                TransformerTrigger::OnChange,
                inv,
            );
            if self.want() {
                // any object kind can be the input / output of a transformer
                let mut l = TransformerInObjects::new();
                l.identifier_list = if self.rng.coin() { self.pick_some(&objs, 3) } else { self.pick_some(&chars_t, 2) };
                x.transformer_in_objects = Some(l);
            }
            if self.want() {
                let mut l = TransformerOutObjects::new();
                l.identifier_list = if self.rng.coin() { self.pick_some(&objs, 3) } else { self.pick_some(&chars_t, 2) };
                x.transformer_out_objects = Some(l);
            }
            m.transformer.push(x);
        }
        // ---- USER_RIGHTS
        for name in &urs {
            let mut x = UserRights::new(name.clone());
            if self.want() && !grps.is_empty() {
                let mut rg = RefGroup::new();
                rg.identifier_list = self.pick_some(&grps, 2);
                x.ref_group.push(rg);
            }
            m.user_rights.push(x);
        }
        // ---- MOD_COMMON with S_REC_LAYOUT
        {
            let mut mc = ModCommon::new("mod common".into());
            mc.byte_order = Some(ByteOrder::new(ByteOrderEnum::MsbLast));
            if self.want() {
                if let Some(r) = self.pick(&rls) {
                    mc.s_rec_layout = Some(SRecLayout::new(r));
                }
            }
            m.mod_common = Some(mc);
        }
        // ---- VARIANT_CODING
        if self.cfg.full && !crits.is_empty() {
            let mut vc = VariantCoding::new();
            for name in &crits {
                let mut c = VarCriterion::new(name.clone(), self.mk_text());
                c.value_list = vec!["v1".into(), "v2".into()];
                if self.want() {
                    if let Some(t) = self.pick(&meas_t) {
                        c.var_measurement = Some(VarMeasurement::new(t));
                    }
                }
                if self.want() {
                    if let Some(t) = self.pick(&chars_t) {
                        c.var_selection_characteristic = Some(VarSelectionCharacteristic::new(t));
                    }
                }
                vc.var_criterion.push(c);
            }
            for _ in 0..self.rng.urange(1, 2) {
                if let Some(t) = self.pick(&chars_t) {
                    let mut c = VarCharacteristic::new(t);
                    c.criterion_name_list = self.pick_some(&crits, 2);
                    vc.var_characteristic.push(c);
                }
            }
            if self.want() {
                let mut fc = VarForbiddenComb::new();
                if let Some(c) = self.pick(&crits) {
                    fc.combination.push(CombinationStruct::new(c, "v1".into()));
                }
                vc.var_forbidden_comb.push(fc);
            }
            m.variant_coding = Some(vc);
        }
        m
    }

    #[allow(clippy::too_many_arguments)]
    fn axis_descr(
        &mut self,
        cms: &[String],
        meas: &[String],
        axes: &[String],
        curves: &[String],
        allow_curve_axis: bool,
        this_ref: Option<String>,
    ) -> AxisDescr {
        let iq = if self.want() {
            self.pick(meas).unwrap_or_else(|| "NO_INPUT_QUANTITY".into())
        } else {
            "NO_INPUT_QUANTITY".into()
        };
        let conv = if self.want() {
            self.pick(cms).unwrap_or_else(|| "NO_COMPU_METHOD".into())
        } else {
            "NO_COMPU_METHOD".into()
        };
        let choice = if this_ref.is_some() { 1 } else { self.rng.below(5) };
        let attr = match choice {
            0 => AxisDescrAttribute::StdAxis,
            1 => AxisDescrAttribute::ComAxis,
            2 => AxisDescrAttribute::FixAxis,
            3 => AxisDescrAttribute::ResAxis,
            _ => {
                if allow_curve_axis && !curves.is_empty() {
                    AxisDescrAttribute::CurveAxis
                } else {
                    AxisDescrAttribute::FixAxis
                }
            }
        };
        let mut ad = AxisDescr::new(attr, iq, conv, 8, 10.0, 100.0);
        match attr {
            AxisDescrAttribute::ComAxis | AxisDescrAttribute::ResAxis => {
                let t = this_ref.unwrap_or_else(|| axes[self.rng.below(axes.len())].clone());
                ad.axis_pts_ref = Some(AxisPtsRef::new(t));
            }
            AxisDescrAttribute::CurveAxis => {
                ad.curve_axis_ref = Some(CurveAxisRef::new(curves[0].clone()));
            }
            AxisDescrAttribute::FixAxis => {
                ad.fix_axis_par = Some(FixAxisPar::new(0, 1, 8));
            }
            _ => {}
        }
        ad
    }
}

pub fn wrap(module: Module) -> A2lFile {
    let mut f = a2lfile::new();
    f.project.module = ItemList::new();
    f.project.module.push(module);
    f
}

/// write and load again, so that the model carries realistic layout information (uids, lines)
pub fn as_loaded(f: &A2lFile) -> Result<A2lFile, String> {
    let text = f.write_to_string();
    a2lfile::load_from_string(&text, None, false)
        .map(|(a, _)| a)
        .map_err(|e| format!("generated module does not load: {e}"))
}
