//! helpers shared by the property monitors

pub fn reset_budget() {
    a2lfile::verif_hooks::reset(u64::MAX);
}

pub fn set_budget(b: u64) {
    a2lfile::verif_hooks::reset(b);
}
