//! C08 — merge conserves both inputs; C09 — merge preserves B's reference structure.
//! Both monitors share the pair generator (modules with controlled overlap).

use crate::modgen::{wrap, Gen, ModCfg};
use crate::refgraph::{edges, is_conventional, marker_from_text, rl_marker, Edge, Index, Ns};
use a2lfile::*;
use std::collections::{BTreeMap, HashMap, HashSet};
use vcommon::json::{clip, Json};
use vcommon::rng::Rng;
use vcommon::runtime::{guarded, run_cases, Args, Recorder};

/// is the string one of the generator's element names (possibly with .MERGE suffixes)?
fn is_universe_name(s: &str) -> bool {
    let mut base = s;
    while let Some(p) = base.rfind(".MERGE") {
        let tail = &base[p + 6..];
        if tail.chars().all(|c| c.is_ascii_digit()) {
            base = &base[..p];
        } else {
            break;
        }
    }
    // optional module prefix b<N>_
    let base = match base.strip_prefix('b') {
        Some(r) => {
            let digits: String = r.chars().take_while(|c| c.is_ascii_digit()).collect();
            if !digits.is_empty() && r[digits.len()..].starts_with('_') {
                &r[digits.len() + 1..]
            } else {
                base
            }
        }
        None => base,
    };
    let Some((pre, num)) = base.rsplit_once('_') else {
        return false;
    };
    matches!(pre, "o" | "cm" | "tab" | "td" | "u" | "rl" | "f" | "g" | "trf" | "seg" | "crit" | "fr" | "ur" | "sc")
        && !num.is_empty()
        && num.chars().all(|c| c.is_ascii_digit())
}

/// Debug text of an element with every generator name masked: content modulo names/references
fn fingerprint<T: std::fmt::Debug>(x: &T) -> String {
    let d = format!("{x:?}");
    let mut out = String::with_capacity(d.len());
    let mut rest = d.as_str();
    while let Some(p) = rest.find('"') {
        out.push_str(&rest[..p]);
        let after = &rest[p + 1..];
        // find the closing quote (Debug escapes inner quotes with a backslash)
        let mut end = None;
        let b = after.as_bytes();
        let mut i = 0;
        while i < b.len() {
            if b[i] == b'\\' {
                i += 2;
                continue;
            }
            if b[i] == b'"' {
                end = Some(i);
                break;
            }
            i += 1;
        }
        let Some(e) = end else {
            out.push_str(&rest[p..]);
            rest = "";
            break;
        };
        let inner = &after[..e];
        // free-text fields are content, not references, even if their text happens to be a name
        // (RefUnit { unit: .. } is a reference and stays masked)
        let free_text = ["unit: ", "display: ", "format: ", "long_identifier: "].iter().any(|f| out.ends_with(f))
            && !out.ends_with("RefUnit { unit: ");
        if !free_text && is_universe_name(inner) {
            out.push_str("\"<name>\"");
        } else {
            out.push('"');
            out.push_str(inner);
            out.push('"');
        }
        rest = &after[e + 1..];
    }
    out.push_str(rest);
    // the name index of nested ItemLists is keyed by names: mask the map order away
    out
}

#[derive(Clone, Debug)]
struct ElemInfo {
    kind: &'static str,
    ns: Option<Ns>,
    name: String,
    marker: u32,
    fp: String,
}

macro_rules! collect_list {
    ($out:expr, $list:expr, $kind:expr, $ns:expr, $mk:expr) => {
        for x in $list.iter() {
            $out.push(ElemInfo {
                kind: $kind,
                ns: $ns,
                name: x.get_name().to_string(),
                marker: $mk(x),
                fp: fingerprint(x),
            });
        }
    };
}

fn collect(m: &Module) -> Vec<ElemInfo> {
    let mut out = Vec::new();
    let li = |x: &dyn HasLongId| marker_from_text(x.long_id());
    collect_list!(out, m.axis_pts, "AXIS_PTS", Some(Ns::Obj), |x: &AxisPts| li(x));
    collect_list!(out, m.blob, "BLOB", Some(Ns::Obj), |x: &Blob| li(x));
    collect_list!(out, m.characteristic, "CHARACTERISTIC", Some(Ns::Obj), |x: &Characteristic| li(x));
    collect_list!(out, m.instance, "INSTANCE", Some(Ns::Obj), |x: &Instance| li(x));
    collect_list!(out, m.measurement, "MEASUREMENT", Some(Ns::Obj), |x: &Measurement| li(x));
    collect_list!(out, m.compu_method, "COMPU_METHOD", Some(Ns::Cm), |x: &CompuMethod| li(x));
    collect_list!(out, m.compu_tab, "COMPU_TAB", Some(Ns::Tab), |x: &CompuTab| li(x));
    collect_list!(out, m.compu_vtab, "COMPU_VTAB", Some(Ns::Tab), |x: &CompuVtab| li(x));
    collect_list!(out, m.compu_vtab_range, "COMPU_VTAB_RANGE", Some(Ns::Tab), |x: &CompuVtabRange| li(x));
    collect_list!(out, m.typedef_axis, "TYPEDEF_AXIS", Some(Ns::Td), |x: &TypedefAxis| li(x));
    collect_list!(out, m.typedef_blob, "TYPEDEF_BLOB", Some(Ns::Td), |x: &TypedefBlob| li(x));
    collect_list!(out, m.typedef_characteristic, "TYPEDEF_CHARACTERISTIC", Some(Ns::Td), |x: &TypedefCharacteristic| li(x));
    collect_list!(out, m.typedef_measurement, "TYPEDEF_MEASUREMENT", Some(Ns::Td), |x: &TypedefMeasurement| li(x));
    collect_list!(out, m.typedef_structure, "TYPEDEF_STRUCTURE", Some(Ns::Td), |x: &TypedefStructure| li(x));
    collect_list!(out, m.unit, "UNIT", Some(Ns::Unit), |x: &Unit| li(x));
    collect_list!(out, m.record_layout, "RECORD_LAYOUT", Some(Ns::Rl), |x: &RecordLayout| rl_marker(x));
    collect_list!(out, m.frame, "FRAME", None, |x: &Frame| li(x));
    collect_list!(out, m.transformer, "TRANSFORMER", Some(Ns::Trf), |x: &Transformer| marker_from_text(&x.version));
    collect_list!(out, m.function, "FUNCTION", Some(Ns::Func), |x: &Function| li(x));
    collect_list!(out, m.group, "GROUP", Some(Ns::Grp), |x: &Group| li(x));
    if let Some(mp) = &m.mod_par {
        collect_list!(out, mp.memory_segment, "MEMORY_SEGMENT", Some(Ns::Seg), |x: &MemorySegment| li(x));
    }
    out
}

trait HasLongId {
    fn long_id(&self) -> &str;
}
macro_rules! has_long_id {
    ($($t:ty),*) => { $(impl HasLongId for $t { fn long_id(&self) -> &str { &self.long_identifier } })* };
}
has_long_id!(
    AxisPts, Blob, Characteristic, Instance, Measurement, CompuMethod, CompuTab, CompuVtab, CompuVtabRange,
    TypedefAxis, TypedefBlob, TypedefCharacteristic, TypedefMeasurement, TypedefStructure, Unit, Frame,
    Function, Group, MemorySegment
);

/// namespace key used for uniqueness: kinds that share a namespace share the key
fn ns_key(e: &ElemInfo) -> String {
    match e.ns {
        Some(ns) => format!("{ns:?}"),
        None => e.kind.to_string(),
    }
}

pub struct Pair {
    pub a: A2lFile,
    pub b: A2lFile,
}

fn rename_to_merge_names(rng: &mut Rng, m: &mut Module) {
    // give a few elements names of the form X.MERGE / X.MERGE2 (X another universe name)
    macro_rules! maybe_rename {
        ($list:expr) => {
            if !$list.is_empty() && rng.chance(1, 3) {
                let i = rng.below($list.len());
                let base = $list[i].get_name().to_string();
                // strip the index and use a neighbouring universe name as X
                if let Some((pre, num)) = base.rsplit_once('_') {
                    if let Ok(n) = num.parse::<usize>() {
                        let x = format!("{pre}_{}", (n + rng.below(3)) % 12);
                        let new = if rng.coin() { format!("{x}.MERGE") } else { format!("{x}.MERGE2") };
                        if !$list.contains_key(&new) {
                            $list.rename_item(i, &new);
                        }
                    }
                }
            }
        };
    }
    // only leaf helper kinds are renamed in A (A need not be consistent)
    maybe_rename!(m.measurement);
    maybe_rename!(m.compu_method);
    maybe_rename!(m.unit);
    maybe_rename!(m.record_layout);
    maybe_rename!(m.compu_vtab);
    maybe_rename!(m.frame);
    maybe_rename!(m.typedef_measurement);
}

/// copy some elements of B verbatim into A (identical twins)
fn add_twins(rng: &mut Rng, a: &mut Module, b: &Module) {
    macro_rules! twin {
        ($la:expr, $lb:expr) => {
            for x in $lb.iter() {
                if rng.chance(1, 4) {
                    if let Some(i) = $la.index(x.get_name()) {
                        $la.swap_remove_idx(i);
                    }
                    $la.push(x.clone());
                }
            }
        };
    }
    twin!(a.unit, b.unit);
    twin!(a.compu_tab, b.compu_tab);
    twin!(a.compu_vtab, b.compu_vtab);
    twin!(a.compu_vtab_range, b.compu_vtab_range);
    twin!(a.compu_method, b.compu_method);
    twin!(a.record_layout, b.record_layout);
    twin!(a.measurement, b.measurement);
    twin!(a.characteristic, b.characteristic);
    twin!(a.axis_pts, b.axis_pts);
    twin!(a.blob, b.blob);
    twin!(a.instance, b.instance);
    twin!(a.typedef_measurement, b.typedef_measurement);
    twin!(a.typedef_structure, b.typedef_structure);
    twin!(a.typedef_characteristic, b.typedef_characteristic);
    twin!(a.typedef_axis, b.typedef_axis);
    twin!(a.typedef_blob, b.typedef_blob);
    twin!(a.frame, b.frame);
    twin!(a.transformer, b.transformer);
    twin!(a.function, b.function);
    twin!(a.group, b.group);
}

/// copy some elements of B into A and change exactly one scalar field ("near twins": same name,
/// content differing in a single value - they must be treated as different content)
fn add_near_twins(rng: &mut Rng, a: &mut Module, b: &Module) {
    macro_rules! near {
        ($la:expr, $lb:expr, $mutate:expr) => {
            for x in $lb.iter() {
                if rng.chance(1, 5) {
                    if let Some(i) = $la.index(x.get_name()) {
                        $la.swap_remove_idx(i);
                    }
                    let mut y = x.clone();
                    #[allow(clippy::redundant_closure_call)]
                    ($mutate)(&mut y, rng);
                    $la.push(y);
                }
            }
        };
    }
    near!(a.frame, b.frame, |y: &mut Frame, r: &mut Rng| if r.coin() { y.rate += 1 } else { y.scaling_unit += 1 });
    near!(a.measurement, b.measurement, |y: &mut Measurement, r: &mut Rng| match r.below(5) {
        0 if !y.annotation.is_empty() => {
            y.annotation.pop();
        }
        0 => y.resolution += 1,
        1 => y.accuracy += 0.5,
        2 => y.upper_limit += 1.0,
        3 => y.datatype = DataType::Slong,
        _ => y.ecu_address = None,
    });
    near!(a.characteristic, b.characteristic, |y: &mut Characteristic, r: &mut Rng| match r.below(3) {
        0 => y.address += 4,
        1 => y.max_diff += 1.0,
        _ => y.lower_limit -= 1.0,
    });
    near!(a.axis_pts, b.axis_pts, |y: &mut AxisPts, r: &mut Rng| if r.coin() { y.address += 4 } else { y.max_axis_points += 1 });
    near!(a.blob, b.blob, |y: &mut Blob, r: &mut Rng| if r.coin() { y.size += 1 } else { y.start_address += 1 });
    // A's variant may also differ only in a nested list (one member fewer than B's, or one more)
    near!(a.instance, b.instance, |y: &mut Instance, r: &mut Rng| {
        let n = y.overwrite.len();
        if n > 0 && r.coin() {
            y.overwrite.swap_remove_idx(n - 1);
        } else if r.coin() {
            y.overwrite.push(Overwrite::new(format!("ow_extra_{}", r.below(1000)), 1));
        } else {
            y.start_address += 8;
        }
    });
    near!(a.compu_method, b.compu_method, |y: &mut CompuMethod, r: &mut Rng| match r.below(3) {
        0 => y.format.push('1'),
        1 => y.unit.push('x'),
        _ => y.conversion_type = ConversionType::TabNointp,
    });
    near!(a.compu_tab, b.compu_tab, |y: &mut CompuTab, _r: &mut Rng| y.tab_entry.push(TabEntryStruct::new(99.0, 99.0)));
    near!(a.compu_vtab, b.compu_vtab, |y: &mut CompuVtab, r: &mut Rng| if !y.value_pairs.is_empty() && r.coin() {
        y.value_pairs.pop();
    } else {
        y.number_value_pairs += 1;
    });
    near!(a.compu_vtab_range, b.compu_vtab_range, |y: &mut CompuVtabRange, _r: &mut Rng| y.number_value_triples += 1);
    near!(a.unit, b.unit, |y: &mut Unit, r: &mut Rng| if r.coin() { y.display.push('2') } else { y.unit_type = UnitType::ExtendedSi });
    near!(a.record_layout, b.record_layout, |y: &mut RecordLayout, r: &mut Rng| if r.coin() {
        y.no_axis_pts_x = None
    } else if let Some(f) = &mut y.fnc_values {
        f.datatype = DataType::Ubyte
    });
    near!(a.transformer, b.transformer, |y: &mut Transformer, r: &mut Rng| if r.coin() { y.timeout += 1 } else { y.dllname_64bit.push('x') });
    near!(a.typedef_blob, b.typedef_blob, |y: &mut TypedefBlob, _r: &mut Rng| y.size += 1);
    near!(a.typedef_measurement, b.typedef_measurement, |y: &mut TypedefMeasurement, r: &mut Rng| if r.coin() { y.resolution += 1 } else { y.upper_limit += 1.0 });
    near!(a.typedef_axis, b.typedef_axis, |y: &mut TypedefAxis, _r: &mut Rng| y.max_axis_points += 1);
    near!(a.typedef_characteristic, b.typedef_characteristic, |y: &mut TypedefCharacteristic, _r: &mut Rng| y.max_diff += 1.0);
    near!(a.typedef_structure, b.typedef_structure, |y: &mut TypedefStructure, r: &mut Rng| {
        let n = y.structure_component.len();
        if n > 0 && r.chance(2, 3) {
            y.structure_component.swap_remove_idx(n - 1);
        } else {
            y.total_size += 1;
        }
    });
    if let (Some(pa), Some(pb)) = (&mut a.mod_par, &b.mod_par) {
        near!(pa.memory_segment, pb.memory_segment, |y: &mut MemorySegment, r: &mut Rng| if r.coin() { y.address += 1 } else { y.size += 1 });
    }
}

/// remove cross-kind duplicates inside one namespace of a module (the generator draws object names
/// from one pool, but twins copied from B may collide with another kind in A)
fn dedup_namespaces(m: &mut Module) {
    let mut seen: HashSet<String> = HashSet::new();
    macro_rules! dd {
        ($list:expr) => {
            $list.retain(|x| seen.insert(x.get_name().to_string()));
        };
    }
    dd!(m.axis_pts);
    dd!(m.blob);
    dd!(m.characteristic);
    dd!(m.instance);
    dd!(m.measurement);
    seen.clear();
    dd!(m.compu_tab);
    dd!(m.compu_vtab);
    dd!(m.compu_vtab_range);
    seen.clear();
    dd!(m.typedef_axis);
    dd!(m.typedef_blob);
    dd!(m.typedef_characteristic);
    dd!(m.typedef_measurement);
    dd!(m.typedef_structure);
}

pub fn gen_pair(rng: &mut Rng, rec: &mut Recorder) -> Pair {
    let universe = *rng.pick(&[6usize, 8, 12]);
    let size = rng.urange(2, 5);
    let b_cfg = ModCfg {
        size,
        universe,
        ref_pct: *rng.pick(&[60u32, 90, 100]),
        marker_base: 1,
        merge_names: rng.chance(1, 3),
        ..ModCfg::default()
    };
    if b_cfg.merge_names {
        rec.bump("pair.with_MERGE_names_in_B");
    }
    let bm = Gen::new(rng, b_cfg).module("mb");
    let overlap = rng.below(4);
    let mut am = match overlap {
        0 => {
            rec.bump("pair.A_empty");
            Module::new("ma".into(), String::new())
        }
        _ => {
            let a_cfg = ModCfg {
                size: rng.urange(1, 5),
                universe,
                marker_base: 10_000,
                prefix: if overlap == 1 { "b9_".into() } else { String::new() },
                ..ModCfg::default()
            };
            rec.bump(if overlap == 1 { "pair.disjoint" } else { "pair.overlapping" });
            Gen::new(rng, a_cfg).module("ma")
        }
    };
    if overlap >= 2 {
        if rng.coin() {
            add_twins(rng, &mut am, &bm);
            rec.bump("pair.with_twins");
        }
        if rng.coin() {
            add_near_twins(rng, &mut am, &bm);
            rec.bump("pair.with_near_twins");
        }
        if rng.coin() {
            rename_to_merge_names(rng, &mut am);
            rec.bump("pair.with_MERGE_names_in_A");
        }
        // singletons present on none / one / both sides
        if rng.chance(1, 3) {
            am.mod_par = None;
        } else if rng.chance(1, 4) {
            // a MOD_PAR that holds no MEMORY_SEGMENT (all of B's segments are new then); references
            // of A to its segments go with them so that A stays consistent
            if let Some(mp) = &mut am.mod_par {
                mp.memory_segment.retain(|_| false);
                rec.bump("pair.A_mod_par_without_memory_segments");
            }
            for x in am.measurement.iter_mut() {
                x.ref_memory_segment = None;
            }
            for x in am.characteristic.iter_mut() {
                x.ref_memory_segment = None;
            }
            for x in am.axis_pts.iter_mut() {
                x.ref_memory_segment = None;
            }
        }
        if rng.chance(1, 3) {
            am.mod_common = None;
        }
        if rng.chance(1, 3) {
            am.variant_coding = None;
        }
        dedup_namespaces(&mut am);
    }
    // module-level A2ML and IF_DATA on none / one / both sides: A2ML is taken from B only if A has none,
    // IF_DATA is taken from B (completely) only if A has none at all
    let mut bm = bm;
    let a2ml_texts = ["\n block \"IF_DATA\" taggedunion { \"XCP\" struct { int; }; };\n", "\n block \"IF_DATA\" taggedunion { \"CCP\" struct { long; }; \"XCP\" (int)*; };\n"];
    let if_data_of = |marker: u32, n: usize| -> Vec<a2lfile::IfData> {
        let mut t = String::new();
        for k in 0..n {
            t.push_str(&format!("/begin IF_DATA {} {} /begin SEG {k} /end SEG /end IF_DATA\n", if k == 0 { "XCP" } else { "CCP" }, marker + k as u32));
        }
        match a2lfile::load_fragment(&t, None) {
            Ok(m) => m.if_data,
            Err(_) => Vec::new(),
        }
    };
    if rng.coin() {
        bm.a2ml = Some(a2lfile::A2ml::new(a2ml_texts[rng.below(2)].to_string()));
        rec.bump("pair.B_has_A2ML");
    }
    if rng.chance(2, 3) {
        bm.if_data = if_data_of(700, rng.urange(1, 2));
        rec.bump("pair.B_has_IF_DATA");
    }
    if overlap != 0 {
        if rng.coin() {
            am.a2ml = Some(a2lfile::A2ml::new(a2ml_texts[rng.below(2)].to_string()));
            rec.bump("pair.A_has_A2ML");
        }
        if rng.chance(1, 3) {
            am.if_data = if_data_of(800, rng.urange(1, 2));
            rec.bump("pair.A_has_IF_DATA");
        } else if am.a2ml.is_some() && !bm.if_data.is_empty() {
            rec.bump("pair.A_has_A2ML_but_no_IF_DATA_and_B_has_IF_DATA");
        }
    }
    let mut a = wrap(am);
    // the destination may have been sorted before (sorting reorders the lists and their name index)
    if rng.chance(1, 3) {
        a.sort();
        rec.bump("pair.A_sorted_before_merge");
    }
    Pair { a, b: wrap(bm) }
}

fn witness(a: &A2lFile, b: &A2lFile, note: &str) -> Json {
    Json::obj()
        .with("note", Json::s(note))
        .with("A", Json::s(&clip(&a.write_to_string(), 40000)))
        .with("B", Json::s(&clip(&b.write_to_string(), 40000)))
}

fn do_merge(rec: &mut Recorder, a: &mut A2lFile, b: &mut A2lFile, a0: &A2lFile, b0: &A2lFile) -> bool {
    match guarded(|| a.merge_modules(b)) {
        Ok(()) => true,
        Err((sig, detail)) => {
            rec.violation(&format!("{sig} in merge_modules"), &detail, witness(a0, b0, ""));
            false
        }
    }
}

// ------------------------------------------------------------------------------------------
// C08

fn check_conservation(rec: &mut Recorder, a0: &A2lFile, b0: &A2lFile, r: &A2lFile) {
    let ma = &a0.project.module[0];
    let mb = &b0.project.module[0];
    let mr = &r.project.module[0];
    let ea = collect(ma);
    let eb = collect(mb);
    let er = collect(mr);
    rec.add("elements_accounted", (ea.len() + eb.len()) as u64);
    // --- names unique per namespace
    let mut seen: HashMap<(String, String), &ElemInfo> = HashMap::new();
    for e in &er {
        if let Some(prev) = seen.insert((ns_key(e), e.name.clone()), e) {
            rec.violation(
                &format!("duplicate name in namespace {} after merge", ns_key(e)),
                &format!("{} {} and {} {}", prev.kind, prev.name, e.kind, e.name),
                witness(a0, b0, "names must stay unique"),
            );
            return;
        }
    }
    // --- every element of A unchanged (GROUP / FUNCTION may gain members)
    for e in &ea {
        let found = er.iter().find(|x| x.kind == e.kind && x.name == e.name);
        match found {
            None => {
                rec.violation(
                    &format!("element of A lost: {}", e.kind),
                    &format!("{} {}", e.kind, e.name),
                    witness(a0, b0, ""),
                );
                return;
            }
            Some(x) => {
                if x.fp != e.fp || x.marker != e.marker {
                    let partner = eb.iter().any(|y| y.kind == e.kind && y.name == e.name);
                    let may_gain = (e.kind == "GROUP" || e.kind == "FUNCTION") && partner;
                    if !may_gain || !only_gained_members(e.kind, &e.name, ma, mr) {
                        rec.violation(
                            &format!("element of A changed: {}", e.kind),
                            &format!("{} {}: `{}` became `{}`", e.kind, e.name, clip(&e.fp, 300), clip(&x.fp, 300)),
                            witness(a0, b0, ""),
                        );
                        return;
                    }
                }
            }
        }
    }
    // --- every element of B represented exactly once
    // elements of R that are A's own (same kind, name, marker as in A before the merge)
    let is_a_origin = |x: &ElemInfo| ea.iter().any(|e| e.kind == x.kind && e.name == x.name && e.marker == x.marker);
    for e in &eb {
        let same_name_partner = ea.iter().find(|y| y.kind == e.kind && y.name == e.name);
        if (e.kind == "GROUP" || e.kind == "FUNCTION") && same_name_partner.is_some() {
            // united by name: B's members must all be represented in the union
            check_union(rec, e, mb, mr, a0, b0);
            continue;
        }
        let moved: Vec<&ElemInfo> = er
            .iter()
            .filter(|x| x.kind == e.kind && x.marker == e.marker && !is_a_origin(x))
            .collect();
        let shared = er
            .iter()
            .find(|x| x.kind == e.kind && x.marker == e.marker && x.name == e.name && is_a_origin(x) && x.fp == e.fp);
        if moved.is_empty() && shared.is_none() {
            rec.violation(
                &format!("element of B has no representative after merge: {}", e.kind),
                &format!("{} {} (marker {})", e.kind, e.name, e.marker),
                witness(a0, b0, ""),
            );
            return;
        }
        if moved.len() > 1 {
            rec.violation(
                &format!("element of B represented twice: {}", e.kind),
                &format!("{} {} as {:?}", e.kind, e.name, moved.iter().map(|x| &x.name).collect::<Vec<_>>()),
                witness(a0, b0, ""),
            );
            return;
        }
        let Some(rep) = moved.first().copied() else {
            rec.bump(&format!("shared_twin.{}", e.kind));
            continue;
        };
        let name_ok = rep.name == e.name
            || (rep.name.starts_with(&format!("{}.MERGE", e.name))
                && rep.name[e.name.len() + 6..].chars().all(|c| c.is_ascii_digit()));
        if !name_ok {
            rec.violation(
                &format!("representative of a B element has an unexpected name: {}", e.kind),
                &format!("{} {} is represented by {}", e.kind, e.name, rep.name),
                witness(a0, b0, ""),
            );
            return;
        }
        if rep.name != e.name {
            rec.bump(&format!("renamed.{}", e.kind));
        } else {
            rec.bump(&format!("moved.{}", e.kind));
        }
        if rep.fp != e.fp {
            rec.violation(
                &format!("content of a B element changed by the merge: {}", e.kind),
                &format!("{} {}: `{}` became `{}`", e.kind, e.name, clip(&e.fp, 300), clip(&rep.fp, 300)),
                witness(a0, b0, ""),
            );
            return;
        }
    }
    // --- nothing invented
    for x in &er {
        let from_a = ea.iter().any(|e| e.kind == x.kind && e.marker == x.marker);
        let from_b = eb.iter().any(|e| e.kind == x.kind && e.marker == x.marker);
        if !from_a && !from_b {
            rec.violation(
                &format!("element of unknown origin after merge: {}", x.kind),
                &format!("{} {}", x.kind, x.name),
                witness(a0, b0, ""),
            );
            return;
        }
    }
    // module-level A2ML / IF_DATA: A's stay as they are; B's are taken over where A has none
    if ma.a2ml.is_some() {
        if mr.a2ml != ma.a2ml {
            rec.violation("A2ML of A changed by the merge", "", witness(a0, b0, ""));
        }
    } else if mr.a2ml != mb.a2ml {
        rec.violation("A2ML of B not taken over although A has none", "", witness(a0, b0, ""));
    }
    if !ma.if_data.is_empty() {
        if mr.if_data != ma.if_data {
            rec.violation("module-level IF_DATA of A changed by the merge", "", witness(a0, b0, ""));
        }
    } else if mr.if_data != mb.if_data {
        rec.violation(
            "module-level IF_DATA of B not taken over although A has none",
            &format!("A has A2ML: {}, B has A2ML: {}; result has {} IF_DATA blocks, B has {}", ma.a2ml.is_some(), mb.a2ml.is_some(), mr.if_data.len(), mb.if_data.len()),
            witness(a0, b0, ""),
        );
    }
    // singletons of A unchanged; singletons only in B taken over
    let singles: [(&str, bool, bool, bool); 3] = [
        ("MOD_COMMON", ma.mod_common.is_some(), mb.mod_common.is_some(), mr.mod_common.is_some()),
        ("VARIANT_CODING", ma.variant_coding.is_some(), mb.variant_coding.is_some(), mr.variant_coding.is_some()),
        ("MOD_PAR", ma.mod_par.is_some(), mb.mod_par.is_some(), mr.mod_par.is_some()),
    ];
    for (name, in_a, in_b, in_r) in singles {
        if (in_a || in_b) && !in_r {
            rec.violation(&format!("singleton lost: {name}"), "", witness(a0, b0, ""));
        }
    }
    if ma.mod_common.is_some() && ma.mod_common != mr.mod_common {
        rec.violation("singleton of A changed: MOD_COMMON", "", witness(a0, b0, ""));
    }
    if ma.variant_coding.is_some() && ma.variant_coding != mr.variant_coding {
        rec.violation("singleton of A changed: VARIANT_CODING", "", witness(a0, b0, ""));
    }
}

/// R's group/function equals A's except that its member lists may have gained entries at the end
fn only_gained_members(kind: &str, name: &str, ma: &Module, mr: &Module) -> bool {
    // a union, not a concatenation: behind A's entries only entries that A's list does not have, each once
    fn prefix(a: &[String], r: &[String]) -> bool {
        r.len() >= a.len() && r[..a.len()] == *a && {
            let tail = &r[a.len()..];
            tail.iter().enumerate().all(|(i, x)| !a.contains(x) && !tail[..i].contains(x))
        }
    }
    macro_rules! lists_ok {
        ($x:expr, $y:expr, $($field:ident . $list:ident),*) => {{
            let mut ok = true;
            $(
                ok &= match (&$x.$field, &$y.$field) {
                    (Some(a), Some(r)) => prefix(&a.$list, &r.$list),
                    (None, _) => true,
                    (Some(_), None) => false,
                };
            )*
            ok
        }};
    }
    if kind == "GROUP" {
        let (Some(x), Some(y)) = (ma.group.get(name), mr.group.get(name)) else { return false };
        let mut yy = y.clone();
        yy.sub_group = x.sub_group.clone();
        yy.function_list = x.function_list.clone();
        yy.ref_characteristic = x.ref_characteristic.clone();
        yy.ref_measurement = x.ref_measurement.clone();
        yy == *x
            && lists_ok!(x, y, sub_group.identifier_list, function_list.name_list, ref_characteristic.identifier_list, ref_measurement.identifier_list)
    } else {
        let (Some(x), Some(y)) = (ma.function.get(name), mr.function.get(name)) else { return false };
        let mut yy = y.clone();
        yy.sub_function = x.sub_function.clone();
        yy.in_measurement = x.in_measurement.clone();
        yy.loc_measurement = x.loc_measurement.clone();
        yy.out_measurement = x.out_measurement.clone();
        yy.def_characteristic = x.def_characteristic.clone();
        yy.ref_characteristic = x.ref_characteristic.clone();
        yy == *x
            && lists_ok!(
                x,
                y,
                sub_function.identifier_list,
                in_measurement.identifier_list,
                loc_measurement.identifier_list,
                out_measurement.identifier_list,
                def_characteristic.identifier_list,
                ref_characteristic.identifier_list
            )
    }
}

/// B's same-name GROUP/FUNCTION is united with A's: every member of B's lists must be present
/// (possibly under its new name) in R's lists
fn check_union(rec: &mut Recorder, e: &ElemInfo, mb: &Module, mr: &Module, a0: &A2lFile, b0: &A2lFile) {
    let idx_b = Index::build(mb);
    let idx_r = Index::build(mr);
    let eb: Vec<Edge> = edges(mb)
        .into_iter()
        .filter(|x| x.ctx.kind == e.kind && x.ctx.rname == e.name)
        .collect();
    let er: Vec<Edge> = edges(mr)
        .into_iter()
        .filter(|x| x.ctx.kind == e.kind && x.ctx.rname == e.name)
        .collect();
    for x in &eb {
        // marker of B's member
        let tb = idx_b.resolve(x.ctx.ns, &x.target).and_then(|v| v.first().copied());
        let by_name = matches!(x.ctx.ns, Ns::Func | Ns::Grp);
        let represented = er.iter().filter(|y| y.ctx.site == x.ctx.site).any(|y| {
            if by_name {
                // FUNCTION and GROUP are united by name and never renamed
                return y.target == x.target;
            }
            match (tb, idx_r.resolve(y.ctx.ns, &y.target).and_then(|v| v.first().copied())) {
                (Some((_, mk_b)), Some((_, mk_r))) => mk_b == mk_r,
                // unresolved member names are compared literally
                (None, _) => y.target == x.target,
                _ => false,
            }
        });
        rec.bump(&format!("union_member.{}", x.ctx.site));
        if !represented {
            rec.violation(
                &format!("member of B's same-name {} lost in the union: {}", e.kind, x.ctx.site),
                &format!("{} {}: member {} of B is not in the merged list", e.kind, e.name, x.target),
                witness(a0, b0, ""),
            );
            return;
        }
    }
}

pub fn run_c08(args: &Args, rec: &mut Recorder) {
    rec.rule = "evaluation = one merge of module B into module A (generated with controlled overlap: disjoint, identical twins, same-name conflicts across kinds, pre-existing X.MERGE names, singletons on none/one/both sides, chains of merges) followed by a conservation ledger over element markers: every element of A unchanged (same-name GROUP/FUNCTION may only gain members), every element of B represented exactly once under its name or a fresh name N.MERGE[k] with unchanged content, unique names per namespace, nothing invented; plus merge(A, empty) == A, merge(A, copy of A) == A, merge(empty, B) = B. distinct_nontrivial = distinct (A,B) pairs by content hash".into();
    rec.assumptions.push("USER_RIGHTS and SYSTEM_CONSTANT with the same id on both sides are dropped by documented design and not judged; scalar content of B's same-name GROUP/FUNCTION is documented as not merged".into());
    let total: u64 = if args.thorough { 300_000 } else { 50_000 };
    run_cases(args, rec, total, crate::util::reset_budget, |rng, case, rec| {
        let pair = gen_pair(rng, rec);
        let (a0, b0) = (pair.a.clone(), pair.b.clone());
        let mut key = a0.write_to_string();
        key.push_str(&b0.write_to_string());
        rec.nontrivial(key.as_bytes());
        rec.eval();
        if rec.want_sample() && case % 211 == 1 {
            rec.sample(Json::obj().with("A", Json::s(&clip(&a0.write_to_string(), 300))).with("B", Json::s(&clip(&b0.write_to_string(), 300))));
        }
        let mut a = pair.a;
        let mut b = pair.b;
        if !do_merge(rec, &mut a, &mut b, &a0, &b0) {
            return None;
        }
        check_conservation(rec, &a0, &b0, &a);
        // identities
        match case % 5 {
            0 => {
                // merge(A, empty) == A
                let mut x = a0.clone();
                let mut e = wrap(Module::new("e".into(), String::new()));
                if do_merge(rec, &mut x, &mut e, &a0, &b0) && x != a0 {
                    rec.violation("merging an empty module changes A", &crate::c01::model_diff(&a0, &x), witness(&a0, &b0, ""));
                }
                rec.bump("identity.merge_empty");
            }
            1 => {
                // merge(A, copy of A) == A
                let mut x = a0.clone();
                let mut c = a0.clone();
                if do_merge(rec, &mut x, &mut c, &a0, &a0) && x != a0 {
                    rec.violation("merging an identical copy changes A", &crate::c01::model_diff(&a0, &x), witness(&a0, &a0, ""));
                }
                rec.bump("identity.merge_copy");
            }
            2 => {
                // merge(empty, B) yields B's content
                let mut x = wrap(Module::new("mb".into(), String::new()));
                let mut c = b0.clone();
                if do_merge(rec, &mut x, &mut c, &a0, &b0) {
                    let e0 = wrap(Module::new("mb".into(), String::new()));
                    check_conservation(rec, &e0, &b0, &x);
                    // compare the module content literally as well (names are all new, nothing is renamed)
                    let mut xm = x.project.module[0].clone();
                    let bm = &b0.project.module[0];
                    xm.long_identifier = bm.long_identifier.clone();
                    if xm != *bm {
                        rec.violation(
                            "merging B into an empty module does not yield B's content",
                            &crate::c01::model_diff(&b0, &x),
                            witness(&e0, &b0, ""),
                        );
                    }
                }
                rec.bump("identity.merge_into_empty");
            }
            3 => {
                // chain: merge a third module into the result
                let c_cfg = ModCfg {
                    size: 2,
                    universe: 8,
                    marker_base: 20_000,
                    ..ModCfg::default()
                };
                let c0 = wrap(Gen::new(rng, c_cfg).module("mc"));
                if rng.coin() {
                    // what an application does between two merges: give the new elements their place
                    a.sort_new_items();
                    rec.bump("chain.sort_new_items_between_merges");
                }
                let r1 = a.clone();
                let mut c = c0.clone();
                if do_merge(rec, &mut a, &mut c, &r1, &c0) {
                    check_conservation(rec, &r1, &c0, &a);
                }
                rec.bump("chain.second_merge");
            }
            _ => {}
        }
        None
    });
    for k in ["pair.A_empty", "pair.disjoint", "pair.overlapping", "pair.with_twins", "pair.with_near_twins", "pair.with_MERGE_names_in_A", "pair.with_MERGE_names_in_B",
        "identity.merge_empty", "identity.merge_copy", "identity.merge_into_empty", "chain.second_merge", "chain.sort_new_items_between_merges",
        "pair.A_sorted_before_merge", "pair.A_has_A2ML_but_no_IF_DATA_and_B_has_IF_DATA", "pair.A_has_IF_DATA", "pair.B_has_IF_DATA"] {
        rec.floor(k, 5);
    }
    for kind in ["MEASUREMENT", "CHARACTERISTIC", "AXIS_PTS", "COMPU_METHOD", "COMPU_VTAB", "UNIT", "RECORD_LAYOUT", "TYPEDEF_STRUCTURE", "FRAME", "TRANSFORMER", "MEMORY_SEGMENT"] {
        rec.floor(&format!("renamed.{kind}"), 1);
        rec.floor(&format!("moved.{kind}"), 1);
    }
}

// ------------------------------------------------------------------------------------------
// C09

pub fn run_c09(args: &Args, rec: &mut Recorder) {
    rec.rule = "evaluation = one merge of an internally consistent module B (every reference site of the frozen site table populated) into a module A with overlapping names; for every reference edge (b, site, t) of B whose referrer b was moved into the result (not an identical twin shared with A), the reference read from the element carrying b's marker at the same site must resolve to the element carrying t's marker. distinct_nontrivial = distinct (A,B) pairs by content hash".into();
    rec.assumptions.push("identical twins (same name and content on both sides) are shared by definition; their references are judged only for whether they designate an element with the content of B's target; references to conventional names (NO_COMPU_METHOD, NO_INPUT_QUANTITY, NO_INVERSE_TRANSFORMER, THIS.x) are not edges".into());
    let total: u64 = if args.thorough { 300_000 } else { 50_000 };
    let mut site_hits: BTreeMap<String, u64> = BTreeMap::new();
    run_cases(args, rec, total, crate::util::reset_budget, |rng, _case, rec| {
        let pair = gen_pair(rng, rec);
        let (a0, b0) = (pair.a.clone(), pair.b.clone());
        let mut key = a0.write_to_string();
        key.push_str(&b0.write_to_string());
        rec.nontrivial(key.as_bytes());
        rec.eval();
        if rec.want_sample() && _case % 211 == 1 {
            rec.sample(Json::obj().with("A", Json::s(&clip(&a0.write_to_string(), 300))).with("B", Json::s(&clip(&b0.write_to_string(), 300))));
        }
        let mb0 = &b0.project.module[0];
        let ma0 = &a0.project.module[0];
        let idx_b = Index::build(mb0);
        let idx_a = Index::build(ma0);
        let edges_b = edges(mb0);
        let mut a = pair.a;
        let mut b = pair.b;
        if !do_merge(rec, &mut a, &mut b, &a0, &b0) {
            return None;
        }
        let mr = &a.project.module[0];
        let idx_r = Index::build(mr);
        let edges_r = edges(mr);
        // referrer lookup in R: (kind, marker) -> name
        let er = collect(mr);
        let ea = collect(ma0);
        let eb = collect(mb0);
        for e in &edges_b {
            if is_conventional(e.ctx.ns, &e.target) {
                continue;
            }
            // target marker in B
            let Some(tb) = idx_b.resolve(e.ctx.ns, &e.target).and_then(|v| v.first().copied()) else {
                continue; // B is consistent, but be safe
            };
            // same-name GROUP/FUNCTION unions: the referrer is A's element, members united
            if (e.ctx.kind == "GROUP" || e.ctx.kind == "FUNCTION")
                && ea.iter().any(|x| x.kind == e.ctx.kind && x.name == e.ctx.rname && x.marker != e.ctx.rmarker)
            {
                // the element that represents B's GROUP/FUNCTION is the one of that name: it must hold
                // the reference (to the representative of the target) at the same site
                let by_name = matches!(e.ctx.ns, Ns::Func | Ns::Grp);
                let held = edges_r
                    .iter()
                    .filter(|x| x.ctx.kind == e.ctx.kind && x.ctx.rname == e.ctx.rname && x.ctx.site == e.ctx.site)
                    .any(|x| {
                        if by_name {
                            return x.target == e.target;
                        }
                        idx_r.resolve(x.ctx.ns, &x.target).and_then(|v| v.first().copied()).is_some_and(|(_, mk)| mk == tb.1)
                    });
                rec.bump("edges.of_united_group_or_function");
                if !held {
                    rec.violation(
                        &format!("reference held by B's GROUP/FUNCTION is not held by the same-name element after merge at site {}", e.ctx.site),
                        &format!("{} {} -> {}", e.ctx.kind, e.ctx.rname, e.target),
                        witness(&a0, &b0, ""),
                    );
                }
                continue;
            }
            // where is the referrer now?
            let (r_name, judged) = if e.ctx.rmarker != 0 {
                let rep = er.iter().find(|x| x.kind == e.ctx.kind && x.marker == e.ctx.rmarker);
                let Some(rep) = rep else { continue };
                // shared twin: A had the same marker under the same name before the merge
                let shared = ea.iter().any(|x| x.kind == e.ctx.kind && x.marker == e.ctx.rmarker && x.name == rep.name);
                (rep.name.clone(), !shared)
            } else {
                // singletons / user rights: judged only if they came from B (A had none)
                let from_b = match e.ctx.kind {
                    "MOD_COMMON" => ma0.mod_common.is_none(),
                    "VARIANT_CODING" => ma0.variant_coding.is_none(),
                    "USER_RIGHTS" => !ma0.user_rights.iter().any(|u| u.user_level_id == e.ctx.rname),
                    _ => false,
                };
                (e.ctx.rname.clone(), from_b)
            };
            if !judged {
                rec.bump("edges.not_judged(shared or not moved)");
                // An element of B that is shared with A's identical twin keeps A's text. Its reference
                // still has to designate the representative of *B's* target: if that target exists in A
                // with different content (B's is added under a fresh name), the shared twin points at
                // A's variant and B's reference structure is lost.
                if e.ctx.rmarker != 0 && !matches!(e.ctx.ns, Ns::Func | Ns::Grp | Ns::Crit) {
                    let cp = edges_r
                        .iter()
                        .find(|x| x.ctx.kind == e.ctx.kind && x.ctx.rname == r_name && x.ctx.site == e.ctx.site && x.ctx.pos == e.ctx.pos);
                    if let Some(cp) = cp {
                        let fb = eb.iter().find(|x| x.kind == tb.0 && x.marker == tb.1 && x.name == e.target).map(|x| &x.fp);
                        let fr = idx_r
                            .resolve(cp.ctx.ns, &cp.target)
                            .and_then(|v| v.first().copied())
                            .and_then(|(k2, _)| er.iter().find(|x| x.kind == k2 && x.name == cp.target))
                            .map(|x| &x.fp);
                        rec.bump("edges.of_shared_twins_compared");
                        if let (Some(fb), Some(fr)) = (fb, fr) {
                            if fb != fr {
                                rec.bump(&format!("shared_twin_retargeted.{}", e.ctx.site));
                                rec.violation(
                                    "reference held by a shared identical twin designates A's variant of B's target (the target differs between A and B)",
                                    &format!(
                                        "{} {} is identical in A and B and is shared; in B it referred at {} to {} {}, whose content differs from A's {}: after the merge the shared element reads `{}`, which designates `{}` instead of `{}`",
                                        e.ctx.kind, e.ctx.rname, e.ctx.site, tb.0, e.target, e.target, cp.target, clip(fr, 200), clip(fb, 200)
                                    ),
                                    witness(&a0, &b0, ""),
                                );
                            }
                        }
                    }
                }
                continue;
            }
            // counterpart edge in R
            let counterpart = edges_r.iter().find(|x| {
                x.ctx.kind == e.ctx.kind && x.ctx.rname == r_name && x.ctx.site == e.ctx.site && x.ctx.pos == e.ctx.pos
            });
            let Some(cp) = counterpart else {
                rec.violation(
                    &format!("reference lost by the merge at site {}", e.ctx.site),
                    &format!("{} {} -> {}", e.ctx.kind, e.ctx.rname, e.target),
                    witness(&a0, &b0, ""),
                );
                continue;
            };
            rec.bump(&format!("site.{}", e.ctx.site));
            let renamed_target = {
                // was the target renamed (i.e. is the representative of t under a different name)?
                let rep_t = er.iter().find(|x| x.marker == tb.1 && x.kind == tb.0);
                rep_t.is_some_and(|x| x.name != e.target)
            };
            if renamed_target {
                *site_hits.entry(e.ctx.site.to_string()).or_insert(0) += 1;
                rec.bump(&format!("site_renamed.{}", e.ctx.site));
            }
            if matches!(e.ctx.ns, Ns::Func | Ns::Grp | Ns::Crit) {
                // FUNCTION and GROUP are united by name and never renamed (and criterion names belong
                // to the VARIANT_CODING that is moved as a whole): the reference must keep its name and
                // resolve to the element of that name (the moved element or its same-name union partner)
                if cp.target != e.target || idx_r.resolve(cp.ctx.ns, &cp.target).is_none() {
                    rec.violation(
                        &format!("reference to a FUNCTION/GROUP/criterion changed or dangling after merge at site {}", e.ctx.site),
                        &format!("{} {} -> {} became {}", e.ctx.kind, e.ctx.rname, e.target, cp.target),
                        witness(&a0, &b0, ""),
                    );
                }
                continue;
            }
            match idx_r.resolve(cp.ctx.ns, &cp.target).and_then(|v| v.first().copied()) {
                None => {
                    rec.violation(
                        &format!("dangling reference after merge at site {}", e.ctx.site),
                        &format!(
                            "{} {} (now {}) referred to {} {} in B; after the merge the reference reads `{}`, which resolves to nothing",
                            e.ctx.kind, e.ctx.rname, r_name, tb.0, e.target, cp.target
                        ),
                        witness(&a0, &b0, ""),
                    );
                }
                Some((k2, mk2)) => {
                    if mk2 != tb.1 {
                        let _ = idx_a;
                        rec.violation(
                            &format!("reference silently retargeted by the merge at site {}", e.ctx.site),
                            &format!(
                                "{} {} (now {}) referred to {} {} (marker {}) in B; after the merge the reference reads `{}`, which designates {} with marker {}",
                                e.ctx.kind, e.ctx.rname, r_name, tb.0, e.target, tb.1, cp.target, k2, mk2
                            ),
                            witness(&a0, &b0, ""),
                        );
                    } else {
                        // same marker: near twins (A's variant of B's element, cloned with its marker
                        // and changed in one place) are told apart by their name-free content
                        let fb = eb.iter().find(|x| x.kind == tb.0 && x.marker == tb.1 && x.name == e.target).map(|x| &x.fp);
                        let fr = er.iter().find(|x| x.kind == k2 && x.name == cp.target).map(|x| &x.fp);
                        if fb.is_some() && fr.is_some() && fb != fr {
                            rec.violation(
                                &format!("reference silently retargeted by the merge at site {}", e.ctx.site),
                                &format!(
                                    "{} {} (now {}) referred to {} {} in B; after the merge the reference reads `{}`, which designates an element of different content (A's variant): `{}` instead of `{}`",
                                    e.ctx.kind, e.ctx.rname, r_name, tb.0, e.target, cp.target,
                                    clip(fr.unwrap(), 300), clip(fb.unwrap(), 300)
                                ),
                                witness(&a0, &b0, ""),
                            );
                        }
                    }
                }
            }
        }
        None
    });
    // every site must have been exercised, and hit by a rename of its target
    for site in ALL_SITES {
        rec.floor(&format!("site.{site}"), 5);
    }
    for site in RENAMEABLE_SITES {
        rec.floor(&format!("site_renamed.{site}"), 1);
    }
}

pub const ALL_SITES: &[&str] = &[
    "AxisPts.input_quantity", "AxisPts.deposit_record", "AxisPts.conversion", "AxisPts.function_list", "AxisPts.ref_memory_segment",
    "Characteristic.deposit", "Characteristic.conversion", "Characteristic.axis_descr[].input_quantity",
    "Characteristic.axis_descr[].conversion", "Characteristic.axis_descr[].axis_pts_ref", "Characteristic.axis_descr[].curve_axis_ref",
    "Characteristic.comparison_quantity", "Characteristic.dependent_characteristic", "Characteristic.virtual_characteristic",
    "Characteristic.map_list", "Characteristic.function_list", "Characteristic.ref_memory_segment",
    "Measurement.conversion", "Measurement.function_list", "Measurement.ref_memory_segment", "Measurement.virtual",
    "Instance.type_ref", "Instance.overwrite[].conversion", "Instance.overwrite[].input_quantity",
    "TypedefAxis.input_quantity", "TypedefAxis.record_layout", "TypedefAxis.conversion",
    "TypedefCharacteristic.record_layout", "TypedefCharacteristic.conversion", "TypedefCharacteristic.axis_descr[].input_quantity",
    "TypedefCharacteristic.axis_descr[].conversion", "TypedefCharacteristic.axis_descr[].axis_pts_ref",
    "TypedefMeasurement.conversion", "TypedefStructure.structure_component[].component_type",
    "CompuMethod.compu_tab_ref", "CompuMethod.status_string_ref", "CompuMethod.ref_unit", "Unit.ref_unit",
    "Function.def_characteristic", "Function.ref_characteristic", "Function.in_measurement", "Function.loc_measurement",
    "Function.out_measurement", "Function.sub_function", "Group.ref_characteristic", "Group.ref_measurement",
    "Group.function_list", "Group.sub_group", "Frame.frame_measurement", "Transformer.inverse_transformer",
    "Transformer.transformer_in_objects", "Transformer.transformer_out_objects", "UserRights.ref_group[]",
    "ModCommon.s_rec_layout", "VariantCoding.var_characteristic[].name", "VariantCoding.var_characteristic[].criterion_name_list",
    "VariantCoding.var_criterion[].var_measurement", "VariantCoding.var_criterion[].var_selection_characteristic",
    "VariantCoding.var_forbidden_comb[].combination[].criterion_name",
];

/// sites whose target namespace can be renamed by a merge (FUNC, GRP and CRIT names are never renamed)
pub const RENAMEABLE_SITES: &[&str] = &[
    "AxisPts.input_quantity", "AxisPts.deposit_record", "AxisPts.conversion", "AxisPts.ref_memory_segment",
    "Characteristic.deposit", "Characteristic.conversion", "Characteristic.axis_descr[].input_quantity",
    "Characteristic.axis_descr[].conversion", "Characteristic.axis_descr[].axis_pts_ref",
    "Characteristic.comparison_quantity", "Characteristic.dependent_characteristic", "Characteristic.map_list",
    "Measurement.conversion", "Measurement.ref_memory_segment", "Measurement.virtual",
    "Instance.type_ref", "Instance.overwrite[].conversion", "Instance.overwrite[].input_quantity",
    "TypedefAxis.input_quantity", "TypedefAxis.record_layout", "TypedefAxis.conversion",
    "TypedefCharacteristic.record_layout", "TypedefCharacteristic.conversion",
    "TypedefMeasurement.conversion", "TypedefStructure.structure_component[].component_type",
    "CompuMethod.compu_tab_ref", "CompuMethod.status_string_ref", "CompuMethod.ref_unit", "Unit.ref_unit",
    "Function.def_characteristic", "Function.in_measurement", "Group.ref_characteristic", "Group.ref_measurement",
    "Frame.frame_measurement", "Transformer.inverse_transformer", "Transformer.transformer_in_objects",
    "ModCommon.s_rec_layout", "VariantCoding.var_characteristic[].name",
    "VariantCoding.var_criterion[].var_measurement",
];
