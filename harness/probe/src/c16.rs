//! C16 — /include is transparent for loading and preserved by writing (+ fault list).

use crate::gram::load_str;
use a2lfile::{A2lError, A2lObject};
use std::path::{Path, PathBuf};
use vcommon::doc::{Child, Doc, Elem, Flat, Tok, TK};
use vcommon::docgen::DocGen;
use vcommon::grammar::Grammar;
use vcommon::json::{clip, Json};
use vcommon::layout::{render, LayoutCfg};
use vcommon::rng::Rng;
use vcommon::runtime::{guarded, run_cases, Args, Recorder};

/// one file of a split document
struct Piece {
    /// path relative to the root directory (always with '/')
    rel: String,
    children: Vec<Child>,
    /// for the main file: the whole document
    doc: Option<Doc>,
}

struct Split {
    pieces: Vec<Piece>,
    /// maximum nesting level of includes
    levels: usize,
    /// a sibling run inside an include file was itself moved to a deeper include file located in another directory
    nested_sibling_in_subdir: bool,
}

fn dir_of(rel: &str) -> &str {
    rel.rsplit_once('/').map_or("", |(d, _)| d)
}

fn include_tokens(rng: &mut Rng, name_rel_to_includer: &str) -> Vec<Tok> {
    // separator style and quoting
    let name = match rng.below(5) {
        0 | 1 => name_rel_to_includer.replace('/', "\\"),
        // both separator styles in one name
        2 => name_rel_to_includer.replacen('/', "\\", 1),
        3 if name_rel_to_includer.matches('/').count() >= 2 => {
            let (head, tail) = name_rel_to_includer.rsplit_once('/').unwrap();
            format!("{head}\\{tail}")
        }
        _ => name_rel_to_includer.to_string(),
    };
    let name_tok = if rng.coin() {
        Tok::string(&name, format!("\"{name}\""))
    } else {
        Tok::word(TK::Ident, &name)
    };
    vec![Tok::word(TK::Tag, "/include"), name_tok]
}

/// move runs of consecutive sibling elements of `children` (recursively) into include files
fn split_children(
    rng: &mut Rng,
    children: &mut Vec<Child>,
    includer_rel: &str,
    level: usize,
    max_level: usize,
    counter: &mut usize,
    out: &mut Vec<Piece>,
    info: &mut Split,
    at_top_of_include_file: bool,
) {
    // element positions
    let elem_idx: Vec<usize> = children
        .iter()
        .enumerate()
        .filter(|(_, c)| matches!(c, Child::Elem(_)))
        .map(|(i, _)| i)
        .collect();
    if elem_idx.is_empty() || !rng.chance(2, 3) || level >= max_level {
        return;
    }
    // choose a run [a, b] of consecutive children (may contain comments in between)
    let s = rng.below(elem_idx.len());
    let len = rng.urange(1, 3).min(elem_idx.len() - s);
    let a = elem_idx[s];
    let b = elem_idx[s + len - 1];
    let mut moved: Vec<Child> = children.drain(a..=b).collect();
    if moved.len() >= 2 && rng.chance(1, 3) {
        // a line comment between two elements of the include file
        moved.insert(1, Child::Comment(format!("// inc note {}", *counter)));
    }
    *counter += 1;
    let sub = match rng.below(3) {
        0 => String::new(),
        1 => "sub/".to_string(),
        _ => format!("d{}/deep/", *counter),
    };
    let base_dir = dir_of(includer_rel);
    let file_rel_to_includer = format!("{sub}inc{}.a2l", *counter);
    let file_rel = if base_dir.is_empty() {
        file_rel_to_includer.clone()
    } else {
        format!("{base_dir}/{file_rel_to_includer}")
    };
    info.levels = info.levels.max(level + 1);
    if at_top_of_include_file {
        // a sibling run at the top level of an include file moved into a deeper include file
        info.nested_sibling_in_subdir = true;
    }
    // recursion inside the new include file
    split_children(rng, &mut moved, &file_rel, level + 1, max_level, counter, out, info, true);
    children.insert(a, Child::Raw(include_tokens(rng, &file_rel_to_includer)));
    out.push(Piece {
        rel: file_rel,
        children: moved,
        doc: None,
    });
    // includes inside the nested blocks that stay in this file
    for c in children.iter_mut() {
        if let Child::Elem(e) = c {
            // RECORD_LAYOUT is the block whose items the writer reorders (position restriction):
            // directives inside it are the interesting ones
            let p = if e.tag == "RECORD_LAYOUT" { 3 } else { 1 };
            if e.has_opts && e.is_block && e.tag != "IF_DATA" && e.tag != "A2ML" && rng.chance(p, 4) {
                split_children(rng, &mut e.children, includer_rel, level, max_level, counter, out, info, false);
            }
        }
    }
}

/// move one balanced nested block of an IF_DATA payload into an include file
fn split_ifdata(rng: &mut Rng, children: &mut [Child], counter: &mut usize, out: &mut Vec<Piece>) -> bool {
    for c in children.iter_mut() {
        let Child::Elem(e) = c else { continue };
        if e.tag != "IF_DATA" {
            if e.tag == "MODULE" || rng.chance(1, 3) {
                if split_ifdata(rng, &mut e.children, counter, out) {
                    return true;
                }
            }
            continue;
        }
        // find /begin X ... /end X ranges at nesting level >= 1 of the payload
        let p = &e.params;
        let mut ranges: Vec<(usize, usize)> = Vec::new();
        let mut stack: Vec<usize> = Vec::new();
        for (i, t) in p.iter().enumerate() {
            match t.kind {
                TK::Begin => stack.push(i),
                TK::End => {
                    if let Some(st) = stack.pop() {
                        // the range includes the tag behind /end
                        if i + 1 < p.len() {
                            ranges.push((st, i + 1));
                        }
                    }
                }
                _ => {}
            }
        }
        if ranges.is_empty() || !rng.coin() {
            continue;
        }
        let (a, b) = *rng.pick(&ranges);
        *counter += 1;
        let rel = format!("ifd{}.a2l", *counter);
        let moved: Vec<Tok> = e.params.drain(a..=b).collect();
        let inc = include_tokens(rng, &rel);
        for (k, t) in inc.into_iter().enumerate() {
            e.params.insert(a + k, t);
        }
        out.push(Piece {
            rel,
            children: vec![Child::Raw(moved)],
            doc: None,
        });
        return true;
    }
    false
}

fn flatten_children(children: &[Child]) -> Flat {
    let mut f = Flat::empty();
    // a pseudo parent is not needed: flatten each child at depth 2 (module level indentation is irrelevant)
    for c in children {
        match c {
            Child::Elem(e) => vcommon::doc::flatten_elem(e, 2, u32::MAX, true, false, &mut f),
            Child::Comment(t) => f.toks.push(vcommon::doc::FTok {
                tok: Tok::comment(t),
                depth: 2,
                elem: 0,
                slot_before: true,
                file_level: false,
                in_ifdata: false,
                owner_tag_idx: 0,
                param_idx: -1,
            }),
            Child::Raw(toks) => {
                for t in toks {
                    f.toks.push(vcommon::doc::FTok {
                        tok: t.clone(),
                        depth: 2,
                        elem: 0,
                        slot_before: false,
                        file_level: false,
                        in_ifdata: true,
                        owner_tag_idx: 0,
                        param_idx: -1,
                    });
                }
            }
        }
    }
    f
}

struct Written {
    root: PathBuf,
    main: PathBuf,
    /// text of every file by relative path
    texts: Vec<(String, String)>,
    flattened: String,
}

fn write_tree(rng: &mut Rng, scratch: &Path, case: u64, split: &Split) -> Written {
    let root = scratch.join(format!("c16_{case}"));
    let _ = std::fs::remove_dir_all(&root);
    std::fs::create_dir_all(&root).unwrap();
    let mut texts: Vec<(String, String)> = Vec::new();
    for p in &split.pieces {
        let flat = match &p.doc {
            Some(d) => d.flatten(),
            None => flatten_children(&p.children),
        };
        let mut lc = LayoutCfg::c05(rng);
        lc.first_on_line1 = true;
        let mut text = render(&flat, &lc, rng).text;
        text.push('\n');
        let full = root.join(&p.rel);
        std::fs::create_dir_all(full.parent().unwrap()).unwrap();
        // include files go through the same encoding detection as the main file: a fifth of them is
        // written in another encoding (BOM-less UTF-16/32 needs an ASCII first character, which an
        // include file that starts with a comment or a string may not have: those get a BOM)
        if p.rel != "main.a2l" && rng.chance(1, 5) && !text.is_empty() {
            let mut enc = *rng.pick(&crate::c17::ENCODINGS);
            let first_ascii = text.chars().next().is_some_and(|c| c.is_ascii() && c != '\0');
            let second_ok = text.chars().nth(1).map_or(true, |c| c.is_ascii());
            if !(first_ascii && second_ok) && !enc.ends_with("-bom") && enc != "utf8" {
                enc = "utf8-bom";
            }
            std::fs::write(&full, crate::c17::encode(&text, enc)).unwrap();
        } else {
            std::fs::write(&full, &text).unwrap();
        }
        texts.push((p.rel.clone(), text));
    }
    // flattened text: textual substitution of every include directive by the file content
    fn expand(rel: &str, texts: &[(String, String)], depth: usize) -> String {
        let Some((_, text)) = texts.iter().find(|(r, _)| r == rel) else {
            // not one of the generated element files (the A2ML include is substituted by the caller)
            return format!("/include \"{rel}\"");
        };
        if depth > 8 {
            return text.clone();
        }
        let mut out = String::new();
        let mut rest = text.as_str();
        while let Some(p) = rest.find("/include") {
            out.push_str(&rest[..p]);
            let after = rest[p + 8..].trim_start();
            let (name, consumed) = if let Some(q) = after.strip_prefix('"') {
                let e = q.find('"').unwrap();
                (q[..e].to_string(), after.len() - q.len() + e + 1)
            } else {
                let e = after.find(|c: char| c.is_whitespace()).unwrap_or(after.len());
                (after[..e].to_string(), e)
            };
            let name_norm = name.replace('\\', "/");
            let base = dir_of(rel);
            let target = if base.is_empty() { name_norm } else { format!("{base}/{name_norm}") };
            out.push(' ');
            out.push_str(&expand(&target, texts, depth + 1));
            out.push(' ');
            let skipped = rest[p + 8..].len() - after.len();
            rest = &rest[p + 8 + skipped + consumed..];
        }
        out.push_str(rest);
        out
    }
    let flattened = expand("main.a2l", &texts, 0);
    Written {
        main: root.join("main.a2l"),
        root,
        texts,
        flattened,
    }
}

fn witness(w: &Written, note: &str) -> Json {
    let mut files = Json::obj();
    for (r, t) in &w.texts {
        files.set(r, Json::s(&clip(t, 20000)));
    }
    Json::obj().with("note", Json::s(note)).with("files", files)
}

/// one include file named by several directives (different spellings of the same path), directly
/// and through two other include files (diamond): legal, must load like the flattened text, and
/// the written file must load to an equal model
fn shared_include_case(rng: &mut Rng, rec: &mut Recorder, scratch: &Path, case: u64) {
    let root = scratch.join(format!("c16s_{case}"));
    let _ = std::fs::remove_dir_all(&root);
    std::fs::create_dir_all(root.join("common")).unwrap();
    let annotation = format!(
        "/begin ANNOTATION ANNOTATION_LABEL \"shared {}\" /begin ANNOTATION_TEXT \"line\" /end ANNOTATION_TEXT /end ANNOTATION\n",
        rng.below(1000)
    );
    std::fs::write(root.join("common/annotation.a2l"), &annotation).unwrap();
    let spellings = ["common/annotation.a2l", "\"common/annotation.a2l\"", "common\\annotation.a2l", "\"common\\annotation.a2l\"", "\"./common/annotation.a2l\""];
    let diamond = rng.coin();
    let n = rng.urange(2, 4);
    let mut main = String::from("ASAP2_VERSION 1 71\n/begin PROJECT p \"\"\n/begin MODULE m \"\"\n");
    let mut flat = main.clone();
    for i in 0..n {
        let head = format!("/begin MEASUREMENT meas{i} \"\" UBYTE NO_COMPU_METHOD 0 0 0 255\n");
        main.push_str(&head);
        flat.push_str(&head);
        if diamond && i < 2 {
            // through an intermediate include file in the main directory
            let mid = format!("mid{i}.a2l");
            std::fs::write(root.join(&mid), format!("ECU_ADDRESS 0x{i}0\n/include {}\n", rng.pick(&spellings))).unwrap();
            main.push_str(&format!("/include {mid}\n"));
            flat.push_str(&format!("ECU_ADDRESS 0x{i}0\n{annotation}"));
        } else {
            main.push_str(&format!("/include {}\n", rng.pick(&spellings)));
            flat.push_str(&annotation);
        }
        main.push_str("/end MEASUREMENT\n");
        flat.push_str("/end MEASUREMENT\n");
    }
    main.push_str("/end MODULE\n/end PROJECT\n");
    flat.push_str("/end MODULE\n/end PROJECT\n");
    let main_path = root.join("main.a2l");
    std::fs::write(&main_path, &main).unwrap();
    rec.eval();
    rec.bump(if diamond { "shared_include.diamond" } else { "shared_include.direct" });
    rec.nontrivial(main.as_bytes());
    let w = Json::obj().with("case", Json::s("one include file named by several directives")).with("main", Json::s(&main));
    crate::util::set_budget(200_000);
    let loaded = guarded(|| a2lfile::load(&main_path, None, rng.coin()));
    crate::util::reset_budget();
    let m = match loaded {
        Err((sig, detail)) => {
            rec.violation(&format!("{sig} [shared include file]"), &detail, w);
            let _ = std::fs::remove_dir_all(&root);
            return;
        }
        Ok(Err(e)) => {
            rec.violation(
                &format!("file that includes one file several times is rejected: {}", crate::gram::err_class(&e)),
                &e.to_string(),
                w,
            );
            let _ = std::fs::remove_dir_all(&root);
            return;
        }
        Ok(Ok((m, _))) => m,
    };
    match load_str(&flat, false) {
        Ok(Ok((r, _))) => {
            if r != m {
                rec.violation(
                    "model loaded through /include differs from the model of the flattened text [shared include file]",
                    &crate::c01::model_diff(&r, &m),
                    w.clone(),
                );
            }
        }
        _ => rec.bump("flattened_rejected"),
    }
    let written = root.join("written.a2l");
    std::fs::write(&written, m.write_to_string()).unwrap();
    // the diamond has an include file that includes another one: writing such a tree is the known
    // nested-include finding, reported under its own signature
    let suffix = if diamond {
        "[nested include: sibling run of an include file moved to a deeper include file]"
    } else {
        "[shared include file]"
    };
    match guarded(|| a2lfile::load(&written, None, false)) {
        Err((sig, detail)) => rec.violation(&format!("{sig} in reload of the written file [shared include file]"), &detail, w),
        Ok(Err(e)) => rec.violation(&format!("written file with include directives does not load {suffix}"), &e.to_string(), w),
        Ok(Ok((m2, _))) => {
            if m2 != m {
                rec.violation(
                    &format!("model reloaded from the written file differs {suffix}"),
                    &crate::c01::model_diff(&m, &m2),
                    w,
                );
            }
        }
    }
    let _ = std::fs::remove_dir_all(&root);
}

/// an A2ML block that stands in an A2L include file and pulls its type definitions from an A2ML
/// include file: the path of the A2ML include is relative to the file that holds the A2ML block
fn a2ml_in_include_file_case(rng: &mut Rng, rec: &mut Recorder, scratch: &Path, case: u64) {
    let root = scratch.join(format!("c16a_{case}"));
    let _ = std::fs::remove_dir_all(&root);
    let sub = *rng.pick(&["sub", "d1/deep", "."]);
    std::fs::create_dir_all(root.join(sub).join("aml")).unwrap();
    std::fs::write(root.join(sub).join("aml/types.aml"), "struct inc_t { uint; ulong; };\n").unwrap();
    let directive = if rng.coin() { "/include \"aml/types.aml\"" } else { "/include aml/types.aml" };
    let part = format!(
        "/begin A2ML\n {directive}\n block \"IF_DATA\" taggedunion {{ \"INCX\" struct inc_t; }};\n/end A2ML\n/begin IF_DATA INCX 5 70000\n/end IF_DATA\n"
    );
    std::fs::write(root.join(sub).join("mod_part.a2l"), &part).unwrap();
    let inc_name = if sub == "." { "mod_part.a2l".to_string() } else { format!("{sub}/mod_part.a2l") };
    let main = format!("ASAP2_VERSION 1 71\n/begin PROJECT p \"\"\n/begin MODULE m \"\"\n/include \"{inc_name}\"\n/end MODULE\n/end PROJECT\n");
    let main_path = root.join("main.a2l");
    std::fs::write(&main_path, &main).unwrap();
    rec.eval();
    rec.bump("a2ml_block_in_include_file");
    rec.nontrivial(format!("{main}{part}").as_bytes());
    let w = Json::obj()
        .with("case", Json::s("A2ML block with an A2ML include inside an A2L include file"))
        .with("main", Json::s(&main))
        .with(&inc_name, Json::s(&part));
    let strict = rng.coin();
    crate::util::set_budget(200_000);
    let loaded = guarded(|| a2lfile::load(&main_path, None, strict));
    crate::util::reset_budget();
    match loaded {
        Err((sig, detail)) => rec.violation(&format!("{sig} [A2ML block in an include file]"), &detail, w),
        Ok(Err(e)) => rec.violation(
            &format!("file whose include file holds an A2ML block with an A2ML include is rejected: {}", crate::gram::err_class(&e)),
            &e.to_string(),
            w,
        ),
        Ok(Ok((m, log))) => {
            let valid = m.project.module[0].if_data.first().is_some_and(|i| i.ifdata_valid);
            if !log.is_empty() || !valid {
                rec.violation(
                    "A2ML include of an A2ML block inside an include file is not resolved relative to that file",
                    &format!("log: {:?}; IF_DATA valid: {valid}", log.iter().map(|e| e.to_string()).collect::<Vec<_>>()),
                    w,
                );
            }
        }
    }
    let _ = std::fs::remove_dir_all(&root);
}

/// /include inside IF_DATA that is interpreted with the A2ML block of the file: the included tokens
/// end up in tagged items that sit inside repeated structs and arrays of the generic IF_DATA tree
fn interpreted_ifdata_include_case(rng: &mut Rng, rec: &mut Recorder, scratch: &Path, case: u64) {
    let root = scratch.join(format!("c16i_{case}"));
    let _ = std::fs::remove_dir_all(&root);
    std::fs::create_dir_all(root.join("inc")).unwrap();
    // one case in four: an A2ML text that cannot be interpreted (reported, text kept): the IF_DATA
    // is then uninterpreted data, and the A2ML block must survive merge_includes() like any other
    let broken_a2ml = rng.chance(1, 4);
    let a2ml = if broken_a2ml {
        rec.bump("include_inside_if_data.with_uninterpretable_a2ml");
        "block \"IF_DATA\" struct { unknown_type x; };"
    } else {
        "block \"IF_DATA\" taggedunion {\n  \"SEQ\" (struct { uint; taggedstruct { \"T\" uint; (\"R\" uint)*; block \"B\" struct { uint; }; }; })*;\n  \"ARR\" struct { uint; taggedstruct { \"T\" uint; (\"R\" uint)*; }; }[2];\n  \"TOP\" taggedstruct { \"T\" uint; (\"R\" uint)*; };\n};"
    };
    let ctx = if broken_a2ml { "(include inside IF_DATA, uninterpretable A2ML block)" } else { "(include inside interpreted IF_DATA)" };
    let n1 = rng.below(100);
    let n2 = rng.below(100);
    // (IF_DATA text with an include directive, content of the include file)
    let variants: [(String, String); 5] = [
        (format!("SEQ 10 /include inc/t.a2l 20 T {n2}"), format!("T {n1} R 1 R 2")),
        (format!("SEQ 10 T {n1} /include \"inc/t.a2l\" 20"), format!("R 3 /begin B {n2} /end B")),
        (format!("ARR 10 /include inc\\t.a2l 20 T {n2}"), format!("T {n1} R 4")),
        (format!("ARR 10 T {n1} 20 /include inc/t.a2l"), format!("T {n2} R 5 R 6")),
        (format!("TOP /include inc/t.a2l R 9"), format!("T {n1} R 7")),
    ];
    let (body, inc) = &variants[rng.below(variants.len())];
    let host = rng.below(2);
    let wrap = |ifd: &str| -> String {
        let ifdata = format!("/begin IF_DATA {ifd} /end IF_DATA");
        let inner = if host == 0 {
            ifdata
        } else {
            format!("/begin MEASUREMENT x \"\" UBYTE NO_COMPU_METHOD 0 0 0 255\n{ifdata}\n/end MEASUREMENT")
        };
        format!("ASAP2_VERSION 1 71\n/begin PROJECT p \"\"\n/begin MODULE m \"\"\n/begin A2ML\n{a2ml}\n/end A2ML\n{inner}\n/end MODULE\n/end PROJECT\n")
    };
    let main_text = wrap(body);
    let flat_body = {
        let at = body.find("/include").unwrap();
        let rest = &body[at + 8..];
        let rest = rest.trim_start();
        let name_end = rest.find(char::is_whitespace).unwrap_or(rest.len());
        format!("{}{} {}", &body[..at], inc, &rest[name_end..])
    };
    let flat_text = wrap(&flat_body);
    std::fs::write(root.join("inc/t.a2l"), inc).unwrap();
    let main = root.join("main.a2l");
    std::fs::write(&main, &main_text).unwrap();
    rec.eval();
    rec.bump("include_inside_interpreted_if_data");
    rec.nontrivial(format!("{main_text}|{inc}").as_bytes());
    let w = Json::obj().with("main.a2l", Json::s(&main_text)).with("inc/t.a2l", Json::s(inc)).with("flattened", Json::s(&flat_text));
    let reference = match load_str(&flat_text, false) {
        Ok(Ok((m, _))) => m,
        _ => {
            rec.bump("include_inside_interpreted_if_data.flat_rejected");
            let _ = std::fs::remove_dir_all(&root);
            return;
        }
    };
    let all_valid = |f: &a2lfile::A2lFile| f.project.module[0].if_data.iter().chain(f.project.module[0].measurement.iter().flat_map(|m| m.if_data.iter())).all(|i| i.ifdata_valid);
    if !broken_a2ml {
        if all_valid(&reference) {
            rec.bump("include_inside_interpreted_if_data.valid");
        } else {
            rec.bump("include_inside_interpreted_if_data.flat_not_valid");
        }
    }
    match guarded(|| a2lfile::load(&main, None, false)) {
        Err((sig, detail)) => rec.violation(&sig, &detail, w),
        Ok(Err(e)) => rec.violation(
            &format!("file with an include inside interpreted IF_DATA is rejected: {}", crate::gram::err_class(&e)),
            &e.to_string(),
            w,
        ),
        Ok(Ok((m, _))) => {
            if m != reference {
                rec.violation(
                    &format!("model loaded through /include differs from the model of the flattened text {ctx}"),
                    &crate::c01::model_diff(&reference, &m),
                    w,
                );
            } else {
                // an A2ML text edited through the API is content of the model: merge_includes() resolves
                // include directives, it does not bring back the text that was parsed
                if rng.chance(1, 3) {
                    let mut me = m.clone();
                    let marker = "\n/* edited through the API */\n";
                    if let Some(a) = &mut me.project.module[0].a2ml {
                        a.a2ml_text.push_str(marker);
                    }
                    rec.bump("a2ml_text_edited_before_merge_includes");
                    if guarded(|| me.merge_includes()).is_ok() {
                        let kept = me.project.module[0].a2ml.as_ref().is_some_and(|a| a.a2ml_text.contains("edited through the API"));
                        if !kept {
                            rec.violation(
                                "merge_includes() discards an edit of a2ml_text (the A2ML block has no include directive)",
                                "the text parsed at load time is restored",
                                w.clone(),
                            );
                        }
                    }
                }
                let mut mm = m.clone();
                if let Err((sig, detail)) = guarded(|| mm.merge_includes()) {
                    rec.violation(&sig, &detail, w);
                } else {
                    let out = mm.write_to_string();
                    if out.contains("/include") {
                        rec.violation(
                            &format!("output of merge_includes() still contains an /include directive {ctx}"),
                            &clip(&out, 1200),
                            w,
                        );
                    } else {
                        match load_str(&out, false) {
                            Ok(Ok((m3, _))) if m3 == reference => {}
                            Ok(Ok((m3, _))) => rec.violation(
                                &format!("model of the merge_includes() output differs {ctx}"),
                                &crate::c01::model_diff(&reference, &m3),
                                w,
                            ),
                            _ => rec.violation(&format!("output of merge_includes() does not load {ctx}"), &clip(&out, 1200), w),
                        }
                    }
                }
            }
        }
    }
    let _ = std::fs::remove_dir_all(&root);
}

/// An include file uses, for its own nested include, the relative name by which it was included
/// itself: relative to its own directory this is another file, not a recursion.
fn same_relative_name_case(rng: &mut Rng, rec: &mut Recorder, scratch: &Path, case: u64) {
    let root = scratch.join(format!("c16n_{case}"));
    let _ = std::fs::remove_dir_all(&root);
    let levels = rng.urange(2, 3);
    let (dir, file) = *rng.pick(&[("inc", "part.a2l"), ("sub", "main.a2l"), ("a", "a.a")]);
    let rel = format!("{dir}/{file}");
    let spelled = match rng.below(3) {
        0 => format!("\"{rel}\""),
        1 => rel.clone(),
        _ => format!("{dir}\\{file}"),
    };
    let head = "ASAP2_VERSION 1 71\n/begin PROJECT p \"\"\n/begin MODULE m \"\"\n";
    let tail = "/end MODULE\n/end PROJECT\n";
    let mut flat = String::from(head);
    let mut cur = root.clone();
    std::fs::create_dir_all(&cur).unwrap();
    std::fs::write(cur.join("main.a2l"), format!("{head}/include {spelled}\n{tail}")).unwrap();
    for l in 0..levels {
        cur = cur.join(dir);
        std::fs::create_dir_all(&cur).unwrap();
        let body = format!("/begin MEASUREMENT level{l} \"\" UBYTE NO_COMPU_METHOD 0 0 0 255\n/end MEASUREMENT\n");
        flat.push_str(&body);
        let nested = if l + 1 < levels { format!("/include {spelled}\n") } else { String::new() };
        std::fs::write(cur.join(file), format!("{body}{nested}")).unwrap();
    }
    flat.push_str(tail);
    rec.eval();
    rec.bump("same_relative_name_on_nested_levels");
    rec.nontrivial(format!("{rel}|{levels}|{spelled}").as_bytes());
    let w = Json::obj()
        .with("case", Json::s("nested include directives with the same relative name (different files)"))
        .with("directive", Json::s(&spelled))
        .with("levels", Json::UInt(levels as u64));
    let main_path = root.join("main.a2l");
    let strict = rng.coin();
    crate::util::set_budget(200_000);
    let loaded = guarded(|| a2lfile::load(&main_path, None, strict));
    crate::util::reset_budget();
    match loaded {
        Err((sig, detail)) => rec.violation(&format!("{sig} [same relative include name on nested levels]"), &detail, w),
        Ok(Err(e)) => rec.violation(
            &format!("nested include files with the same relative name are rejected: {}", crate::gram::err_class(&e)),
            &e.to_string(),
            w,
        ),
        Ok(Ok((m, _))) => {
            if let Ok(Ok((r, _))) = load_str(&flat, false) {
                if r != m {
                    rec.violation(
                        "model loaded through /include differs from the model of the flattened text [same relative include name on nested levels]",
                        &crate::c01::model_diff(&r, &m),
                        w,
                    );
                }
            }
        }
    }
    let _ = std::fs::remove_dir_all(&root);
}

fn fault_case(rng: &mut Rng, rec: &mut Recorder, scratch: &Path, case: u64) {
    if case % 16 == 2 {
        same_relative_name_case(rng, rec, scratch, case);
        return;
    }
    if case % 4 == 3 {
        shared_include_case(rng, rec, scratch, case);
        return;
    }
    if case % 4 == 1 && case % 8 == 5 {
        a2ml_in_include_file_case(rng, rec, scratch, case);
        return;
    }
    let root = scratch.join(format!("c16f_{case}"));
    let _ = std::fs::remove_dir_all(&root);
    std::fs::create_dir_all(root.join("sub")).unwrap();
    let main = root.join("main.a2l");
    let head = "ASAP2_VERSION 1 71\n/begin PROJECT p \"\"\n/begin MODULE m \"\"\n";
    let tail = "\n/end MODULE\n/end PROJECT\n";
    let kind = rng.below(10);
    if kind >= 7 {
        // faults of /include directives inside the A2ML block: reported as an A2ML problem (log entry
        // in non-strict mode, error in strict mode), never a panic, abort or silent success
        let (label, incname): (&str, &str) = match kind {
            7 => {
                std::fs::write(root.join("self.aml"), "block \"IF_DATA\" struct { int; };\n/include \"self.aml\"\n").unwrap();
                ("a2ml_self_inclusion", "self.aml")
            }
            8 => {
                std::fs::write(root.join("sub/a.aml"), "struct A { int; };\n/include b.aml\n").unwrap();
                std::fs::write(root.join("sub/b.aml"), "struct B { int; };\n/include \"a.aml\"\n").unwrap();
                ("a2ml_mutual_inclusion", "sub/a.aml")
            }
            _ => ("a2ml_missing_file", "nowhere.aml"),
        };
        let text = format!("{head}/begin A2ML\n  /include \"{incname}\"\n/end A2ML{tail}");
        std::fs::write(&main, &text).unwrap();
        rec.eval();
        rec.label(&format!("include fault {label}"));
        rec.bump(&format!("fault.{label}"));
        rec.nontrivial(format!("{label}{incname}").as_bytes());
        let strict = rng.coin();
        crate::util::set_budget(200_000);
        let r = guarded(|| a2lfile::load(&main, None, strict));
        crate::util::reset_budget();
        let w = Json::obj().with("fault", Json::s(label)).with("main", Json::s(&text));
        match r {
            Err((sig, detail)) => rec.violation(&format!("{sig} [{label}]"), &detail, w),
            Ok(Ok((_, log))) => {
                if !log.iter().any(|e| e.to_string().contains("A2ML")) {
                    rec.violation(
                        &format!("include fault not reported: {label}"),
                        &format!("load returned Ok with log {:?}", log.iter().map(|e| e.to_string()).collect::<Vec<_>>()),
                        w,
                    );
                }
            }
            Ok(Err(e)) => {
                if !e.to_string().contains("A2ML") {
                    rec.violation(&format!("include fault reported by an unrelated error: {label}"), &e.to_string(), w);
                }
            }
        }
        let _ = std::fs::remove_dir_all(&root);
        return;
    }
    let (label, incname, expect_err): (&str, String, bool) = match kind {
        0 => ("missing_file", "nowhere.a2l".into(), true),
        1 => {
            std::fs::create_dir_all(root.join("adir.a2l")).unwrap();
            ("directory_instead_of_file", "adir.a2l".into(), true)
        }
        2 => {
            std::fs::write(root.join("empty.a2l"), "").unwrap();
            ("empty_file", "empty.a2l".into(), false)
        }
        3 => ("self_inclusion", "main.a2l".into(), true),
        4 => {
            std::fs::write(root.join("sub/a.a2l"), "/include b.a2l\n").unwrap();
            std::fs::write(root.join("sub/b.a2l"), "/include a.a2l\n").unwrap();
            ("mutual_inclusion", "sub/a.a2l".into(), true)
        }
        5 => {
            std::fs::write(root.join("sub/a.a2l"), "/include nowhere2.a2l\n").unwrap();
            ("missing_file_in_nested_include", "sub/a.a2l".into(), true)
        }
        _ => ("include_without_filename", String::new(), true),
    };
    let directive = if incname.is_empty() {
        "/include".to_string()
    } else if rng.coin() {
        format!("/include \"{incname}\"")
    } else {
        format!("/include {incname}")
    };
    let text = format!("{head}{directive}{tail}");
    std::fs::write(&main, &text).unwrap();
    rec.eval();
    rec.label(&format!("include fault {label}"));
    rec.bump(&format!("fault.{label}"));
    rec.nontrivial(format!("{label}{directive}").as_bytes());
    crate::util::set_budget(200_000);
    let r = guarded(|| a2lfile::load(&main, None, rng.coin()));
    crate::util::reset_budget();
    let w = Json::obj().with("fault", Json::s(label)).with("main", Json::s(&text));
    match r {
        Err((sig, detail)) => rec.violation(&format!("{sig} [{label}]"), &detail, w),
        Ok(Ok(_)) => {
            if expect_err {
                rec.violation(
                    &format!("include fault not reported: {label}"),
                    "load returned Ok (partial result)",
                    w,
                );
            }
        }
        Ok(Err(e)) => {
            if !expect_err {
                rec.violation(
                    &format!("include of an {label} is rejected"),
                    &e.to_string(),
                    w,
                );
                return;
            }
            // the error must name the directive (the include name), not be some follow-up parse error
            let names_it = match &e {
                A2lError::TokenizerError { tokenizer_error } => {
                    let d = format!("{tokenizer_error:?}");
                    d.contains("IncludeFileError") || d.contains("IncompleteIncludeError")
                }
                _ => false,
            };
            if !names_it {
                rec.violation(
                    &format!("include fault reported by an unrelated error: {label}"),
                    &e.to_string(),
                    w,
                );
            }
        }
    }
    let _ = std::fs::remove_dir_all(&root);
}

/// build a file tree with includes for the totality monitor (C03); returns the main file
pub fn make_tree(rng: &mut Rng, g: &Grammar, scratch: &Path, case: u64) -> Option<PathBuf> {
    let max_level = rng.urange(1, 3);
    make_tree_levels(rng, g, scratch, case, max_level)
}

/// like make_tree, include files nested at most `max_level` deep
pub fn make_tree_levels(rng: &mut Rng, g: &Grammar, scratch: &Path, case: u64, max_level: usize) -> Option<PathBuf> {
    let mut cfg = crate::c01::gen_cfg_wide(rng, false);
    cfg.max_elems = 60;
    cfg.a2ml = false;
    let mut gen = DocGen::new(g, cfg);
    let mut doc = gen.gen_doc(rng);
    let mut pieces = Vec::new();
    let mut info = Split {
        pieces: Vec::new(),
        levels: 0,
        nested_sibling_in_subdir: false,
    };
    let mut counter = 0;
    {
        let project = doc.project_mut();
        for c in project.children.iter_mut() {
            if let Child::Elem(m) = c {
                if m.tag == "MODULE" {
                    split_children(rng, &mut m.children, "main.a2l", 0, max_level, &mut counter, &mut pieces, &mut info, false);
                }
            }
        }
    }
    if pieces.is_empty() {
        return None;
    }
    pieces.push(Piece {
        rel: "main.a2l".into(),
        children: Vec::new(),
        doc: Some(doc),
    });
    info.pieces = pieces;
    let w = write_tree(rng, scratch, case, &info);
    Some(w.main)
}

pub fn run(args: &Args, rec: &mut Recorder) {
    rec.rule = "evaluation = one generated document split at element boundaries into a main file and include files (1-3 levels, sub-directories, quoted/unquoted names, / and \\ separators, include directives inside nested blocks and in the A2ML block) written to a fresh directory tree: load(main) must equal load_from_string(text with every directive replaced by the file content); the file written next to main must reload to an equal model and keep the directives of the main file; after merge_includes() the text must contain no /include and load to an equal model; plus one evaluation per fault case (missing file, directory instead of file, empty file, self inclusion, mutual inclusion, missing nested file, directive without name) which must end in an error naming the directive. distinct_nontrivial = distinct file trees by content hash".into();
    rec.assumptions.push("include files hold runs of complete sibling elements; an empty include file is transparent (no fault)".into());
    let g = Grammar::load_default();
    let total: u64 = if args.thorough { 100_000 } else { 10_000 };
    let n_faults: u64 = if args.thorough { 1_000 } else { 300 };
    let scratch = crate::c03::scratch_dir(args);
    run_cases(args, rec, total + n_faults, crate::util::reset_budget, |rng, case, rec| {
        if case < n_faults {
            fault_case(rng, rec, &scratch, case);
            return None;
        }
        if case % 25 == 11 {
            interpreted_ifdata_include_case(rng, rec, &scratch, case);
            return None;
        }
        let mut cfg = crate::c01::gen_cfg_wide(rng, false);
        cfg.max_elems = *rng.pick(&[20usize, 60, 120]);
        cfg.comments_pct = *rng.pick(&[5u32, 5, 30]);
        cfg.multiline_comments = false;
        cfg.a2ml = false;
        // RESERVED items in position order: their reordering on write is C01's known finding, not C16's business
        // (the other position-restricted items may stand in any order: the writer reorders them, also
        // across the boundary between an include file and the file that includes it)
        cfg.canonical_positions = rng.coin();
        cfg.reserved_ascending = true;
        if !cfg.canonical_positions {
            rec.bump("trees.with_shuffled_record_layout_positions");
        }
        let mut gen = DocGen::new(&g, cfg);
        let mut doc = gen.gen_doc(rng);
        let max_level = rng.urange(1, 3);
        let mut pieces = Vec::new();
        let mut info = Split {
            pieces: Vec::new(),
            levels: 0,
            nested_sibling_in_subdir: false,
        };
        let mut counter = 0;
        {
            let project = doc.project_mut();
            // includes inside MODULE bodies (and deeper)
            for c in project.children.iter_mut() {
                if let Child::Elem(m) = c {
                    if m.tag == "MODULE" {
                        split_children(rng, &mut m.children, "main.a2l", 0, max_level, &mut counter, &mut pieces, &mut info, false);
                    }
                }
            }
        }
        // optionally an A2ML block whose type definition lives in an include file
        let mut a2ml_inc: Option<(String, String)> = None;
        if rng.chance(1, 4) {
            let inc_text = "struct inc_t { uint; ulong; };\n";
            let quoted_at_will = rng.coin();
            // (a name with "/end" in it: the raw A2ML text ends at /end A2ML, not at any /end...)
            // (in a quoted name any character may occur, as in a quoted A2L-level directive)
            let name = *rng.pick(&["sub/types.aml", "sub/endian.aml", "end/types.aml", "sub/my-types.aml", "sub/my types (v2).aml"]);
            let quoted = quoted_at_will || name.contains('-') || name.contains(' ');
            let directive = if quoted { format!("/include \"{name}\"") } else { format!("/include {name}") };
            let a2ml_text = format!("\n {directive}\n block \"IF_DATA\" taggedunion {{ \"INCX\" struct inc_t; }};\n");
            let mut a2ml = Elem::new("A2ML", true, false);
            a2ml.params.push(Tok {
                kind: TK::A2ml,
                text: a2ml_text.clone(),
                val: vcommon::doc::Val::Raw(a2ml_text),
            });
            let mut ifd = Elem::new("IF_DATA", true, false);
            ifd.params = vec![Tok::word(TK::Ident, "INCX"), Tok::int(5, "5".into()), Tok::int(70000, "70000".into())];
            let module = crate::c02::first_module_mut(&mut doc);
            module.children.insert(0, Child::Elem(a2ml));
            module.children.push(Child::Elem(ifd));
            a2ml_inc = Some((name.to_string(), inc_text.to_string()));
            rec.bump("a2ml_block_with_include");
        }
        // optionally an include inside an IF_DATA payload (below its top-level tag)
        if rng.chance(1, 3) {
            let project = doc.project_mut();
            if split_ifdata(rng, &mut project.children, &mut counter, &mut pieces) {
                rec.bump("include_inside_if_data");
            }
        }
        if pieces.is_empty() && a2ml_inc.is_none() {
            rec.bump("skipped.no_include_generated");
            return None;
        }
        pieces.push(Piece {
            rel: "main.a2l".into(),
            children: Vec::new(),
            doc: Some(doc.clone()),
        });
        info.pieces = pieces;
        let mut w = write_tree(rng, &scratch, case, &info);
        if let Some((name, text)) = &a2ml_inc {
            let p = w.root.join(name);
            std::fs::create_dir_all(p.parent().unwrap()).unwrap();
            std::fs::write(&p, text).unwrap();
            // flattened form of the A2ML include
            w.flattened = w.flattened.replace(&format!("/include \"{name}\""), text);
            w.texts.push((name.clone(), text.clone()));
        }
        rec.eval();
        let mut key = String::new();
        for (r, t) in &w.texts {
            key.push_str(r);
            key.push_str(t);
        }
        rec.nontrivial(key.as_bytes());
        rec.bump(&format!("levels.{}", info.levels));
        rec.bump(&format!("include_files.{}", (w.texts.len() - 1).min(6)));
        if rec.want_sample() && case % 53 == 7 {
            rec.sample(witness(&w, "sample"));
        }
        let note = format!("levels={} nested_sibling_in_subdir={}", info.levels, info.nested_sibling_in_subdir);
        // ---- 1. transparency
        crate::util::set_budget(crate::c03::step_budget(w.flattened.len() * 2));
        let loaded = guarded(|| a2lfile::load(&w.main, None, false));
        crate::util::reset_budget();
        let (m, log) = match loaded {
            Err((sig, detail)) => {
                rec.violation(&sig, &detail, witness(&w, &note));
                return None;
            }
            Ok(Err(e)) => {
                rec.violation(
                    &format!("file with includes is rejected: {}", crate::gram::err_class(&e)),
                    &e.to_string(),
                    witness(&w, &note),
                );
                return None;
            }
            Ok(Ok(v)) => v,
        };
        let reference = match load_str(&w.flattened, false) {
            Ok(Ok(v)) => v,
            other => {
                rec.bump("flattened_rejected");
                rec.notes.push(format!("flattened text rejected: {:?}", other.map(|r| r.map(|_| ()).map_err(|e| e.to_string()))));
                return None;
            }
        };
        // the A2ML block keeps its text with the directive (it is written back that way); its
        // expanded form is compared after merge_includes() below
        let mut m_cmp = m.clone();
        if a2ml_inc.is_some() {
            for (mc, mr) in m_cmp.project.module.iter_mut().zip(reference.0.project.module.iter()) {
                mc.a2ml = mr.a2ml.clone();
            }
        }
        if m_cmp != reference.0 {
            rec.violation(
                "model loaded through /include differs from the model of the flattened text",
                &crate::c01::model_diff(&reference.0, &m),
                witness(&w, &note),
            );
            return None;
        }
        if log.len() != reference.1.len() {
            rec.violation(
                "diagnostics of the file with includes differ from those of the flattened text",
                &format!("{} vs {}", log.len(), reference.1.len()),
                witness(&w, &note),
            );
        }
        // ---- 2. write next to main, reload
        let written_path = w.root.join("written.a2l");
        let written_text = m.write_to_string();
        std::fs::write(&written_path, &written_text).unwrap();
        let n_dir_main = w.texts.iter().find(|(r, _)| r == "main.a2l").map_or(0, |(_, t)| t.matches("/include").count());
        let n_dir_written = written_text.matches("/include").count();
        let known_shape = info.nested_sibling_in_subdir;
        let suffix = if known_shape { " [nested include: sibling run of an include file moved to a deeper include file]" } else { "" };
        let reload = guarded(|| a2lfile::load(&written_path, None, false));
        match reload {
            Err((sig, detail)) => rec.violation(&format!("{sig} in reload of the written file"), &detail, witness(&w, &note)),
            Ok(Err(e)) => rec.violation(
                &format!("written file with include directives does not load{suffix}"),
                &format!("{e}; written text: {}", clip(&written_text, 1500)),
                witness(&w, &note),
            ),
            Ok(Ok((m2, _))) => {
                if m2 == m && !known_shape {
                    // writing the reloaded model must reproduce the written file (nothing may pile up
                    // in the main file from cycle to cycle)
                    // (compared as token sequences incl. comments: the white space between an include
                    // directive and its neighbours is not covered by the property)
                    let w2 = m2.write_to_string();
                    if let (Ok(t1), Ok(t2)) = (vcommon::lexer::lex(&written_text), vcommon::lexer::lex(&w2)) {
                        // as multisets: the order of items around an include directive inside a block
                        // whose items the writer reorders (RECORD_LAYOUT) may differ between cycles
                        let mut a: Vec<String> = t1.iter().map(|t| t.text.trim().to_string()).collect();
                        let mut b: Vec<String> = t2.iter().map(|t| t.text.trim().to_string()).collect();
                        a.sort();
                        b.sort();
                        if a != b {
                            let extra: Vec<&String> = b.iter().filter(|x| a.iter().filter(|y| y == x).count() < b.iter().filter(|y| y == x).count()).take(3).collect();
                            rec.violation(
                                "tokens written after reloading the written file differ (something piles up in a file with includes)",
                                &format!("{} vs {} tokens; more often in the second text: {extra:?}", t1.len(), t2.len()),
                                witness(&w, &note),
                            );
                        }
                    }
                    rec.bump("written_file_fixpoint_checked");
                }
                if m2 != m {
                    // known shape: the include directive is written at the place of the first item of
                    // the include file; if position-restricted items of a RECORD_LAYOUT are reordered
                    // around it, RESERVED items of the include file and of the main file change their
                    // relative order (the RESERVED list is the only ordered content of a RECORD_LAYOUT)
                    let mut n1 = m.clone();
                    let mut n2 = m2.clone();
                    crate::c01::normalise_reserved(&mut n1);
                    crate::c01::normalise_reserved(&mut n2);
                    let suffix = if suffix.is_empty() && n1 == n2 {
                        " only in the order of RESERVED items [include directive inside a RECORD_LAYOUT whose items are not in position order]"
                    } else {
                        suffix
                    };
                    rec.violation(
                        &format!("model reloaded from the written file differs{suffix}"),
                        &format!("{}; written text: {}", crate::c01::model_diff(&m, &m2), clip(&written_text, 1500)),
                        witness(&w, &note),
                    );
                }
            }
        }
        if n_dir_written != n_dir_main && !known_shape {
            rec.violation(
                "written file does not reproduce the include directives of the main file",
                &format!("{n_dir_main} directives in the input, {n_dir_written} in the written text: {}", clip(&written_text, 1500)),
                witness(&w, &note),
            );
        }
        // ---- 3. merge_includes
        let mut mm = m.clone();
        if let Err((sig, detail)) = guarded(|| mm.merge_includes()) {
            rec.violation(&sig, &detail, witness(&w, &note));
            return None;
        }
        let merged_text = mm.write_to_string();
        if merged_text.contains("/include") {
            rec.violation(
                "output of merge_includes() still contains an /include directive",
                &clip(&merged_text, 1500),
                witness(&w, &note),
            );
        } else {
            match load_str(&merged_text, false) {
                Ok(Ok((m3, _))) => {
                    // the expanded A2ML text is compared modulo whitespace
                    // (both comparisons modulo the order of RESERVED items that are not in position
                    // order in the input: writing permutes them, which is C01's known finding)
                    let squeeze = |f: &a2lfile::A2lFile| {
                        let mut f = f.clone();
                        crate::c01::normalise_reserved(&mut f);
                        for module in f.project.module.iter_mut() {
                            if let Some(a) = &mut module.a2ml {
                                a.a2ml_text = a.a2ml_text.split_whitespace().collect::<Vec<_>>().join(" ");
                            }
                        }
                        f
                    };
                    if a2ml_inc.is_some() && squeeze(&m3) != squeeze(&reference.0) {
                        rec.violation(
                            "merge_includes() output differs from the flattened text (A2ML include)",
                            &crate::c01::model_diff(&squeeze(&reference.0), &squeeze(&m3)),
                            witness(&w, &note),
                        );
                    }
                    let modulo_reserved = |f: &a2lfile::A2lFile| {
                        let mut f = f.clone();
                        crate::c01::normalise_reserved(&mut f);
                        f
                    };
                    if a2ml_inc.is_none() && m3 != m && modulo_reserved(&m3) != modulo_reserved(&m) {
                        rec.violation(
                            "model of the merge_includes() output differs",
                            &crate::c01::model_diff(&m, &m3),
                            witness(&w, &note),
                        );
                    }
                }
                Ok(Err(e)) => rec.violation(
                    "output of merge_includes() does not load",
                    &e.to_string(),
                    witness(&w, &note),
                ),
                Err((sig, detail)) => rec.violation(&sig, &detail, witness(&w, &note)),
            }
        }
        let _ = std::fs::remove_dir_all(&w.root);
        None
    });
    let _ = std::fs::remove_dir_all(&scratch);
    for k in ["levels.1", "levels.2", "a2ml_block_with_include", "include_inside_if_data", "fault.missing_file", "fault.directory_instead_of_file",
        "fault.empty_file", "fault.self_inclusion", "fault.mutual_inclusion", "fault.missing_file_in_nested_include",
        "fault.a2ml_self_inclusion", "fault.a2ml_mutual_inclusion", "fault.a2ml_missing_file", "shared_include.direct", "shared_include.diamond", "a2ml_block_in_include_file", "same_relative_name_on_nested_levels"] {
        rec.floor(k, 2);
    }
}
