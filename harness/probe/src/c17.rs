//! C17 — the loaded model does not depend on the file's text encoding.

use crate::c01::witness_text;
use crate::gram::load_str;
use vcommon::docgen::DocGen;
use vcommon::grammar::Grammar;
use vcommon::json::{clip, Json};
use vcommon::layout::{render, LayoutCfg};
use vcommon::rng::Rng;
use vcommon::runtime::{guarded, run_cases, Args, Recorder};

pub const ENCODINGS: [&str; 10] = [
    "utf8", "utf8-bom", "utf16le", "utf16le-bom", "utf16be", "utf16be-bom", "utf32le", "utf32le-bom", "utf32be",
    "utf32be-bom",
];

pub fn encode(s: &str, enc: &str) -> Vec<u8> {
    let mut out = Vec::new();
    let bom = enc.ends_with("-bom");
    let base = enc.trim_end_matches("-bom");
    let text: String = if bom { format!("\u{feff}{s}") } else { s.to_string() };
    match base {
        "utf8" => out.extend_from_slice(text.as_bytes()),
        "utf16le" => {
            for u in text.encode_utf16() {
                out.extend_from_slice(&u.to_le_bytes());
            }
        }
        "utf16be" => {
            for u in text.encode_utf16() {
                out.extend_from_slice(&u.to_be_bytes());
            }
        }
        "utf32le" => {
            for c in text.chars() {
                out.extend_from_slice(&(c as u32).to_le_bytes());
            }
        }
        "utf32be" => {
            for c in text.chars() {
                out.extend_from_slice(&(c as u32).to_be_bytes());
            }
        }
        _ => unreachable!(),
    }
    out
}

pub fn run(args: &Args, rec: &mut Recorder) {
    rec.rule = "evaluation = one file (document x encoding x padding) loaded with load() and compared by model equality with load_from_string() of the decoded text; Latin-1 files (bytes 0x80-0xFF that are not valid UTF-8) must load as the text whose code points are the bytes; arbitrary byte strings must not make load() panic. distinct_nontrivial = distinct byte contents by hash".into();
    rec.assumptions.push("the first character of every document is ASCII (as the format requires); padding = trailing blanks/newlines so that the byte length covers every residue mod 4 the encoding permits".into());
    let g = Grammar::load_default();
    let n_docs: u64 = if args.thorough { 50_000 } else { 5_000 };
    let scratch = crate::c03::scratch_dir(args);
    run_cases(args, rec, n_docs, crate::util::reset_budget, |rng, case, rec| {
        let mut cfg = crate::c01::gen_cfg_wide(rng, false);
        cfg.max_elems = *rng.pick(&[6usize, 25, 80]);
        cfg.comments_pct = 10;
        let mut gen = DocGen::new(&g, cfg);
        let doc = gen.gen_doc(rng);
        let mut lc = if rng.coin() { LayoutCfg::c05(rng) } else { LayoutCfg::wide(rng) };
        lc.first_on_line1 = rng.coin();
        let mut text = render(&doc.flatten(), &lc, rng).text;
        // a comment at the very start whose text begins right behind the marker with a character
        // beyond Latin-1 (the encoding detection looks at the first bytes of the file)
        if rng.chance(1, 4) {
            let head = *rng.pick(&["/*中文 kommentar*/\n", "//€ preis\n", "/*Ω*/ ", "/*\u{1F600}*/\n", "//ж\n"]);
            text = format!("{head}{text}");
            rec.bump("docs.starting_with_a_non_latin1_comment");
        }
        // make sure non-ASCII, astral and combining characters occur in a comment too
        if rng.coin() {
            text.push_str("\n/* ünïcödé \u{1F600} a\u{0301} \u{10348} */\n");
        }
        let reference = match load_str(&text, false) {
            Ok(Ok((m, _))) => m,
            Ok(Err(_)) => {
                rec.bump("rejected");
                return None;
            }
            Err((sig, detail)) => {
                rec.violation(&sig, &detail, witness_text("C17", &text, ""));
                return None;
            }
        };
        let has_astral = text.chars().any(|c| (c as u32) > 0xFFFF);
        let has_non_ascii = !text.is_ascii();
        if has_astral {
            rec.bump("docs.with_astral_characters");
        }
        if has_non_ascii {
            rec.bump("docs.with_non_ascii");
        }
        for enc in ENCODINGS {
            for pad in 0..4usize {
                // quick tier: a random half of the paddings
                if !args.thorough && rng.coin() {
                    continue;
                }
                let padded = format!("{text}{}", &"  \n "[..pad]);
                let bytes = encode(&padded, enc);
                rec.eval();
                rec.nontrivial(&bytes);
                rec.bump(&format!("enc.{enc}.len%4={}", bytes.len() % 4));
                if rec.want_sample() && case % 53 == 1 && pad == 1 {
                    rec.sample(
                        Json::obj()
                            .with("encoding", Json::s(enc))
                            .with("bytes", Json::UInt(bytes.len() as u64))
                            .with("first_bytes_hex", Json::s(&bytes.iter().take(24).map(|b| format!("{b:02x}")).collect::<String>())),
                    );
                }
                let p = scratch.join("c17.a2l");
                std::fs::write(&p, &bytes).unwrap();
                let r = guarded(|| a2lfile::load(&p, None, false));
                let note = format!("encoding {enc}, {} bytes (len % 4 = {})", bytes.len(), bytes.len() % 4);
                match r {
                    Err((sig, detail)) => rec.violation(&sig, &detail, witness_text("C17", &padded, &note)),
                    Ok(Err(e)) => rec.violation(
                        &format!("file in encoding {enc} is rejected: {}", crate::gram::err_class(&e)),
                        &format!("{note}: {e}"),
                        witness_text("C17", &padded, &note),
                    ),
                    Ok(Ok((m, _))) => {
                        if m != reference {
                            rec.violation(
                                &format!("model loaded from a {enc} file differs from the model of the decoded text"),
                                &format!("{note}; {}", crate::c01::model_diff(&reference, &m)),
                                witness_text("C17", &padded, &note),
                            );
                        }
                    }
                }
            }
        }
        // ---- files that are not the top-level file: the body of the first MODULE as an include file
        // and as a fragment file (load_fragment_file), in every encoding
        if case % 3 == 1 {
            if let Some(module) = doc.project().find_first("MODULE") {
                let mut body = vcommon::doc::Flat::empty();
                for c in &module.children {
                    if let vcommon::doc::Child::Elem(e) = c {
                        // an A2ML block is raw text up to /end A2ML and IF_DATA depends on it: both stay
                        // in the picture, they are part of the body like everything else
                        vcommon::doc::flatten_elem(e, 0, u32::MAX, true, false, &mut body);
                    }
                }
                if !body.toks.is_empty() {
                    let mut body_text = render(&body, &lc, rng).text;
                    body_text.push_str("\n/* ünïcödé \u{1F600} */\n");
                    let head = "ASAP2_VERSION 1 71\n/begin PROJECT p \"\"\n/begin MODULE m \"\"\n";
                    let tail = "\n/end MODULE\n/end PROJECT\n";
                    let flat_text = format!("{head}{body_text}{tail}");
                    let main_text = format!("{head}/include \"c17inc.a2l\"{tail}");
                    let ref_file = load_str(&flat_text, false);
                    let ref_frag = guarded(|| a2lfile::load_fragment(&body_text, None));
                    for enc in ENCODINGS {
                        if !args.thorough && rng.chance(1, 2) {
                            continue;
                        }
                        let pad = rng.below(4);
                        let padded = format!("{body_text}{}", &"  \n "[..pad]);
                        let bytes = encode(&padded, enc);
                        let note = format!("include / fragment file in encoding {enc}, {} bytes", bytes.len());
                        // (a) as include file of a UTF-8 main file
                        if let Ok(Ok((reference, _))) = &ref_file {
                            rec.eval();
                            rec.nontrivial(&bytes);
                            rec.bump(&format!("include_file.enc.{enc}"));
                            std::fs::write(scratch.join("c17inc.a2l"), &bytes).unwrap();
                            let mp = scratch.join("c17main.a2l");
                            std::fs::write(&mp, &main_text).unwrap();
                            match guarded(|| a2lfile::load(&mp, None, false)) {
                                Err((sig, detail)) => rec.violation(&sig, &detail, witness_text("C17 include file", &padded, &note)),
                                Ok(Err(e)) => rec.violation(
                                    &format!("include file in encoding {enc} is rejected: {}", crate::gram::err_class(&e)),
                                    &format!("{note}: {e}"),
                                    witness_text("C17 include file", &padded, &note),
                                ),
                                Ok(Ok((m, _))) => {
                                    if &m != reference {
                                        rec.violation(
                                            &format!("model loaded through an include file in encoding {enc} differs from the model of the decoded text"),
                                            &format!("{note}; {}", crate::c01::model_diff(reference, &m)),
                                            witness_text("C17 include file", &padded, &note),
                                        );
                                    }
                                }
                            }
                        }
                        // (b) as fragment file
                        if let Ok(Ok(reference)) = &ref_frag {
                            rec.eval();
                            rec.bump(&format!("fragment_file.enc.{enc}"));
                            let fp = scratch.join("c17frag.a2l");
                            std::fs::write(&fp, &bytes).unwrap();
                            match guarded(|| a2lfile::load_fragment_file(&fp, None)) {
                                Err((sig, detail)) => rec.violation(&sig, &detail, witness_text("C17 fragment file", &padded, &note)),
                                Ok(Err(e)) => rec.violation(
                                    &format!("fragment file in encoding {enc} is rejected: {}", crate::gram::err_class(&e)),
                                    &format!("{note}: {e}"),
                                    witness_text("C17 fragment file", &padded, &note),
                                ),
                                Ok(Ok(m)) => {
                                    if &m != reference {
                                        rec.violation(
                                            &format!("module loaded from a fragment file in encoding {enc} differs from load_fragment of the decoded text"),
                                            &note,
                                            witness_text("C17 fragment file", &padded, &note),
                                        );
                                    }
                                }
                            }
                        }
                    }
                }
            }
        }
        // ---- Latin-1: every non-ASCII character is replaced by one byte >= 0x80
        if case % 2 == 0 {
            let mut bytes = Vec::with_capacity(text.len());
            let mut expected = String::with_capacity(text.len());
            let mut k = 0u8;
            for c in text.chars() {
                if c.is_ascii() {
                    bytes.push(c as u8);
                    expected.push(c);
                } else if k % 3 == 0 {
                    // two bytes that happen to form a well-formed UTF-8 sequence: in a file that is not
                    // valid UTF-8 as a whole they are still two Latin-1 characters
                    k = k.wrapping_add(37);
                    bytes.extend_from_slice(&[0xC3, 0xA4]);
                    expected.push('\u{C3}');
                    expected.push('\u{A4}');
                } else {
                    let b = 0x80 + (k % 0x80);
                    k = k.wrapping_add(37);
                    bytes.push(b);
                    expected.push(char::from(b));
                }
            }
            // a lone byte that can never be part of valid UTF-8, at the very end
            bytes.extend_from_slice(b"\n/* \xE9 */\n");
            expected.push_str("\n/* \u{E9} */\n");
            if std::str::from_utf8(&bytes).is_err() {
                rec.eval();
                rec.bump("latin1.files");
                rec.nontrivial(&bytes);
                let p = scratch.join("c17l.a2l");
                std::fs::write(&p, &bytes).unwrap();
                let exp_model = load_str(&expected, false);
                let r = guarded(|| a2lfile::load(&p, None, false));
                match (r, exp_model) {
                    (Err((sig, detail)), _) => rec.violation(&sig, &detail, witness_text("C17 latin1", &expected, "")),
                    (Ok(Ok((m, _))), Ok(Ok((me, _)))) => {
                        if m != me {
                            rec.violation(
                                "Latin-1 file is not read as Latin-1",
                                &crate::c01::model_diff(&me, &m),
                                witness_text("C17 latin1", &expected, "bytes >= 0x80 must be read as the code points U+0080..U+00FF"),
                            );
                        }
                    }
                    (Ok(Err(e)), Ok(Ok(_))) => rec.violation(
                        &format!("Latin-1 file is rejected: {}", crate::gram::err_class(&e)),
                        &e.to_string(),
                        witness_text("C17 latin1", &expected, ""),
                    ),
                    _ => {}
                }
            }
        }
        // ---- UTF-16 with an unpaired surrogate is not valid Unicode (and, because of the byte 0xD8 in front
        // of a non-continuation byte, not valid UTF-8 either): such a file is read as Latin-1
        if case % 2 == 1 {
            let enc = *rng.pick(&["utf16le", "utf16le-bom", "utf16be", "utf16be-bom"]);
            let mut bytes = encode(&text, enc);
            let unit: [u8; 4] = match (enc.starts_with("utf16le"), rng.coin()) {
                // lone high surrogate U+D800 / lone low surrogate U+DC00, each followed by 'A'
                (true, true) => [0x00, 0xD8, 0x41, 0x00],
                (true, false) => [0x00, 0xDC, 0x41, 0x00],
                (false, true) => [0xD8, 0x00, 0x00, 0x41],
                (false, false) => [0xDC, 0x00, 0x00, 0x41],
            };
            // inside the trailing white space or a comment at the end, at an even offset
            let tail_open = encode("\n/* x", enc.trim_end_matches("-bom"));
            let tail_close = encode(" */\n", enc.trim_end_matches("-bom"));
            bytes.extend_from_slice(&tail_open);
            bytes.extend_from_slice(&unit);
            bytes.extend_from_slice(&tail_close);
            if std::str::from_utf8(&bytes).is_err() {
                let expected: String = bytes.iter().map(|b| char::from(*b)).collect();
                rec.eval();
                rec.bump("utf16_with_unpaired_surrogate.files");
                rec.nontrivial(&bytes);
                let p = scratch.join("c17s.a2l");
                std::fs::write(&p, &bytes).unwrap();
                let exp = load_str(&expected, false);
                crate::util::set_budget(crate::c03::step_budget(bytes.len() * 4));
                let r = guarded(|| a2lfile::load(&p, None, false));
                crate::util::reset_budget();
                let note = format!("{enc} text followed by a comment that holds the unpaired surrogate code unit {:02x}{:02x}", unit[0], unit[1]);
                match (r, exp) {
                    (Err((sig, detail)), _) => rec.violation(&sig, &detail, witness_text("C17 unpaired surrogate", &text, &note)),
                    (Ok(Ok((m, _))), Ok(Ok((me, _)))) => {
                        if m != me {
                            rec.violation("file that is not valid Unicode is not read as Latin-1", &crate::c01::model_diff(&me, &m), witness_text("C17 unpaired surrogate", &text, &note));
                        }
                    }
                    (Ok(Ok(_)), Ok(Err(e))) => rec.violation(
                        "file that is not valid Unicode is not read as Latin-1 (loads although its Latin-1 reading is rejected)",
                        &format!("{note}; the Latin-1 reading of the bytes is rejected with: {e}"),
                        witness_text("C17 unpaired surrogate", &text, &note),
                    ),
                    (Ok(Err(e)), Ok(Ok(_))) => rec.violation(
                        "file that is not valid Unicode is rejected although its Latin-1 reading loads",
                        &format!("{note}: {e}"),
                        witness_text("C17 unpaired surrogate", &text, &note),
                    ),
                    _ => {}
                }
            }
        }
        // ---- totality: corrupted encodings and random bytes
        for _ in 0..4 {
            let enc = *rng.pick(&ENCODINGS);
            let mut cut = text.len().min(600);
            while !text.is_char_boundary(cut) {
                cut -= 1;
            }
            let mut bytes = encode(&text[..cut], enc);
            match rng.below(4) {
                0 => {
                    let n = rng.urange(0, 64);
                    bytes = (0..n).map(|_| rng.next_u64() as u8).collect();
                }
                1 => {
                    let cut = rng.below(bytes.len() + 1);
                    bytes.truncate(cut);
                }
                2 => {
                    for _ in 0..rng.urange(1, 4) {
                        if !bytes.is_empty() {
                            let i = rng.below(bytes.len());
                            bytes[i] ^= 1 << rng.below(8);
                        }
                    }
                }
                _ => {
                    // lone surrogates / invalid code points
                    let at = rng.below(bytes.len() / 4 + 1) * 4;
                    let ins: &[u8] = if enc.starts_with("utf16") { &[0x00, 0xD8, 0x41, 0x00] } else { &[0xFF, 0xFF, 0xFF, 0x7F] };
                    for (k, b) in ins.iter().enumerate() {
                        bytes.insert((at + k).min(bytes.len()), *b);
                    }
                }
            }
            rec.eval();
            rec.bump("totality.byte_strings");
            rec.nontrivial(&bytes);
            let p = scratch.join("c17t.a2l");
            std::fs::write(&p, &bytes).unwrap();
            crate::util::set_budget(crate::c03::step_budget(bytes.len() * 4));
            let r = guarded(|| a2lfile::load(&p, None, rng.coin()));
            crate::util::reset_budget();
            if let Err((sig, detail)) = r {
                let hex: String = bytes.iter().take(2000).map(|b| format!("{b:02x}")).collect();
                rec.violation(&sig, &detail, Json::obj().with("bytes_hex", Json::s(&hex)).with("lossy", Json::s(&clip(&String::from_utf8_lossy(&bytes), 2000))));
            }
        }
        None
    });
    let _ = std::fs::remove_dir_all(&scratch);
    for enc in ENCODINGS {
        let residues: &[usize] = if enc.starts_with("utf32") {
            &[0]
        } else if enc.starts_with("utf16") {
            &[0, 2]
        } else {
            &[0, 1, 2, 3]
        };
        for r in residues {
            rec.floor(&format!("enc.{enc}.len%4={r}"), 3);
        }
    }
    rec.floor("docs.with_astral_characters", 5);
    rec.floor("latin1.files", 5);
    for enc in ENCODINGS {
        rec.floor(&format!("include_file.enc.{enc}"), 3);
        rec.floor(&format!("fragment_file.enc.{enc}"), 3);
    }
    rec.floor("utf16_with_unpaired_surrogate.files", 5);
    rec.floor("totality.byte_strings", 50);
}
