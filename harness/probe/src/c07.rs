//! C07 — non-strict recovery is local: insertion-locality monitor.

use crate::c01::witness_text;
use crate::gram::{err_class, load_str};
use vcommon::doc::{Child, Doc, Elem, Tok, TK};
use vcommon::docgen::DocGen;
use vcommon::grammar::{Grammar, Item, PType};
use vcommon::json::{clip, Json};
use vcommon::layout::{render, LayoutCfg};
use vcommon::rng::Rng;
use vcommon::runtime::{run_cases, Args, Recorder};
use vcommon::values;

fn ends_in_ident_list(g: &Grammar, tag: &str) -> bool {
    if !g.is_tag(tag) {
        return false;
    }
    match g.elem(tag).params.last() {
        Some(Item::Seq(fields, _)) => fields.iter().all(|f| f.ty == PType::Ident),
        _ => false,
    }
}

/// path = child indices from a top element down to the block; slot = insertion index in its children
#[derive(Clone, Debug)]
struct Slot {
    top: usize,
    path: Vec<usize>,
    index: usize,
    /// a bare keyword may not be inserted here (directly behind an open-ended identifier list)
    bare_excluded: bool,
    block_tag: String,
}

fn collect_slots(g: &Grammar, e: &Elem, top: usize, path: &mut Vec<usize>, out: &mut Vec<Slot>) {
    if e.has_opts && e.is_block {
        for idx in 0..=e.children.len() {
            // what precedes the slot (skipping comments)?
            let mut k = idx;
            let mut prev: Option<&Elem> = None;
            let mut at_start = true;
            while k > 0 {
                k -= 1;
                match &e.children[k] {
                    Child::Comment(_) => continue,
                    Child::Elem(p) => {
                        prev = Some(p);
                        at_start = false;
                        break;
                    }
                    Child::Raw(_) => {
                        at_start = false;
                        break;
                    }
                }
            }
            let bare_excluded = if at_start {
                ends_in_ident_list(g, &e.tag)
            } else {
                prev.is_some_and(|p| !p.is_block && ends_in_ident_list(g, &p.tag))
            };
            out.push(Slot {
                top,
                path: path.clone(),
                index: idx,
                bare_excluded,
                block_tag: e.tag.clone(),
            });
        }
    }
    for (i, c) in e.children.iter().enumerate() {
        if let Child::Elem(k) = c {
            path.push(i);
            collect_slots(g, k, top, path, out);
            path.pop();
        }
    }
}

fn is_payload_start(t: &vcommon::doc::FTok, tag: &str) -> bool {
    // the payload starts with /begin (block) or with the unknown tag itself
    (t.tok.kind == TK::Begin) || (t.tok.kind == TK::Tag && t.tok.text == tag)
}

fn elem_at<'a>(doc: &'a mut Doc, slot: &Slot) -> &'a mut Elem {
    let mut e = &mut doc.top[slot.top];
    for i in &slot.path {
        e = match &mut e.children[*i] {
            Child::Elem(k) => k,
            _ => unreachable!(),
        };
    }
    e
}

const UNKNOWN_TAGS: &[&str] = &["ZZ_UNKNOWN", "VENDOR_EXT", "zz_lower_kw", "X_1", "_PRIVATE.ext[0]"];

fn scalar(rng: &mut Rng, g: &Grammar, out: &mut Vec<Tok>) {
    let cfg = values::ValCfg {
        extremes: false,
        ..Default::default()
    };
    match rng.below(4) {
        0 => out.push(values::int_tok(rng, 32, true, &cfg)),
        1 => out.push(values::float_tok(rng, &cfg)),
        2 => out.push(values::string_tok(rng, &cfg)),
        _ => out.push(Tok::word(TK::Ident, &format!("zzarg_{}", values::gen_ident_text(rng, g, &cfg)))),
    }
}

fn unknown_block(rng: &mut Rng, g: &Grammar, tag: &str, depth: usize, out: &mut Vec<Tok>) {
    out.push(Tok::begin());
    out.push(Tok::word(TK::Tag, tag));
    for _ in 0..rng.below(4) {
        scalar(rng, g, out);
    }
    if rng.chance(1, 3) {
        out.push(Tok::comment("/* inside unknown */"));
    }
    if depth < 2 && rng.coin() {
        for _ in 0..rng.urange(1, 2) {
            // an inner block may carry the tag of the block around it: only the outermost /end TAG
            // ends the unknown element
            let inner = if rng.chance(1, 4) { tag.to_string() } else { format!("ZZ_INNER_{}", rng.below(5)) };
            unknown_block(rng, g, &inner, depth + 1, out);
            for _ in 0..rng.below(2) {
                scalar(rng, g, out);
            }
        }
    }
    out.push(Tok::end());
    if rng.chance(1, 5) {
        // comments can stand anywhere, also between /end and the tag
        out.push(Tok::comment(if rng.coin() { "/* end of unknown */" } else { "// end of unknown" }));
    }
    out.push(Tok::word(TK::EndTag, tag));
}

/// returns (payload tokens, tag, is_block)
fn gen_payload(rng: &mut Rng, g: &Grammar, allow_bare: bool) -> (Vec<Tok>, String, bool) {
    let tag = rng.pick(UNKNOWN_TAGS).to_string();
    let mut out = Vec::new();
    let block = !allow_bare || rng.coin();
    if block && rng.chance(1, 150) {
        // a deep chain of nested unknown blocks (the skip counts /begin and /end; real files never
        // nest this deep, but a counter must not depend on that)
        let depth = *rng.pick(&[100usize, 127, 128, 200, 260, 300, 1000]);
        out.push(Tok::begin());
        out.push(Tok::word(TK::Tag, &tag));
        for k in 0..depth {
            out.push(Tok::begin());
            out.push(Tok::word(TK::Tag, &format!("LEVEL_{k}")));
        }
        scalar(rng, g, &mut out);
        for k in (0..depth).rev() {
            out.push(Tok::end());
            out.push(Tok::word(TK::EndTag, &format!("LEVEL_{k}")));
        }
        out.push(Tok::end());
        out.push(Tok::word(TK::EndTag, &tag));
    } else if block {
        unknown_block(rng, g, &tag, 0, &mut out);
    } else {
        out.push(Tok::word(TK::Tag, &tag));
        for _ in 0..rng.below(5) {
            scalar(rng, g, &mut out);
        }
    }
    (out, tag, block)
}

/// The unknown element stands behind IF_DATA blocks that are interpreted with the A2ML block of the
/// file (generated definition, conforming instances): at the end of the MODULE, or at the end of the
/// element that hosts the last IF_DATA.
fn behind_interpreted_ifdata_case(rng: &mut Rng, rec: &mut Recorder, g: &Grammar) {
    let (text0, _flat, _n) = crate::c18::gen_conforming_document(rng);
    let (payload, tag, is_block) = gen_payload(rng, g, true);
    // (a line comment ends at the end of its line)
    let payload_text: String = payload.iter().map(|t| if t.text.starts_with("//") { format!("{}\n", t.text) } else { format!("{} ", t.text) }).collect();
    // insertion point: in front of the last `/end MODULE`
    let Some(at) = text0.rfind("/end MODULE") else { return };
    let at = text0[..at].rfind("/end").filter(|_| false).unwrap_or(at);
    let text = format!("{}{}\n{}", &text0[..at], payload_text, &text0[at..]);
    let (base_model, base_log) = match load_str(&text0, false) {
        Ok(Ok(v)) => v,
        _ => {
            rec.bump("baseline_rejected");
            return;
        }
    };
    let interpreted = {
        let m = &base_model.project.module[0];
        m.if_data.iter().any(|i| i.ifdata_valid) || m.measurement.iter().any(|x| x.if_data.iter().any(|i| i.ifdata_valid))
    };
    rec.eval();
    rec.nontrivial(text.as_bytes());
    rec.bump("behind_interpreted_if_data.docs");
    if interpreted {
        rec.bump("behind_interpreted_if_data.with_valid_if_data");
    }
    let sigctx = if is_block { "unknown block behind interpreted IF_DATA" } else { "unknown keyword behind interpreted IF_DATA" };
    let note = format!("inserted {tag} (block={is_block}) at the end of the MODULE of a document with A2ML-interpreted IF_DATA");
    match load_str(&text, false) {
        Err((sig, detail)) => rec.violation(&sig, &detail, witness_text("C07", &text, &note)),
        Ok(Err(e)) => rec.violation(&format!("{sigctx}: non-strict load fails: {}", err_class(&e)), &format!("{note}: {e}"), witness_text("C07", &text, &note)),
        Ok(Ok((model, log))) => {
            if model != base_model {
                rec.violation(
                    &format!("{sigctx}: model differs from the model without the unknown element"),
                    &format!("{note}; {}", crate::c01::model_diff(&base_model, &model)),
                    witness_text("C07", &text, &note),
                );
            }
            let n_unknown = log.iter().filter(|e| err_class(e) == "ParserError.UnknownSubBlock" && format!("{e:?}").contains(&format!("tag: \"{tag}\""))).count();
            if n_unknown != 1 || log.len() != base_log.len() + 1 {
                rec.violation(
                    &format!("{sigctx}: log is not the baseline log plus one UnknownSubBlock"),
                    &format!("{note}: {} entries (baseline {}), {n_unknown} naming the tag", log.len(), base_log.len()),
                    witness_text("C07", &text, &note),
                );
            }
        }
    }
    match load_str(&text, true) {
        Err((sig, detail)) => rec.violation(&sig, &detail, witness_text("C07", &text, &note)),
        Ok(Ok(_)) => rec.violation(&format!("{sigctx}: strict load accepts the unknown element"), &note, witness_text("C07", &text, &note)),
        Ok(Err(e)) => {
            // the documents of this generator may hold a deviating IF_DATA block (kept as data, no
            // diagnostic), so the first strict error is the unknown element
            if err_class(&e) != "ParserError.UnknownSubBlock" || !format!("{e:?}").contains(&format!("tag: \"{tag}\"")) {
                rec.violation(
                    &format!("{sigctx}: strict load fails with {} instead of UnknownSubBlock", err_class(&e)),
                    &format!("{note}: {e}"),
                    witness_text("C07", &text, &note),
                );
            }
        }
    }
}

pub fn run(args: &Args, rec: &mut Recorder) {
    rec.rule = "evaluation = one valid document with one unknown element inserted at one block-level slot, loaded in non-strict mode (model must equal the model of the unmodified document, log must be the baseline log plus exactly one UnknownSubBlock naming the inserted tag) and in strict mode (must fail with UnknownSubBlock naming the tag); distinct_nontrivial = distinct modified texts by content hash".into();
    rec.assumptions.push("payload words are disjoint from all grammar tags; a bare unknown keyword is not inserted directly behind an open-ended identifier list (there it is a list member by definition); slots are inside /begin../end blocks that have optional sub-elements".into());
    let g = Grammar::load_default();
    let n_docs: u64 = if args.thorough { 100_000 } else { 15_000 };
    let max_slots = if args.thorough { usize::MAX } else { 20 };
    let scratch = crate::c03::scratch_dir(args);
    run_cases(args, rec, n_docs, crate::util::reset_budget, |rng, case, rec| {
        if case % 12 == 5 {
            behind_interpreted_ifdata_case(rng, rec, &g);
            return None;
        }
        let mut cfg = crate::c01::gen_cfg_wide(rng, args.thorough);
        cfg.max_elems = *rng.pick(&[8usize, 30, 80]);
        let mut gen = DocGen::new(&g, cfg);
        let doc = gen.gen_doc(rng);
        let lc = if rng.coin() {
            LayoutCfg::c05(rng)
        } else {
            LayoutCfg::wide(rng)
        };
        let base_flat_len = doc.flatten().toks.len();
        let mut slots = Vec::new();
        for (ti, e) in doc.top.iter().enumerate() {
            let mut path = Vec::new();
            collect_slots(&g, e, ti, &mut path, &mut slots);
        }
        rng.shuffle(&mut slots);
        slots.truncate(max_slots);
        for slot in &slots {
            let (payload, tag, is_block) = gen_payload(rng, &g, !slot.bare_excluded);
            let mut d2 = doc.clone();
            elem_at(&mut d2, slot).children.insert(slot.index, Child::Raw(payload));
            let flat2 = d2.flatten();
            let r2 = render(&flat2, &lc, rng);
            let text = r2.text.clone();
            // the unmodified document: the same bytes without the payload (and the gap in front of it)
            let n_payload = flat2.toks.len() - base_flat_len;
            let first = flat2
                .toks
                .iter()
                .position(|t| t.in_ifdata && t.param_idx == -1 && flat2.elem_tags[t.elem as usize] == slot.block_tag && is_payload_start(t, &tag))
                .unwrap_or(0);
            let cut_from = r2.offsets[first].0;
            let cut_to = r2.offsets[first + n_payload - 1].1;
            let mut base_text = String::with_capacity(text.len());
            base_text.push_str(&text[..cut_from]);
            base_text.push_str(&text[cut_to..]);
            let (base_model, base_log) = match load_str(&base_text, false) {
                Err((sig, detail)) => {
                    rec.violation(&sig, &detail, witness_text("C07 baseline", &base_text, ""));
                    continue;
                }
                Ok(Err(e)) => {
                    rec.bump("baseline_rejected");
                    if rec.hist.get("baseline_rejected").copied().unwrap_or(0) <= 2 {
                        rec.notes.push(format!("baseline rejected: {e}"));
                    }
                    continue;
                }
                Ok(Ok(v)) => v,
            };
            let base_classes: Vec<String> = base_log.iter().map(err_class).collect();
            rec.bump("baseline_docs");
            rec.eval();
            rec.nontrivial(text.as_bytes());
            rec.bump(&format!("slot.{}", slot.block_tag));
            rec.bump(if is_block { "payload.block" } else { "payload.keyword" });
            if slot.bare_excluded {
                rec.bump("slot.behind_identifier_list(block payload only)");
            }
            if rec.want_sample() && case % 50 == 1 {
                rec.sample(
                    Json::obj()
                        .with("block", Json::s(&slot.block_tag))
                        .with("inserted_tag", Json::s(&tag))
                        .with("is_block", Json::Bool(is_block))
                        .with("text", Json::s(&clip(&text, 400))),
                );
            }
            // one case in four: the unknown element stands in an include file of its own, the
            // directive takes its place in the main file
            let via_include = rng.chance(1, 4);
            let main_path = scratch.join("c07_main.a2l");
            if via_include {
                rec.bump(if is_block { "payload_in_include_file.block" } else { "payload_in_include_file.keyword" });
                let mut main_text = String::with_capacity(text.len());
                main_text.push_str(&text[..cut_from]);
                main_text.push_str("/include \"c07_inc.a2l\"");
                main_text.push_str(&text[cut_to..]);
                std::fs::write(&main_path, &main_text).unwrap();
                std::fs::write(scratch.join("c07_inc.a2l"), &text[cut_from..cut_to]).unwrap();
            }
            let load_variant = |strict: bool| {
                if via_include {
                    crate::util::set_budget(crate::c03::step_budget(text.len() * 2));
                    let r = vcommon::runtime::guarded(|| a2lfile::load(&main_path, None, strict));
                    crate::util::reset_budget();
                    r
                } else {
                    load_str(&text, strict)
                }
            };
            let sigctx = match (is_block, via_include) {
                (true, false) => "unknown block",
                (false, false) => "unknown keyword",
                (true, true) => "unknown block in an include file",
                (false, true) => "unknown keyword in an include file",
            };
            let note = format!("inserted {tag} (block={is_block}, in include file c07_inc.a2l={via_include}) into {} at child index {}", slot.block_tag, slot.index);
            // non-strict
            match load_variant(false) {
                Err((sig, detail)) => rec.violation(&sig, &detail, witness_text("C07", &text, &note)),
                Ok(Err(e)) => rec.violation(
                    &format!("{sigctx}: non-strict load fails: {}", err_class(&e)),
                    &format!("{note}: {e}"),
                    witness_text("C07", &text, &note),
                ),
                Ok(Ok((model, log))) => {
                    if model != base_model {
                        rec.violation(
                            &format!("{sigctx}: model differs from the model without the unknown element (in {})", slot.block_tag),
                            &format!("{note}; {}", crate::c01::model_diff(&base_model, &model)),
                            witness_text("C07", &text, &note),
                        );
                    }
                    // log = baseline + exactly one UnknownSubBlock(tag)
                    let mut classes: Vec<String> = log.iter().map(err_class).collect();
                    let pos = log.iter().position(|e| {
                        err_class(e) == "ParserError.UnknownSubBlock" && format!("{e:?}").contains(&format!("tag: \"{tag}\""))
                    });
                    match pos {
                        Some(p) => {
                            classes.remove(p);
                            let mut a = classes.clone();
                            let mut b = base_classes.clone();
                            a.sort();
                            b.sort();
                            if a != b {
                                rec.violation(
                                    &format!("{sigctx}: additional diagnostics besides the one UnknownSubBlock"),
                                    &format!("{note}: log classes {a:?}, baseline {b:?}"),
                                    witness_text("C07", &text, &note),
                                );
                            }
                        }
                        None => rec.violation(
                            &format!("{sigctx}: no UnknownSubBlock warning naming the inserted tag"),
                            &format!("{note}: log classes {classes:?}"),
                            witness_text("C07", &text, &note),
                        ),
                    }
                }
            }
            // strict
            match load_variant(true) {
                Err((sig, detail)) => rec.violation(&sig, &detail, witness_text("C07", &text, &note)),
                Ok(Ok(_)) => rec.violation(
                    &format!("{sigctx}: strict load accepts the unknown element"),
                    &note,
                    witness_text("C07", &text, &note),
                ),
                Ok(Err(e)) => {
                    let ok = err_class(&e) == "ParserError.UnknownSubBlock"
                        && format!("{e:?}").contains(&format!("tag: \"{tag}\""));
                    if !ok {
                        rec.violation(
                            &format!("{sigctx}: strict load fails with {} instead of UnknownSubBlock naming the tag", err_class(&e)),
                            &format!("{note}: {e}"),
                            witness_text("C07", &text, &note),
                        );
                    }
                }
            }
        }
        None
    });
    let _ = std::fs::remove_dir_all(&scratch);
    rec.floor("baseline_docs", 10);
    rec.floor("behind_interpreted_if_data.with_valid_if_data", 10);
    rec.floor("payload_in_include_file.block", 5);
    rec.floor("payload_in_include_file.keyword", 5);
    rec.floor("payload.block", 10);
    rec.floor("payload.keyword", 10);
    // every block kind that has optional sub-elements must have received insertions
    for e in &g.elements {
        if e.is_block && !e.opts.is_empty() {
            for t in &e.tags {
                rec.floor(&format!("slot.{t}"), 1);
            }
        }
    }
}
