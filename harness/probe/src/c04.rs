//! C04 — grammar conformance: systematic enumeration of the frozen reference grammar
//! (valid forms + single deviations + version gating) and random whole documents.

use crate::c01::witness_text;
use crate::gram::{err_class, load_str};
use a2lfile::A2lError;
use std::collections::BTreeMap;
use vcommon::doc::{Child, Doc, Elem, Tok, Val, TK};
use vcommon::docgen::{containment_path, path_version_range, DocGen, GenCfg};
use vcommon::grammar::{in_range, ucname_to_typename, Field, Grammar, Item, PType, Ver, VERSIONS};
use vcommon::json::{clip, Json};
use vcommon::layout::{render, LayoutCfg};
use vcommon::rng::Rng;
use vcommon::runtime::{run_cases, Args, Recorder};

/// one systematic case
#[derive(Clone, Debug)]
enum Case {
    /// E with sentinel parameters, no optional children
    Valid(String),
    /// E with one optional child
    ValidWithOpt(String, usize),
    DropParam(String, usize),
    /// a string parameter written as a bare word (accepted with a warning in non-strict mode only)
    BareWordForString(String, usize),
    DuplicateOpt(String, usize),
    MissingRequired(String, usize),
    WrapKeyword(String),
    StripBlock(String),
    BadEnum(String, usize),
    /// parent, opt index, declared version
    OptAtVersion(String, usize, Ver),
    /// element, param token index of an enum parameter, enum item index, declared version
    EnumAtVersion(String, usize, usize, Ver),
    MissingVersion,
    InvalidVersion,
}

fn case_label(c: &Case) -> &'static str {
    match c {
        Case::Valid(_) => "valid",
        Case::ValidWithOpt(..) => "valid_with_opt",
        Case::DropParam(..) => "drop_param",
        Case::BareWordForString(..) => "bare_word_for_string",
        Case::DuplicateOpt(..) => "duplicate_opt",
        Case::MissingRequired(..) => "missing_required",
        Case::WrapKeyword(_) => "wrap_keyword",
        Case::StripBlock(_) => "strip_block",
        Case::BadEnum(..) => "bad_enum",
        Case::OptAtVersion(..) => "opt_at_version",
        Case::EnumAtVersion(..) => "enum_at_version",
        Case::MissingVersion => "missing_version",
        Case::InvalidVersion => "invalid_version",
    }
}

fn skip_tag(t: &str) -> bool {
    matches!(t, "A2L_FILE" | "ASAP2_VERSION" | "A2ML_VERSION")
}

/// flat list of (field, is_seq_member, single_field_seq) describing the parameter tokens of a
/// sentinel instance (sequences with `seq_items` items)
struct ParamSlot {
    field: Field,
    in_seq: bool,
    single_field_seq: bool,
    in_array: bool,
}

fn param_slots(g: &Grammar, tag: &str, seq_items: usize) -> Vec<ParamSlot> {
    let mut out = Vec::new();
    for item in &g.elem(tag).params {
        match item {
            Item::Single(f) => out.push(ParamSlot {
                field: f.clone(),
                in_seq: false,
                single_field_seq: false,
                in_array: false,
            }),
            Item::Array(f, n) => {
                for _ in 0..*n {
                    out.push(ParamSlot {
                        field: f.clone(),
                        in_seq: false,
                        single_field_seq: false,
                        in_array: true,
                    });
                }
            }
            Item::Seq(fields, _) => {
                for _ in 0..seq_items {
                    for f in fields {
                        out.push(ParamSlot {
                            field: f.clone(),
                            in_seq: true,
                            single_field_seq: fields.len() == 1,
                            in_array: false,
                        });
                    }
                }
            }
        }
    }
    out
}

fn first_enum_item(g: &Grammar, name: &str, ver: Ver) -> String {
    g.enums[name]
        .items
        .iter()
        .find(|i| in_range(ver, i.vmin, i.vmax))
        .map(|i| i.name.clone())
        .unwrap()
}

/// sentinel token for slot k; returns (token, Debug representation)
fn sentinel(g: &Grammar, slot: &ParamSlot, k: usize, ver: Ver) -> (Tok, String) {
    match &slot.field.ty {
        PType::Ident => {
            let v = format!("zzI{k}");
            (Tok::word(TK::Ident, &v), format!("\"{v}\""))
        }
        PType::Str => {
            // every second string begins and ends with a quote character, spelled in one of the two
            // escape forms of the standard
            match k % 4 {
                1 => {
                    let v = format!("\"zzS {k}\"");
                    (Tok::string(&v, format!("\"\"\"zzS {k}\"\"\"")), format!("{v:?}"))
                }
                3 => {
                    let v = format!("\"zzS {k}\"");
                    (Tok::string(&v, format!("\"\\\"zzS {k}\\\"\"")), format!("{v:?}"))
                }
                _ => {
                    let v = format!("zzS {k}");
                    (Tok::string(&v, format!("\"{v}\"")), format!("\"{v}\""))
                }
            }
        }
        PType::Int { .. } => {
            let v = 11 + k as i128;
            (Tok::int(v, format!("{v}")), format!("{v}"))
        }
        PType::Float => {
            let v = 100.0 + k as f64 + 0.25;
            (Tok::float(v, format!("{v}")), format!("{v:?}"))
        }
        PType::Enum(name) => {
            let item = first_enum_item(g, name, ver);
            (Tok::word(TK::Enum, &item), ucname_to_typename(&item))
        }
    }
}

struct Built {
    elem: Elem,
    /// (field name, debug repr, in_seq/single)
    expect: Vec<(String, String, bool)>,
}

fn build_sentinel(g: &Grammar, tag: &str, ver: Ver, seq_items: usize) -> Built {
    let def = g.elem(tag);
    let mut e = Elem::new(tag, def.is_block, !def.opts.is_empty());
    let mut expect = Vec::new();
    if tag == "A2ML" {
        let text = " block \"IF_DATA\" struct { int; }; ".to_string();
        e.params.push(Tok {
            kind: TK::A2ml,
            text: text.clone(),
            val: Val::Raw(text),
        });
        return Built { elem: e, expect };
    }
    if tag == "IF_DATA" {
        e.params = vec![Tok::word(TK::Ident, "ZZ_TAG"), Tok::int(77, "77".into())];
        return Built { elem: e, expect };
    }
    for (k, slot) in param_slots(g, tag, seq_items).iter().enumerate() {
        let (tok, repr) = sentinel(g, slot, k, ver);
        e.params.push(tok);
        let bare = (slot.in_seq && slot.single_field_seq) || slot.in_array;
        expect.push((slot.field.name.clone(), repr, bare));
    }
    Built { elem: e, expect }
}

fn add_required(gen: &mut DocGen, rng: &mut Rng, e: &mut Elem) {
    let g = gen.g;
    for o in &g.elem(&e.tag).opts {
        if o.required {
            let k = gen.gen_minimal(rng, &o.tag);
            e.children.push(Child::Elem(k));
        }
    }
}

/// check that the sentinel values can be read back from the Debug view of the model
fn check_sentinels(debug: &str, typename: &str, expect: &[(String, String, bool)]) -> Result<(), String> {
    if !debug.contains(typename) {
        return Err(format!("type {typename} does not occur in the model"));
    }
    for (field, repr, bare) in expect {
        let needle = if *bare {
            format!("{repr},")
        } else {
            format!("{field}: {repr},")
        };
        let found = debug.lines().any(|l| l.trim() == needle);
        if !found {
            return Err(format!("value not readable from the model: expected a line `{needle}`"));
        }
    }
    Ok(())
}

/// the diagnostics the reference grammar predicts for a document declared at version `ver`
fn expected_version_diags(g: &Grammar, doc: &Doc, ver: Ver) -> Vec<(String, String)> {
    fn walk(g: &Grammar, e: &Elem, ver: Ver, out: &mut Vec<(String, String)>) {
        if !g.is_tag(&e.tag) {
            return;
        }
        let def = g.elem(&e.tag);
        // enum parameters
        if e.tag != "IF_DATA" && e.tag != "A2ML" {
            let mut idx = 0;
            let mut check = |f: &Field, tok: Option<&Tok>| {
                if let (PType::Enum(name), Some(tok)) = (&f.ty, tok) {
                    if let Some(item) = g.enums[name].items.iter().find(|i| i.name == tok.text) {
                        if let Some(vmin) = item.vmin {
                            if ver < vmin {
                                out.push(("EnumRefTooNew".into(), item.name.clone()));
                            }
                        }
                        if let Some(vmax) = item.vmax {
                            if ver > vmax {
                                out.push(("EnumRefDeprecated".into(), item.name.clone()));
                            }
                        }
                    }
                }
            };
            for item in &def.params {
                match item {
                    Item::Single(f) => {
                        check(f, e.params.get(idx));
                        idx += 1;
                    }
                    Item::Array(f, n) => {
                        for _ in 0..*n {
                            check(f, e.params.get(idx));
                            idx += 1;
                        }
                    }
                    Item::Seq(fields, _) => {
                        while idx < e.params.len() {
                            for f in fields {
                                check(f, e.params.get(idx));
                                idx += 1;
                            }
                        }
                    }
                }
            }
        }
        for c in e.child_elems() {
            if let Some(o) = def.opts.iter().find(|o| o.tag == c.tag) {
                if let Some(vmin) = o.vmin {
                    if ver < vmin {
                        out.push(("BlockRefTooNew".into(), c.tag.clone()));
                    }
                }
                if let Some(vmax) = o.vmax {
                    if ver > vmax {
                        out.push(("BlockRefDeprecated".into(), c.tag.clone()));
                    }
                }
            }
            walk(g, c, ver, out);
        }
    }
    let mut out = Vec::new();
    for e in &doc.top {
        walk(g, e, ver, &mut out);
    }
    out
}

fn log_classes(log: &[A2lError]) -> Vec<(String, String)> {
    log.iter()
        .map(|e| {
            let c = err_class(e);
            let c = c.strip_prefix("ParserError.").unwrap_or(&c).to_string();
            // tag of the diagnostic, if it has one
            let d = format!("{e:?}");
            let tag = d
                .find("tag: \"")
                .map(|p| {
                    let rest = &d[p + 6..];
                    rest[..rest.find('"').unwrap_or(0)].to_string()
                })
                .unwrap_or_default();
            (c, tag)
        })
        .collect()
}

fn set_declared_version(doc: &mut Doc, ver: Ver) {
    for e in &mut doc.top {
        if e.tag == "ASAP2_VERSION" {
            let minor = i128::from(ver % 100);
            e.params[1] = Tok::int(minor, format!("{minor}"));
        }
    }
    doc.version = ver;
}

struct Outcome {
    strict: Result<Vec<(String, String)>, String>,
    lenient: Result<Vec<(String, String)>, String>,
    debug_strict: Option<String>,
}

fn load_both(rec: &mut Recorder, text: &str, label: &str) -> Option<Outcome> {
    let mut res = Vec::new();
    let mut debug_strict = None;
    for strict in [true, false] {
        match load_str(text, strict) {
            Err((sig, detail)) => {
                rec.violation(&sig, &detail, witness_text("C04", text, label));
                return None;
            }
            Ok(Err(e)) => {
                let c = err_class(&e);
                res.push(Err(c.strip_prefix("ParserError.").unwrap_or(&c).to_string()));
            }
            Ok(Ok((a2l, log))) => {
                if strict {
                    debug_strict = Some(format!("{a2l:#?}"));
                }
                res.push(Ok(log_classes(&log)));
            }
        }
    }
    let lenient = res.pop().unwrap();
    let strict = res.pop().unwrap();
    Some(Outcome {
        strict,
        lenient,
        debug_strict,
    })
}

fn sorted(mut v: Vec<(String, String)>) -> Vec<(String, String)> {
    v.sort();
    v
}

/// judge a document against the expected recoverable diagnostics (version classes)
fn judge_versions(
    rec: &mut Recorder,
    out: &Outcome,
    expected: &[(String, String)],
    text: &str,
    label: &str,
    sigctx: &str,
) {
    let too_new: Vec<&(String, String)> = expected.iter().filter(|(c, _)| c.ends_with("TooNew")).collect();
    let deprecated: Vec<(String, String)> = expected
        .iter()
        .filter(|(c, _)| c.ends_with("Deprecated"))
        .cloned()
        .collect();
    // non-strict: loads, log multiset equals the prediction
    match &out.lenient {
        Err(c) => rec.violation(
            &format!("{sigctx}: non-strict load fails with {c}"),
            &format!("{label}: expected Ok with diagnostics {expected:?}, got Err({c})"),
            witness_text("C04", text, label),
        ),
        Ok(log) => {
            if sorted(log.clone()) != sorted(expected.to_vec()) {
                rec.violation(
                    &format!("{sigctx}: diagnostics differ from the reference grammar"),
                    &format!("{label}: expected {:?}, log has {:?}", sorted(expected.to_vec()), sorted(log.clone())),
                    witness_text("C04", text, label),
                );
            }
        }
    }
    // strict: fails iff something is too new
    match &out.strict {
        Err(c) => {
            if too_new.is_empty() {
                rec.violation(
                    &format!("{sigctx}: strict load fails with {c}"),
                    &format!("{label}: the reference grammar predicts no error (only {deprecated:?}), got Err({c})"),
                    witness_text("C04", text, label),
                );
            } else if !too_new.iter().any(|(cl, _)| cl == c) {
                rec.violation(
                    &format!("{sigctx}: strict load fails with the wrong class {c}"),
                    &format!("{label}: expected one of {too_new:?}, got Err({c})"),
                    witness_text("C04", text, label),
                );
            }
        }
        Ok(log) => {
            if !too_new.is_empty() {
                rec.violation(
                    &format!("{sigctx}: strict load accepts a too-new element"),
                    &format!("{label}: expected Err for {too_new:?}, got Ok with log {log:?}"),
                    witness_text("C04", text, label),
                );
            } else if sorted(log.clone()) != sorted(deprecated.clone()) {
                rec.violation(
                    &format!("{sigctx}: strict diagnostics differ from the reference grammar"),
                    &format!("{label}: expected {deprecated:?}, log has {log:?}"),
                    witness_text("C04", text, label),
                );
            }
        }
    }
}

fn expect_hard_error(rec: &mut Recorder, out: &Outcome, allowed: &[&str], text: &str, label: &str, sigctx: &str) {
    for (mode, r) in [("strict", &out.strict), ("non-strict", &out.lenient)] {
        match r {
            Ok(log) => rec.violation(
                &format!("{sigctx}: accepted in {mode} mode"),
                &format!("{label}: expected a hard error ({allowed:?}) but the {mode} load succeeded with log {log:?}"),
                witness_text("C04", text, label),
            ),
            Err(c) => {
                rec.bump(&format!("diag.{c}"));
                if !allowed.contains(&c.as_str()) {
                    rec.violation(
                        &format!("{sigctx}: wrong diagnostic class {c}"),
                        &format!("{label}: expected one of {allowed:?} in {mode} mode, got {c}"),
                        witness_text("C04", text, label),
                    );
                }
            }
        }
    }
}

fn expect_recoverable(rec: &mut Recorder, out: &Outcome, class: &str, tag: &str, text: &str, label: &str, sigctx: &str, allow_hard: bool) {
    match &out.strict {
        Err(c) if c == class => rec.bump(&format!("diag.{c}")),
        other => rec.violation(
            &format!("{sigctx}: strict mode does not report {class}"),
            &format!("{label}: expected Err({class}), got {other:?}"),
            witness_text("C04", text, label),
        ),
    }
    match &out.lenient {
        Ok(log) if log.len() == 1 && log[0].0 == class && (tag.is_empty() || log[0].1 == tag) => {}
        Err(c) if allow_hard && c == class => {}
        other => rec.violation(
            &format!("{sigctx}: non-strict mode does not report exactly one {class}"),
            &format!("{label}: expected Ok with one {class} warning for {tag}, got {other:?}"),
            witness_text("C04", text, label),
        ),
    }
}

fn ends_in_ident_list(g: &Grammar, tag: &str) -> bool {
    match g.elem(tag).params.last() {
        Some(Item::Seq(fields, _)) => fields.len() == 1 && fields[0].ty == PType::Ident,
        _ => false,
    }
}

fn enumerate_cases(g: &Grammar) -> Vec<Case> {
    let mut cases = Vec::new();
    let mut tags = g.all_tags();
    tags.retain(|t| !skip_tag(t));
    for t in &tags {
        let def = g.elem(t);
        cases.push(Case::Valid(t.clone()));
        for (i, _o) in def.opts.iter().enumerate() {
            cases.push(Case::ValidWithOpt(t.clone(), i));
        }
        if t != "A2ML" && t != "IF_DATA" {
            let n = param_slots(g, t, 0).len();
            for i in 0..n {
                cases.push(Case::DropParam(t.clone(), i));
            }
            for (i, s) in param_slots(g, t, 0).iter().enumerate() {
                if s.field.ty == PType::Str {
                    cases.push(Case::BareWordForString(t.clone(), i));
                }
                if matches!(s.field.ty, PType::Enum(_)) {
                    cases.push(Case::BadEnum(t.clone(), i));
                    if let PType::Enum(name) = &s.field.ty {
                        for (k, item) in g.enums[name].items.iter().enumerate() {
                            if item.vmin.is_some() || item.vmax.is_some() {
                                for v in VERSIONS {
                                    cases.push(Case::EnumAtVersion(t.clone(), i, k, v));
                                }
                            }
                        }
                    }
                }
            }
        }
        for (i, o) in def.opts.iter().enumerate() {
            // a bare keyword directly behind an open-ended identifier list is by definition a list
            // member: the duplicate of a keyword that ends in such a list is not a deviation
            let child = g.elem(&o.tag);
            let child_open_list = !child.is_block && ends_in_ident_list(g, &o.tag);
            if !o.repeat && !o.required && !child_open_list {
                cases.push(Case::DuplicateOpt(t.clone(), i));
            }
            if o.required {
                cases.push(Case::MissingRequired(t.clone(), i));
            }
            if o.vmin.is_some() || o.vmax.is_some() {
                for v in VERSIONS {
                    cases.push(Case::OptAtVersion(t.clone(), i, v));
                }
            }
        }
        if def.is_block {
            // not a deviation with a defined class: the raw A2ML text is not A2L token syntax, and a
            // bare word behind the open-ended identifier list of the parent is a list member
            let parent_open_list = containment_path(g, t)
                .and_then(|p| p.len().checked_sub(2).map(|i| p[i].clone()))
                .is_some_and(|p| ends_in_ident_list(g, &p));
            if t != "A2ML" && !parent_open_list {
                cases.push(Case::StripBlock(t.clone()));
            }
        } else {
            cases.push(Case::WrapKeyword(t.clone()));
        }
    }
    cases.push(Case::MissingVersion);
    cases.push(Case::InvalidVersion);
    cases
}

/// version at which the whole path and the given extra ranges are legal (highest such version)
fn pick_version(g: &Grammar, path: &[String], extra: &[(Option<Ver>, Option<Ver>)]) -> Option<Ver> {
    let (mut lo, mut hi) = path_version_range(g, path);
    for (a, b) in extra {
        if let Some(a) = a {
            lo = lo.max(*a);
        }
        if let Some(b) = b {
            hi = hi.min(*b);
        }
    }
    VERSIONS.iter().rev().copied().find(|v| *v >= lo && *v <= hi)
}

fn run_systematic(g: &Grammar, rng: &mut Rng, rec: &mut Recorder, case: &Case) {
    let label = case_label(case);
    rec.eval();
    rec.bump(&format!("case.{label}"));
    let gencfg = GenCfg {
        vals: vcommon::values::ValCfg {
            extremes: false,
            ..Default::default()
        },
        ..GenCfg::default()
    };
    let mut gen = DocGen::new(g, gencfg);
    let render_doc = |doc: &Doc, rng: &mut Rng| {
        let flat = doc.flatten();
        let lc = LayoutCfg::c05(rng);
        render(&flat, &lc, rng).text
    };
    match case {
        Case::MissingVersion | Case::InvalidVersion => {
            gen.version = 171;
            let mut doc = gen.gen_doc(rng);
            if matches!(case, Case::MissingVersion) {
                doc.top.retain(|e| e.tag != "ASAP2_VERSION");
            } else {
                for e in &mut doc.top {
                    if e.tag == "ASAP2_VERSION" {
                        e.params[1] = Tok::int(80, "80".into());
                    }
                }
            }
            let text = render_doc(&doc, rng);
            rec.nontrivial(text.as_bytes());
            let Some(out) = load_both(rec, &text, label) else { return };
            let class = if matches!(case, Case::MissingVersion) {
                "MissingVersionInfo"
            } else {
                "InvalidVersion"
            };
            match &out.strict {
                Err(c) if c == class => {}
                other => rec.violation(
                    &format!("{label}: strict mode does not report {class}"),
                    &format!("got {other:?}"),
                    witness_text("C04", &text, label),
                ),
            }
            match &out.lenient {
                Ok(log) if log.iter().any(|(c, _)| c == class) => {}
                other => rec.violation(
                    &format!("{label}: non-strict mode does not report {class}"),
                    &format!("got {other:?}"),
                    witness_text("C04", &text, label),
                ),
            }
        }
        Case::Valid(t)
        | Case::ValidWithOpt(t, _)
        | Case::DropParam(t, _)
        | Case::BareWordForString(t, _)
        | Case::DuplicateOpt(t, _)
        | Case::MissingRequired(t, _)
        | Case::WrapKeyword(t)
        | Case::StripBlock(t)
        | Case::BadEnum(t, _)
        | Case::OptAtVersion(t, _, _)
        | Case::EnumAtVersion(t, _, _, _) => {
            let Some(path) = containment_path(g, t) else {
                rec.bump("unreachable_kind");
                return;
            };
            let def = g.elem(t);
            // version selection
            let mut extra: Vec<(Option<Ver>, Option<Ver>)> = Vec::new();
            if let Case::ValidWithOpt(_, i) | Case::DuplicateOpt(_, i) = case {
                extra.push((def.opts[*i].vmin, def.opts[*i].vmax));
            }
            let ver = match case {
                Case::OptAtVersion(_, _, v) | Case::EnumAtVersion(_, _, _, v) => *v,
                _ => match pick_version(g, &path, &extra) {
                    Some(v) => v,
                    None => {
                        rec.bump("no_common_version");
                        return;
                    }
                },
            };
            gen.version = match pick_version(g, &path, &extra) {
                Some(v) => v,
                None => 171,
            };
            let seq_items = match case {
                Case::Valid(_) | Case::ValidWithOpt(..) => 2,
                _ => 0,
            };
            let mut built = build_sentinel(g, t, gen.version, seq_items);
            let drop_required = matches!(case, Case::MissingRequired(..));
            if !drop_required {
                add_required(&mut gen, rng, &mut built.elem);
            }
            let sigctx = format!("{label} {t}");
            match case {
                Case::ValidWithOpt(_, i) | Case::OptAtVersion(_, i, _) => {
                    let o = &def.opts[*i];
                    if !built.elem.child_elems().any(|c| c.tag == o.tag) {
                        let k = if matches!(case, Case::OptAtVersion(..)) {
                            // the child must itself be valid at its own best version
                            gen.gen_minimal(rng, &o.tag)
                        } else {
                            let b = build_sentinel(g, &o.tag, gen.version, 1);
                            let mut ke = b.elem;
                            add_required(&mut gen, rng, &mut ke);
                            ke
                        };
                        built.elem.children.push(Child::Elem(k));
                    }
                }
                Case::DuplicateOpt(_, i) => {
                    let o = &def.opts[*i];
                    for _ in 0..2 {
                        let k = gen.gen_minimal(rng, &o.tag);
                        built.elem.children.push(Child::Elem(k));
                    }
                }
                Case::MissingRequired(_, i) => {
                    for (j, o) in def.opts.iter().enumerate() {
                        if o.required && j != *i {
                            let k = gen.gen_minimal(rng, &o.tag);
                            built.elem.children.push(Child::Elem(k));
                        }
                    }
                }
                Case::DropParam(_, i) => {
                    built.elem.params.remove(*i);
                }
                Case::BareWordForString(_, i) => {
                    built.elem.params[*i] = Tok::word(TK::Ident, "zz_bare_word");
                }
                Case::BadEnum(_, i) => {
                    built.elem.params[*i] = Tok::word(TK::Enum, "ZZ_NOT_AN_ENUM_ITEM");
                }
                Case::EnumAtVersion(_, i, k, _) => {
                    if let PType::Enum(name) = &param_slots(g, t, 0)[*i].field.ty {
                        let item = &g.enums[name].items[*k];
                        built.elem.params[*i] = Tok::word(TK::Enum, &item.name);
                    }
                }
                Case::WrapKeyword(_) => built.elem.is_block = true,
                Case::StripBlock(_) => built.elem.is_block = false,
                _ => {}
            }
            let target = built.elem.clone();
            let mut doc = gen.gen_doc_with(rng, &path, gen.version, target);
            if let Case::OptAtVersion(..) | Case::EnumAtVersion(..) = case {
                set_declared_version(&mut doc, ver);
            }
            let text = render_doc(&doc, rng);
            rec.nontrivial(text.as_bytes());
            if rec.want_sample() && matches!(case, Case::DropParam(..)) {
                rec.sample(Json::obj().with("case", Json::s(&format!("{case:?}"))).with("text", Json::s(&clip(&text, 400))));
            }
            let Some(out) = load_both(rec, &text, &format!("{case:?}")) else { return };
            let lbl = format!("{case:?}");
            match case {
                Case::Valid(_) | Case::ValidWithOpt(..) => {
                    // strict: Ok, empty log, values readable
                    match (&out.strict, &out.debug_strict) {
                        (Ok(log), Some(dbg)) => {
                            if !log.is_empty() {
                                rec.violation(
                                    &format!("{sigctx}: valid form yields diagnostics"),
                                    &format!("{lbl}: strict log {log:?}"),
                                    witness_text("C04", &text, &lbl),
                                );
                            }
                            if let Err(msg) = check_sentinels(dbg, &def.typename, &built.expect) {
                                rec.violation(
                                    &format!("{sigctx}: value not readable from the model"),
                                    &format!("{lbl}: {msg}"),
                                    witness_text("C04", &text, &lbl),
                                );
                            }
                            if let Case::ValidWithOpt(_, i) = case {
                                let otn = &g.elem(&def.opts[*i].tag).typename;
                                if !dbg.contains(otn.as_str()) {
                                    rec.violation(
                                        &format!("{sigctx}: optional sub-element missing from the model"),
                                        &format!("{lbl}: type {otn} does not occur in the model"),
                                        witness_text("C04", &text, &lbl),
                                    );
                                }
                            }
                            rec.add("sentinels_checked", built.expect.len() as u64);
                        }
                        (other, _) => rec.violation(
                            &format!("{sigctx}: valid form rejected in strict mode"),
                            &format!("{lbl}: {other:?}"),
                            witness_text("C04", &text, &lbl),
                        ),
                    }
                    if let Ok(log) = &out.lenient {
                        if !log.is_empty() {
                            rec.violation(
                                &format!("{sigctx}: valid form yields diagnostics (non-strict)"),
                                &format!("{lbl}: log {log:?}"),
                                witness_text("C04", &text, &lbl),
                            );
                        }
                    }
                }
                Case::DropParam(..) => expect_hard_error(
                    rec,
                    &out,
                    &["UnexpectedTokenType", "MalformedNumber", "InvalidEnumValue", "UnexpectedEOF"],
                    &text,
                    &lbl,
                    &sigctx,
                ),
                Case::BareWordForString(..) => expect_recoverable(rec, &out, "UnexpectedTokenType", "", &text, &lbl, &sigctx, false),
                Case::BadEnum(..) => expect_hard_error(rec, &out, &["InvalidEnumValue"], &text, &lbl, &sigctx),
                Case::WrapKeyword(_) => expect_hard_error(rec, &out, &["IncorrectKeywordError"], &text, &lbl, &sigctx),
                Case::StripBlock(_) => expect_hard_error(rec, &out, &["IncorrectBlockError"], &text, &lbl, &sigctx),
                Case::DuplicateOpt(_, i) => expect_recoverable(
                    rec,
                    &out,
                    "InvalidMultiplicityTooMany",
                    &def.opts[*i].tag,
                    &text,
                    &lbl,
                    &sigctx,
                    false,
                ),
                Case::MissingRequired(_, i) => expect_recoverable(
                    rec,
                    &out,
                    "InvalidMultiplicityNotPresent",
                    &def.opts[*i].tag,
                    &text,
                    &lbl,
                    &sigctx,
                    true,
                ),
                Case::OptAtVersion(..) | Case::EnumAtVersion(..) => {
                    let expected = expected_version_diags(g, &doc, ver);
                    for (c, _) in &expected {
                        rec.bump(&format!("expected.{c}"));
                    }
                    if expected.is_empty() {
                        rec.bump("expected.in_range");
                    }
                    judge_versions(rec, &out, &expected, &text, &lbl, &sigctx);
                }
                _ => {}
            }
        }
    }
}

/// "every value readable from the model": the model loaded from a generated document must equal
/// (typed `==`, every field of every element) the model built from the same values through the
/// public API by the functions generated from the reference grammar (`apibuild`)
fn typed_twin_case(g: &Grammar, rng: &mut Rng, rec: &mut Recorder, thorough: bool) {
    let mut cfg = crate::c01::gen_cfg_wide(rng, thorough);
    cfg.comments_pct = 0;
    cfg.if_data = false;
    cfg.a2ml = false;
    let mut gen = DocGen::new(g, cfg);
    let doc = gen.gen_doc(rng);
    let flat = doc.flatten();
    let lc = if rng.coin() { LayoutCfg::c05(rng) } else { LayoutCfg::wide(rng) };
    let text = render(&flat, &lc, rng).text;
    rec.eval();
    rec.bump("case.typed_twin");
    rec.nontrivial(text.as_bytes());
    let built = match crate::apibuild::build_file(&doc) {
        Ok(b) => b,
        Err(why) => {
            rec.bump("typed_twin.not_built");
            if rec.notes.len() < 5 {
                rec.notes.push(format!("typed twin not built: {why}"));
            }
            return;
        }
    };
    let strict = rng.coin();
    match load_str(&text, strict) {
        Err((sig, detail)) => rec.violation(&sig, &detail, witness_text("C04", &text, "typed twin")),
        Ok(Err(e)) => rec.violation(
            &format!("typed twin: document generated from the reference grammar is rejected: {}", err_class(&e)),
            &e.to_string(),
            witness_text("C04", &text, "typed twin"),
        ),
        Ok(Ok((loaded, _))) => {
            for t in &flat.elem_tags {
                rec.bump(&format!("twin_kind.{t}"));
            }
            if loaded != built {
                rec.violation(
                    "typed twin: the loaded model differs from the model built through the API from the same values",
                    &format!("a = built through the API, b = loaded: {}", crate::c01::model_diff(&built, &loaded)),
                    witness_text("C04", &text, "typed twin"),
                );
            } else {
                rec.bump("typed_twin.equal");
            }
        }
    }
}

pub fn run(args: &Args, rec: &mut Recorder) {
    rec.rule = "evaluation = one generated document loaded in strict and non-strict mode and judged against the frozen reference grammar: systematic part = every element kind x (valid form with sentinel values read back from the model, each optional sub-element, each dropped parameter, duplicated optional, missing required, wrong block form, unknown enum word, every version-gated sub-element / enum item x six declared versions); random part = whole documents generated for one version and declared at another. distinct_nontrivial = distinct texts by content hash".into();
    rec.assumptions.push("the frozen copy of the specification DSL (ref/a2l_grammar.dsl) is the reference for A2L 1.7.1; values are read back through the Debug view of the public model".into());
    let g = Grammar::load_default();
    let cases = enumerate_cases(&g);
    let n_sys = cases.len() as u64;
    let n_rand: u64 = if args.thorough { 500_000 } else { 40_000 };
    if args.shard == 0 {
        rec.extra.insert("systematic_cases".into(), Json::UInt(n_sys));
        rec.extra.insert("exhaustive".into(), Json::Bool(false));
        rec.extra.insert(
            "exhaustive_part".into(),
            Json::s("the systematic enumeration over the reference grammar is complete in both tiers"),
        );
    }
    let mut per_kind: BTreeMap<String, u64> = BTreeMap::new();
    run_cases(args, rec, n_sys + n_rand, crate::util::reset_budget, |rng, case, rec| {
        if case < n_sys {
            let c = &cases[case as usize];
            if let Case::Valid(t) = c {
                *per_kind.entry(t.clone()).or_insert(0) += 1;
                rec.bump(&format!("kind.{t}"));
            }
            run_systematic(&g, rng, rec, c);
            return None;
        }
        if case % 4 == 1 {
            typed_twin_case(&g, rng, rec, args.thorough);
            return None;
        }
        // random whole documents, declared at a random version
        let mut cfg = crate::c01::gen_cfg_wide(rng, args.thorough);
        cfg.comments_pct = 0;
        cfg.if_data = rng.coin();
        let mut gen = DocGen::new(&g, cfg);
        let mut doc = gen.gen_doc(rng);
        let declared = *rng.pick(&VERSIONS);
        set_declared_version(&mut doc, declared);
        let flat = doc.flatten();
        let lc = LayoutCfg::c05(rng);
        let text = render(&flat, &lc, rng).text;
        rec.eval();
        rec.bump("case.random_document");
        rec.nontrivial(text.as_bytes());
        let Some(out) = load_both(rec, &text, "random") else { return None };
        let expected = expected_version_diags(&g, &doc, declared);
        if expected.is_empty() {
            rec.bump("random.no_diag_expected");
        } else {
            rec.bump("random.diag_expected");
        }
        judge_versions(rec, &out, &expected, &text, "random document", "random document");
        None
    });
    for l in [
        "valid", "valid_with_opt", "drop_param", "bare_word_for_string", "duplicate_opt", "missing_required", "wrap_keyword",
        "strip_block", "bad_enum", "opt_at_version", "enum_at_version",
    ] {
        rec.floor(&format!("case.{l}"), 1);
    }
    for e in &g.elements {
        for t in &e.tags {
            if !skip_tag(t) {
                rec.floor(&format!("kind.{t}"), 1);
            }
        }
    }
    rec.floor("typed_twin.equal", 100);
}
