//! C15 — sort_new_items(): placement-order monitor over edit histories.

use crate::c14::module_level_order;
use crate::modgen::{as_loaded, wrap, Gen, ModCfg};
use a2lfile::*;
use vcommon::json::{clip, Json};
use vcommon::rng::Rng;
use vcommon::runtime::{guarded, run_cases, Args, Recorder};

type Key = (String, String);

/// singletons that sort_new_items() places at the head of the module when they are new (a rule of
/// the library that the property neither demands nor forbids): not part of the order comparison.
/// VARIANT_CODING is different: a new one has no placed element of its kind and belongs at the end.
const SINGLETONS: &[&str] = &["A2ML", "MOD_COMMON", "MOD_PAR"];

fn push_new(rng: &mut Rng, m: &mut Module, n: u32) -> Key {
    let name = format!("zznew_{n}");
    match rng.below(21) {
        20 => {
            m.user_rights.push(UserRights::new(name.clone()));
            ("USER_RIGHTS".into(), name)
        }
        12 => {
            m.compu_vtab_range.push(CompuVtabRange::new(name.clone(), "new".into(), 0));
            ("COMPU_VTAB_RANGE".into(), name)
        }
        13 => {
            m.compu_tab.push(CompuTab::new(name.clone(), "new".into(), ConversionType::TabIntp, 0));
            ("COMPU_TAB".into(), name)
        }
        14 => {
            m.instance.push(Instance::new(name.clone(), "new".into(), "td".into(), 0));
            ("INSTANCE".into(), name)
        }
        15 => {
            m.transformer.push(Transformer::new(name.clone(), "1".into(), "a".into(), "b".into(), 1, TransformerTrigger::OnChange, "NO_INVERSE_TRANSFORMER".into()));
            ("TRANSFORMER".into(), name)
        }
        16 => {
            m.typedef_structure.push(TypedefStructure::new(name.clone(), "new".into(), 4));
            ("TYPEDEF_STRUCTURE".into(), name)
        }
        17 => {
            m.typedef_axis.push(TypedefAxis::new(name.clone(), "new".into(), "NO_INPUT_QUANTITY".into(), "rl".into(), 0.0, "NO_COMPU_METHOD".into(), 2, 0.0, 1.0));
            ("TYPEDEF_AXIS".into(), name)
        }
        18 => {
            m.typedef_blob.push(TypedefBlob::new(name.clone(), "new".into(), 4));
            ("TYPEDEF_BLOB".into(), name)
        }
        19 => {
            m.typedef_characteristic.push(TypedefCharacteristic::new(name.clone(), "new".into(), CharacteristicType::Value, "rl".into(), 0.0, "NO_COMPU_METHOD".into(), 0.0, 1.0));
            ("TYPEDEF_CHARACTERISTIC".into(), name)
        }
        0 => {
            m.measurement.push(Measurement::new(name.clone(), "new".into(), DataType::Ubyte, "NO_COMPU_METHOD".into(), 1, 0.0, 0.0, 255.0));
            ("MEASUREMENT".into(), name)
        }
        1 => {
            m.characteristic.push(Characteristic::new(name.clone(), "new".into(), CharacteristicType::Value, 0, "rl".into(), 0.0, "NO_COMPU_METHOD".into(), 0.0, 1.0));
            ("CHARACTERISTIC".into(), name)
        }
        2 => {
            m.compu_method.push(CompuMethod::new(name.clone(), "new".into(), ConversionType::Identical, "%4.2".into(), "".into()));
            ("COMPU_METHOD".into(), name)
        }
        3 => {
            m.group.push(Group::new(name.clone(), "new".into()));
            ("GROUP".into(), name)
        }
        4 => {
            m.function.push(Function::new(name.clone(), "new".into()));
            ("FUNCTION".into(), name)
        }
        5 => {
            m.unit.push(Unit::new(name.clone(), "new".into(), "u".into(), UnitType::Derived));
            ("UNIT".into(), name)
        }
        6 => {
            m.record_layout.push(RecordLayout::new(name.clone()));
            ("RECORD_LAYOUT".into(), name)
        }
        7 => {
            m.compu_vtab.push(CompuVtab::new(name.clone(), "new".into(), ConversionType::TabVerb, 0));
            ("COMPU_VTAB".into(), name)
        }
        8 => {
            m.axis_pts.push(AxisPts::new(name.clone(), "new".into(), 0, "NO_INPUT_QUANTITY".into(), "rl".into(), 0.0, "NO_COMPU_METHOD".into(), 2, 0.0, 1.0));
            ("AXIS_PTS".into(), name)
        }
        9 => {
            m.frame.push(Frame::new(name.clone(), "new".into(), 1, 1));
            ("FRAME".into(), name)
        }
        10 => {
            m.typedef_measurement.push(TypedefMeasurement::new(name.clone(), "new".into(), DataType::Ubyte, "NO_COMPU_METHOD".into(), 1, 0.0, 0.0, 255.0));
            ("TYPEDEF_MEASUREMENT".into(), name)
        }
        _ => {
            m.blob.push(Blob::new(name.clone(), "new".into(), 0, 4));
            ("BLOB".into(), name)
        }
    }
}

fn keys_of(a2l: &A2lFile) -> Result<Vec<Key>, String> {
    keys_of_module(a2l, 0)
}

fn keys_of_module(a2l: &A2lFile, module_idx: usize) -> Result<Vec<Key>, String> {
    let text = a2l.write_to_string();
    let order = module_level_order(&text)?;
    Ok(order
        .into_iter()
        .nth(module_idx)
        .unwrap_or_default()
        .into_iter()
        .filter(|(k, _)| !SINGLETONS.contains(&k.as_str()))
        .map(|(k, n)| if k == "VARIANT_CODING" { (k, String::new()) } else { (k, n) })
        .collect())
}

/// Appendix F: expectations on the observed output order
fn check_order(placed: &[Key], fresh: &[Key], observed: &[Key], after_sort_new: bool) -> Result<(), String> {
    // placed elements keep their relative order
    let obs_placed: Vec<&Key> = observed.iter().filter(|k| placed.contains(k)).collect();
    let exp_placed: Vec<&Key> = placed.iter().collect();
    if obs_placed != exp_placed {
        let pos = obs_placed
            .iter()
            .zip(exp_placed.iter())
            .position(|(a, b)| a != b)
            .unwrap_or(obs_placed.len().min(exp_placed.len()));
        return Err(format!(
            "already placed elements changed their relative order (or got lost): at position {pos} expected {:?}, observed {:?}; {} placed expected, {} observed",
            exp_placed.get(pos),
            obs_placed.get(pos),
            exp_placed.len(),
            obs_placed.len()
        ));
    }
    for f in fresh {
        if !observed.contains(f) {
            return Err(format!("new element {f:?} is missing from the output"));
        }
    }
    if observed.len() != placed.len() + fresh.len() {
        return Err(format!(
            "output holds {} elements, expected {} placed + {} new",
            observed.len(),
            placed.len(),
            fresh.len()
        ));
    }
    if !after_sort_new {
        // without sort_new_items: every new element comes after every placed one
        let last_placed = observed.iter().rposition(|k| placed.contains(k));
        let first_fresh = observed.iter().position(|k| fresh.contains(k));
        if let (Some(lp), Some(ff)) = (last_placed, first_fresh) {
            if ff < lp {
                return Err(format!("new element {:?} is written before placed element {:?}", observed[ff], observed[lp]));
            }
        }
        return Ok(());
    }
    // after sort_new_items: for every kind with placed elements the new elements of that kind form
    // one run directly after the last placed element of the kind; kinds without placed elements go
    // behind every placed element
    let mut kinds: Vec<&str> = fresh.iter().map(|k| k.0.as_str()).collect();
    kinds.sort_unstable();
    kinds.dedup();
    for kind in kinds {
        let n_new = fresh.iter().filter(|k| k.0 == kind).count();
        let last_placed_of_kind = observed.iter().rposition(|k| k.0 == kind && placed.contains(k));
        match last_placed_of_kind {
            Some(lp) => {
                for j in 1..=n_new {
                    match observed.get(lp + j) {
                        Some(k) if k.0 == kind && fresh.contains(k) => {}
                        other => {
                            return Err(format!(
                                "new {kind} elements are not placed directly after the last placed {kind} {:?}: position +{j} holds {:?}",
                                observed[lp], other
                            ))
                        }
                    }
                }
            }
            None => {
                let last_placed = observed.iter().rposition(|k| placed.contains(k));
                let first_of_kind = observed.iter().position(|k| k.0 == kind);
                if let (Some(lp), Some(fk)) = (last_placed, first_of_kind) {
                    if fk < lp {
                        return Err(format!(
                            "new {kind} element (no placed element of that kind) is written before placed element {:?}",
                            observed[lp]
                        ));
                    }
                }
            }
        }
    }
    Ok(())
}

#[derive(Debug, Clone)]
enum Op {
    Push,
    Merge,
    SortNew,
    Write,
    /// an element that is already placed is removed with swap_remove_idx: the last element of the
    /// list (possibly a new one) takes its position in the list
    RemovePlaced,
}

fn history(rng: &mut Rng, rec: &mut Recorder, len: usize, size: usize, label: &str) {
    let cfg = ModCfg {
        size,
        universe: (size * 3).max(12),
        ..ModCfg::default()
    };
    let mut a0 = wrap(Gen::new(rng, cfg).module("m"));
    if rng.coin() {
        // half of the destination files have no VARIANT_CODING, so that a merge can bring one
        a0.project.module[0].variant_coding = None;
    }
    // one history in four works on the second module of a file with two modules (merges go into
    // the first module, so they are replaced by pushes there)
    let tm = if rng.chance(1, 4) {
        let cfg2 = ModCfg {
            size,
            universe: (size * 3).max(12),
            prefix: "s_".into(),
            marker_base: 50_000,
            ..ModCfg::default()
        };
        let m2 = Gen::new(rng, cfg2).module("m_second");
        a0.project.module.push(m2);
        rec.bump("histories_on_second_module");
        1
    } else {
        0
    };
    let mut a = match as_loaded(&a0) {
        Ok(a) => a,
        Err(e) => {
            rec.violation("generated module does not load", &e, Json::Null);
            return;
        }
    };
    let keys_of = |x: &A2lFile| keys_of_module(x, tm);
    let mut placed = match keys_of(&a) {
        Ok(k) => k,
        Err(_) => return,
    };
    let mut fresh: Vec<Key> = Vec::new();
    // elements that were "placed at the end" because their kind had no placed element at that time
    let mut end_placed: Vec<Key> = Vec::new();
    let mut ops_done: Vec<String> = Vec::new();
    let mut n_new = 0u32;
    let mut n_sort_calls = 0u32;
    let n_elems0 = placed.len();
    let mut hist_hash: Vec<u8> = Vec::new();
    for step in 0..len {
        let op = match rng.below(10) {
            0..=3 => Op::Push,
            4 if tm == 0 => Op::Merge,
            4 => Op::Push,
            5..=7 => Op::SortNew,
            8 if !fresh.is_empty() && rng.coin() => Op::RemovePlaced,
            _ => Op::Write,
        };
        rec.eval();
        rec.bump(&format!("op.{op:?}"));
        ops_done.push(format!("{op:?}"));
        hist_hash.extend_from_slice(format!("{op:?}").as_bytes());
        let witness = |ops: &Vec<String>| {
            Json::obj()
                .with("history", Json::s(&clip(&ops.join(","), 4000)))
                .with("initial_elements", Json::UInt(n_elems0 as u64))
                .with("label", Json::s(label))
        };
        match op {
            Op::Push => {
                n_new += 1;
                let k = push_new(rng, &mut a.project.module[tm], n_new);
                fresh.push(k);
            }
            Op::Merge => {
                n_new += 1;
                let cfg = ModCfg {
                    size: 1,
                    universe: 6,
                    prefix: format!("b{n_new}_"),
                    marker_base: 100_000 + n_new * 100,
                    full: rng.coin(),
                    ..ModCfg::default()
                };
                let mut b = wrap(Gen::new(rng, cfg).module("mb"));
                if rng.chance(2, 3) {
                    // the merged file was loaded from text: its elements carry the uids and line
                    // numbers of their own file
                    if let Ok(l) = as_loaded(&b) {
                        b = l;
                        rec.bump("merge.loaded_file");
                    }
                } else {
                    rec.bump("merge.api_built_module");
                }
                if rng.coin() {
                    // module-level IF_DATA of B (loaded from text, so it carries the uid and line of its
                    // own file); it is moved only if A has none at all
                    let t = format!("\n\n/begin IF_DATA XCP{n_new} 1 2 /begin SEG 3 /end SEG /end IF_DATA\n/begin IF_DATA CCP{n_new} 4 /end IF_DATA\n");
                    if let Ok(frag) = a2lfile::load_fragment(&t, None) {
                        b.project.module[0].if_data = frag.if_data;
                        if a.project.module[0].if_data.is_empty() {
                            rec.bump("merge.brings_if_data");
                        }
                    }
                }
                let a_has_if_data = !a.project.module[0].if_data.is_empty();
                let mut before = keys_of_module(&b, 0).unwrap_or_default();
                if a_has_if_data {
                    before.retain(|k| k.0 != "IF_DATA");
                }
                if a.project.module[0].variant_coding.is_some() {
                    // A keeps its own VARIANT_CODING, B's is not moved
                    before.retain(|k| k.0 != "VARIANT_CODING");
                } else if before.iter().any(|k| k.0 == "VARIANT_CODING") {
                    rec.bump("merge.brings_variant_coding");
                }
                let r = guarded(|| a.merge_modules(&mut b));
                if let Err((sig, detail)) = r {
                    rec.violation(&format!("{sig} in merge_modules"), &detail, witness(&ops_done));
                    return;
                }
                fresh.extend(before);
            }
            Op::RemovePlaced => {
                // of the kind of the most recent new element, if a placed one exists
                let kind = fresh.last().map(|k| k.0.clone()).unwrap_or_default();
                let md = &mut a.project.module[tm];
                macro_rules! remove_one {
                    ($list:expr, $kind:expr) => {{
                        let cands: Vec<usize> = (0..$list.len())
                            .filter(|i| placed.iter().any(|k| k.0 == $kind && k.1 == $list[*i].get_name()))
                            .collect();
                        // only while the last element of the list is a new one: it is the one that
                        // swap_remove_idx moves. (Moving an element that was placed earlier would change
                        // the list order among elements placed by the same sort_new_items() call, which
                        // share a uid and are written in list order - an edit of the list order, outside
                        // the operations the property quantifies over.)
                        let last_is_new = $list.len() > 0 && fresh.iter().any(|k| k.0 == $kind && k.1 == $list[$list.len() - 1].get_name());
                        if let Some(i) = cands.first().copied().filter(|_| last_is_new) {
                            let name = $list[i].get_name().to_string();
                            $list.swap_remove_idx(i);
                            Some(($kind.to_string(), name))
                        } else {
                            None
                        }
                    }};
                }
                let removed: Option<Key> = match kind.as_str() {
                    "MEASUREMENT" => remove_one!(md.measurement, "MEASUREMENT"),
                    "CHARACTERISTIC" => remove_one!(md.characteristic, "CHARACTERISTIC"),
                    "COMPU_METHOD" => remove_one!(md.compu_method, "COMPU_METHOD"),
                    "UNIT" => remove_one!(md.unit, "UNIT"),
                    "GROUP" => remove_one!(md.group, "GROUP"),
                    "FUNCTION" => remove_one!(md.function, "FUNCTION"),
                    "RECORD_LAYOUT" => remove_one!(md.record_layout, "RECORD_LAYOUT"),
                    "AXIS_PTS" => remove_one!(md.axis_pts, "AXIS_PTS"),
                    _ => None,
                };
                if let Some(k) = removed {
                    rec.bump("placed_element_removed_before_sort");
                    placed.retain(|x| *x != k);
                    end_placed.retain(|x| *x != k);
                }
            }
            Op::SortNew => {
                n_sort_calls += 1;
                let r = guarded(|| a.sort_new_items());
                if let Err((sig, detail)) = r {
                    let class = if detail.contains("overflow") && detail.contains("sort.rs") && n_sort_calls >= 10 {
                        "uid overflow in sort_new_items after more than ten calls on the same model".to_string()
                    } else {
                        sig
                    };
                    rec.bump(&format!("overflow_after_calls.{}", n_sort_calls.min(40)));
                    rec.violation(
                        &class,
                        &format!("{detail}; sort_new_items call #{n_sort_calls} on a file with {} module-level elements", placed.len() + fresh.len()),
                        witness(&ops_done),
                    );
                    return;
                }
                match keys_of(&a) {
                    Ok(obs) => {
                        if let Err(msg) = check_order(&placed, &fresh, &obs, true) {
                            // known shape: elements of a kind without placed elements keep uid 0; later
                            // insertions are ordered among them by source line / tag
                            let p2: Vec<Key> = placed.iter().filter(|k| !end_placed.contains(k)).cloned().collect();
                            let mut f2 = fresh.clone();
                            f2.extend(end_placed.iter().cloned());
                            let sig = if !end_placed.is_empty() && check_order(&p2, &f2, &obs, true).is_ok() {
                                "sort_new_items(): elements placed at the end (kind without placed elements) are reordered by later insertions"
                            } else {
                                "sort_new_items(): placement order violated"
                            };
                            rec.violation(
                                sig,
                                &format!("step {step} (sort_new_items call #{n_sort_calls}): {msg}"),
                                witness(&ops_done),
                            );
                            return;
                        }
                        for f in &fresh {
                            let kind_had_placed = placed.iter().any(|k| k.0 == f.0 && !end_placed.contains(k));
                            if !kind_had_placed {
                                end_placed.push(f.clone());
                            }
                        }
                        placed = obs;
                        fresh.clear();
                    }
                    Err(e) => {
                        rec.violation("written text not lexable", &e, witness(&ops_done));
                        return;
                    }
                }
            }
            Op::Write => match keys_of(&a) {
                Ok(obs) => {
                    if let Err(msg) = check_order(&placed, &fresh, &obs, false) {
                        let p2: Vec<Key> = placed.iter().filter(|k| !end_placed.contains(k)).cloned().collect();
                        let mut f2 = fresh.clone();
                        f2.extend(end_placed.iter().cloned());
                        let sig = if !end_placed.is_empty() && check_order(&p2, &f2, &obs, false).is_ok() {
                            "sort_new_items(): elements placed at the end (kind without placed elements) are reordered by later insertions"
                        } else {
                            "write without sort_new_items: order violated"
                        };
                        rec.violation(
                            sig,
                            &format!("step {step}: {msg}"),
                            witness(&ops_done),
                        );
                        return;
                    }
                }
                Err(e) => {
                    rec.violation("written text not lexable", &e, witness(&ops_done));
                    return;
                }
            },
        }
    }
    rec.nontrivial(&hist_hash);
    rec.bump(&format!("{label}.completed"));
    if rec.want_sample() {
        rec.sample(
            Json::obj()
                .with("label", Json::s(label))
                .with("initial_elements", Json::UInt(n_elems0 as u64))
                .with("sort_new_items_calls", Json::UInt(u64::from(n_sort_calls)))
                .with("first_ops", Json::s(&clip(&ops_done.join(","), 200))),
        );
    }
}

/// k consecutive sort_new_items calls with a push every few calls
fn k_sweep(rng: &mut Rng, rec: &mut Recorder, size: usize, k: usize) {
    let cfg = ModCfg {
        size,
        universe: (size * 3).max(12),
        ..ModCfg::default()
    };
    let a0 = wrap(Gen::new(rng, cfg).module("m"));
    let Ok(mut a) = as_loaded(&a0) else { return };
    let Ok(mut placed) = keys_of(&a) else { return };
    let n0 = placed.len();
    let mut n_new = 0;
    let mut end_placed: Vec<Key> = Vec::new();
    for call in 1..=k {
        let mut fresh = Vec::new();
        if call % 3 == 0 {
            n_new += 1;
            fresh.push(push_new(rng, &mut a.project.module[0], n_new));
        }
        rec.eval();
        rec.bump("op.SortNew(k-sweep)");
        let w = Json::obj()
            .with("history", Json::s(&format!("{call} consecutive sort_new_items calls, one push every third call")))
            .with("initial_elements", Json::UInt(n0 as u64));
        if let Err((sig, detail)) = guarded(|| a.sort_new_items()) {
            rec.bump(&format!("overflow_after_calls.{}", call.min(40)));
            let class = if detail.contains("overflow") && detail.contains("sort.rs") && call >= 10 {
                "uid overflow in sort_new_items after more than ten calls on the same model".to_string()
            } else {
                sig
            };
            rec.violation(&class, &format!("{detail}; call #{call} on {n0} elements"), w);
            return;
        }
        match keys_of(&a) {
            Ok(obs) => {
                if let Err(msg) = check_order(&placed, &fresh, &obs, true) {
                    // same classification as in history(): the known shape involves only elements that
                    // were placed "at the end" (uid 0) by an earlier call
                    let p2: Vec<Key> = placed.iter().filter(|k| !end_placed.contains(k)).cloned().collect();
                    let mut f2 = fresh.clone();
                    f2.extend(end_placed.iter().cloned());
                    let sig = if !end_placed.is_empty() && check_order(&p2, &f2, &obs, true).is_ok() {
                        "sort_new_items(): elements placed at the end (kind without placed elements) are reordered by later insertions"
                    } else {
                        "sort_new_items(): placement order violated"
                    };
                    rec.violation(sig, &format!("k-sweep call #{call}: {msg}"), w);
                    return;
                }
                for f in &fresh {
                    let kind_had_placed = placed.iter().any(|k| k.0 == f.0 && !end_placed.contains(k));
                    if !kind_had_placed {
                        end_placed.push(f.clone());
                    }
                }
                placed = obs;
            }
            Err(e) => {
                rec.violation("written text not lexable", &e, w);
                return;
            }
        }
    }
    rec.bump("k_sweep.completed");
}

pub fn run(args: &Args, rec: &mut Recorder) {
    rec.rule = "evaluation = one step of a history over {push new element, merge another module, sort_new_items, write}; after every sort_new_items / write the order of the /begin lines of the written file is compared with an order model (placed elements keep their relative order; new elements of a kind form one run directly after the last placed element of their kind, or come after all placed elements if there is none); every step runs under the panic monitor with overflow checks. distinct_nontrivial = distinct histories by hash of the operation sequence".into();
    rec.assumptions.push("merged modules use disjoint names (no renames); singletons brought by a merge that the library places at the head of the module (A2ML, MOD_COMMON, MOD_PAR) and module-level IF_DATA are excluded from the order comparison; USER_RIGHTS are judged by their user level id; a VARIANT_CODING brought by a merge is judged like any new element without a placed element of its kind (at the end); the order inside a run of new elements is not constrained".into());
    let n_hist: u64 = if args.thorough { 40_000 } else { 5_000 };
    let max_len = if args.thorough { 400 } else { 100 };
    let n_sweeps = 9u64;
    run_cases(args, rec, n_sweeps + n_hist, crate::util::reset_budget, |rng, case, rec| {
        if case < n_sweeps {
            let size = [1usize, 8, 60][(case % 3) as usize];
            let k = [8usize, 20, 64][(case / 3) as usize];
            rec.label(&format!("k-sweep size={size} k={k}"));
            k_sweep(rng, rec, size, k);
        } else {
            let size = *rng.pick(&[1usize, 3, 10, 40]);
            let len = rng.urange(5, max_len);
            history(rng, rec, len, size, "history");
        }
        None
    });
    rec.floor("op.Push", 10);
    rec.floor("placed_element_removed_before_sort", 10);
    rec.floor("histories_on_second_module", 5);
    rec.floor("merge.brings_if_data", 3);
    rec.floor("op.Merge", 5);
    rec.floor("op.SortNew", 10);
    rec.floor("op.Write", 5);
    rec.floor("op.SortNew(k-sweep)", 10);
}
