//! counting global allocator: current and peak heap usage of the worker

use std::alloc::{GlobalAlloc, Layout, System};
use std::sync::atomic::{AtomicUsize, Ordering};

pub struct Counting;

static CUR: AtomicUsize = AtomicUsize::new(0);
static PEAK: AtomicUsize = AtomicUsize::new(0);

unsafe impl GlobalAlloc for Counting {
    unsafe fn alloc(&self, l: Layout) -> *mut u8 {
        let p = System.alloc(l);
        if !p.is_null() {
            let c = CUR.fetch_add(l.size(), Ordering::Relaxed) + l.size();
            PEAK.fetch_max(c, Ordering::Relaxed);
        }
        p
    }
    unsafe fn dealloc(&self, p: *mut u8, l: Layout) {
        System.dealloc(p, l);
        CUR.fetch_sub(l.size(), Ordering::Relaxed);
    }
    unsafe fn realloc(&self, p: *mut u8, l: Layout, new_size: usize) -> *mut u8 {
        let q = System.realloc(p, l, new_size);
        if !q.is_null() {
            if new_size >= l.size() {
                let c = CUR.fetch_add(new_size - l.size(), Ordering::Relaxed) + (new_size - l.size());
                PEAK.fetch_max(c, Ordering::Relaxed);
            } else {
                CUR.fetch_sub(l.size() - new_size, Ordering::Relaxed);
            }
        }
        q
    }
}

/// start a new measurement: peak := current
pub fn reset_peak() {
    PEAK.store(CUR.load(Ordering::Relaxed), Ordering::Relaxed);
}

/// peak additional allocation since reset_peak (approximately: peak - current at reset is not tracked, so report absolute peak)
pub fn peak() -> usize {
    PEAK.load(Ordering::Relaxed)
}
