//! C11 — check(): totality, purity, soundness and completeness of the reference diagnostics.

use crate::gram::load_str;
use crate::modgen::{as_loaded, wrap, Gen, ModCfg};
use crate::refgraph::{edges, visit_refs, Index, Ns};
use a2lfile::A2lObjectName as _;
use a2lfile::A2lObjectNameSetter as _;
use a2lfile::{A2lError, A2lFile};
use vcommon::docgen::DocGen;
use vcommon::grammar::Grammar;
use vcommon::json::{clip, Json};
use vcommon::layout::{render, LayoutCfg};
use vcommon::rng::Rng;
use vcommon::runtime::{guarded, run_cases, Args, Recorder};

fn witness(a2l: &A2lFile, note: &str) -> Json {
    Json::obj()
        .with("note", Json::s(note))
        .with("input", Json::s(&clip(&a2l.write_to_string(), 60000)))
}

/// check() under the crash monitor, plus the purity cross-check (written text unchanged)
fn monitored_check(rec: &mut Recorder, a2l: &A2lFile, origin: &str) -> Option<Vec<A2lError>> {
    let before = a2l.write_to_string();
    let r = guarded(|| a2l.check());
    match r {
        Err((sig, detail)) => {
            rec.violation(&sig, &format!("{origin}: {detail}"), witness(a2l, origin));
            None
        }
        Ok(report) => {
            if a2l.write_to_string() != before {
                rec.violation("check() modified the model", origin, witness(a2l, origin));
            }
            Some(report)
        }
    }
}

/// true if a list of the module holds two items of one name (then a lookup by name depends on
/// the order of the list, and so does the report)
fn has_duplicate_names(a2l: &A2lFile) -> bool {
    macro_rules! dup {
        ($m:expr, $($l:ident),*) => { $( {
            let mut seen = std::collections::HashSet::new();
            if !$m.$l.iter().all(|x| seen.insert(x.get_name().to_string())) { return true; }
        } )* };
    }
    for m in a2l.project.module.iter() {
        dup!(m, measurement, characteristic, axis_pts, instance, blob, compu_method, compu_tab, compu_vtab, compu_vtab_range, record_layout, unit, group, function,
            typedef_axis, typedef_blob, typedef_characteristic, typedef_measurement, typedef_structure, frame, transformer);
        // objects share one namespace
        let mut seen = std::collections::HashSet::new();
        let names = m.measurement.iter().map(|x| x.get_name()).chain(m.characteristic.iter().map(|x| x.get_name())).chain(m.axis_pts.iter().map(|x| x.get_name())).chain(m.instance.iter().map(|x| x.get_name())).chain(m.blob.iter().map(|x| x.get_name()));
        for n in names {
            if !seen.insert(n.to_string()) {
                return true;
            }
        }
    }
    false
}

/// the report must not depend on the order of the lists: check(sort(M)) == check(M) as multisets
fn sort_invariance(rec: &mut Recorder, a2l: &A2lFile, report: &[A2lError], origin: &str) {
    if has_duplicate_names(a2l) {
        rec.bump("sort_invariance.skipped_duplicate_names");
        return;
    }
    let mut sorted = a2l.clone();
    sorted.sort();
    rec.bump("sort_invariance.compared");
    if !report.is_empty() {
        rec.bump("sort_invariance.compared_nonempty_reports");
    }
    let Some(rep2) = monitored_check(rec, &sorted, &format!("{origin}, sorted")) else { return };
    let mut a: Vec<String> = report.iter().map(describe).collect();
    let mut b: Vec<String> = rep2.iter().map(describe).collect();
    a.sort();
    b.sort();
    if a != b {
        let only_a: Vec<&String> = a.iter().filter(|x| !b.contains(x)).take(2).collect();
        let only_b: Vec<&String> = b.iter().filter(|x| !a.contains(x)).take(2).collect();
        rec.violation(
            "check() reports something else after sort()",
            &format!("{origin}: {} entries before, {} after sort(); only before: {only_a:?}; only after: {only_b:?}", a.len(), b.len()),
            witness(a2l, origin),
        );
    }
}

fn removed_helper_case(rng: &mut Rng, rec: &mut Recorder, a2l: &A2lFile) {
    use a2lfile::A2lObjectName;
    let mut b = a2l.clone();
    let m = &mut b.project.module[0];
    let kind = rng.below(5);
    let how = rng.below(3);
    macro_rules! remove_from {
        ($list:expr, $ns:expr, $label:expr) => {{
            let len = $list.len();
            if len == 0 {
                return;
            }
            let idx = match rng.below(3) {
                0 => len - 1,
                1 => 0,
                _ => rng.below(len),
            };
            let name = $list[idx].get_name().to_string();
            let pos = if idx + 1 == len { "last" } else if idx == 0 { "first" } else { "middle" };
            match how {
                0 => {
                    $list.swap_remove_idx(idx);
                }
                1 => {
                    $list.swap_remove(&name);
                }
                _ => {
                    if idx + 1 == len {
                        $list.pop();
                    } else {
                        $list.swap_remove_idx(idx);
                    }
                }
            }
            (name, $ns, format!("{} {} ({}, {})", $label, pos, ["swap_remove_idx", "swap_remove", "pop/swap_remove_idx"][how], len))
        }};
    }
    let (name, ns, label) = match kind {
        0 => remove_from!(m.unit, Ns::Unit, "UNIT"),
        1 => remove_from!(m.compu_method, Ns::Cm, "COMPU_METHOD"),
        2 => remove_from!(m.record_layout, Ns::Rl, "RECORD_LAYOUT"),
        3 => remove_from!(m.function, Ns::Func, "FUNCTION"),
        _ => remove_from!(m.group, Ns::Grp, "GROUP"),
    };
    rec.eval();
    rec.bump(&format!("removed_helper.{}", label.split(' ').take(2).collect::<Vec<_>>().join(".")));
    let Some(rep) = monitored_check(rec, &b, &format!("helper removed through the list API: {label} {name}")) else { return };
    // covered references that still name the removed element
    let dangling: Vec<_> = edges(&b.project.module[0]).into_iter().filter(|e| e.ctx.covered && e.ctx.ns == ns && e.target == name).collect();
    let named = rep.iter().any(|r| matches!(r, A2lError::CrossReferenceError { target_name, .. } if target_name == &name));
    if !dangling.is_empty() && !named {
        rec.violation(
            &format!("reference to an element removed through the list API is not reported: {}", dangling[0].ctx.site),
            &format!("{label} {name} removed; {} covered reference(s) still name it, first at {} of {} {}; report: {:?}", dangling.len(), dangling[0].ctx.site, dangling[0].ctx.kind, dangling[0].ctx.rname, rep.iter().take(3).map(describe).collect::<Vec<_>>()),
            witness(&b, &label),
        );
    }
    if dangling.is_empty() && named {
        rec.violation(
            "check() names a removed element that nothing refers to",
            &format!("{label} {name}"),
            witness(&b, &label),
        );
    }
    // a name that is still present must never be reported as missing
    let idx = Index::build(&b.project.module[0]);
    for r in &rep {
        if let A2lError::CrossReferenceError { target_name, .. } = r {
            if target_name != &name && !target_name.starts_with("THIS.") {
                let exists = [Ns::Obj, Ns::Cm, Ns::Tab, Ns::Td, Ns::Unit, Ns::Rl, Ns::Func, Ns::Grp, Ns::Trf, Ns::Seg].iter().any(|n| idx.resolve(*n, target_name).is_some());
                if exists {
                    rec.violation(
                        "after a list edit check() reports an existing element as missing",
                        &format!("{label} {name} removed; report: {}", describe(r)),
                        witness(&b, &label),
                    );
                    break;
                }
            }
        }
    }
}

fn describe(e: &A2lError) -> String {
    clip(&e.to_string(), 200)
}

pub fn run(args: &Args, rec: &mut Recorder) {
    rec.rule = "evaluation = one check() call under the crash and purity monitors: (a) totality on syntactically valid but semantically arbitrary documents and structurally odd modules, (b) a fully consistent generated module must yield an empty report, (c) each single corrupted covered reference of such a module must yield a CrossReferenceError naming the bogus target. distinct_nontrivial = distinct module texts by content hash".into();
    rec.assumptions.push("'covered' references are the sites check() examines at the pinned commit (frozen table, column C of DESIGN.md appendix A)".into());
    let g = Grammar::load_default();
    let total: u64 = if args.thorough { 150_000 } else { 25_000 };
    run_cases(args, rec, total, crate::util::reset_budget, |rng, case, rec| {
        match case % 4 {
            0 => {
                // (a) totality on arbitrary grammar documents
                let cfg = crate::c01::gen_cfg_wide(rng, args.thorough);
                let mut gen = DocGen::new(&g, cfg);
                let doc = gen.gen_doc(rng);
                let text = render(&doc.flatten(), &LayoutCfg::c05(rng), rng).text;
                rec.nontrivial(text.as_bytes());
                if rec.want_sample() && case % 97 == 0 {
                    rec.sample(vcommon::json::Json::obj().with("kind", vcommon::json::Json::s("totality: grammar document")).with("text", vcommon::json::Json::s(&vcommon::json::clip(&text, 400))));
                }
                if let Ok(Ok((a2l, _))) = load_str(&text, false) {
                    rec.eval();
                    rec.bump("totality.grammar_documents");
                    if let Some(rep) = monitored_check(rec, &a2l, "G-doc document") {
                        rec.add("totality.report_entries", rep.len() as u64);
                        if case % 8 == 0 {
                            sort_invariance(rec, &a2l, &rep, "G-doc document");
                        }
                    }
                }
            }
            1 => {
                // (a) structurally odd modules
                let cfg = ModCfg {
                    size: rng.urange(1, 5),
                    ..ModCfg::default()
                };
                let module = Gen::new(rng, cfg).module("odd");
                let mut a2l = wrap(module);
                let oddity = odd_mutation(rng, &mut a2l);
                if rng.coin() {
                    // make the helpers differ from each other, so that the report depends on which
                    // RECORD_LAYOUT / COMPU_METHOD a name designates
                    for md in a2l.project.module.iter_mut() {
                        for (i, rl) in md.record_layout.iter_mut().enumerate() {
                            if i % 2 == 1 {
                                rl.axis_pts_x = None;
                                rl.fnc_values = None;
                            }
                        }
                        for (i, cm) in md.compu_method.iter_mut().enumerate() {
                            if i % 2 == 1 {
                                cm.conversion_type = a2lfile::ConversionType::Linear;
                                cm.coeffs_linear = Some(a2lfile::CoeffsLinear::new(1000.0, 5.0));
                            }
                        }
                    }
                    rec.bump("totality.odd.diversified_helpers");
                }
                rec.eval();
                rec.bump(&format!("totality.odd.{oddity}"));
                rec.nontrivial(a2l.write_to_string().as_bytes());
                if let Some(rep) = monitored_check(rec, &a2l, &format!("odd module: {oddity}")) {
                    sort_invariance(rec, &a2l, &rep, &format!("odd module: {oddity}"));
                }
                // also after a load round trip (line numbers present)
                if let Ok(l) = as_loaded(&a2l) {
                    monitored_check(rec, &l, &format!("odd module (loaded): {oddity}"));
                }
            }
            _ => {
                // (b) + (c)
                let cfg = ModCfg {
                    size: rng.urange(2, 5),
                    ref_pct: *rng.pick(&[50u32, 80, 100]),
                    ..ModCfg::default()
                };
                let module = Gen::new(rng, cfg).module("m");
                let a2l0 = wrap(module);
                let a2l = match as_loaded(&a2l0) {
                    Ok(a) => a,
                    Err(e) => {
                        rec.violation("generated consistent module does not load", &e, witness(&a2l0, ""));
                        return None;
                    }
                };
                rec.eval();
                rec.bump("consistent_modules");
                rec.nontrivial(a2l.write_to_string().as_bytes());
                let Some(report) = monitored_check(rec, &a2l, "consistent module") else { return None };
                if !report.is_empty() {
                    rec.violation(
                        &format!("consistent module yields a report: {}", crate::gram::err_class(&report[0])),
                        &format!("{} entries, first: {}", report.len(), describe(&report[0])),
                        witness(&a2l, "fully consistent module"),
                    );
                    return None;
                }
                // (c0) a helper removed through the list API (last / first / middle position; by index,
                // by name, pop): check() must not panic and must name the removed element wherever a
                // covered reference still points at it
                if rng.chance(1, 2) {
                    removed_helper_case(rng, rec, &a2l);
                }
                // (c) single corruptions of every covered reference
                let es = edges(&a2l.project.module[0]);
                for (k, e) in es.iter().enumerate() {
                    if !e.ctx.covered {
                        continue;
                    }
                    // quick tier: a sample of the edges per module; thorough: all
                    if !args.thorough && rng.chance(2, 3) {
                        continue;
                    }
                    // a missing target may also carry the THIS. prefix: outside a structure component
                    // the convention does not apply, the name is simply missing
                    let bogus = if e.ctx.site.starts_with("Characteristic.axis_descr[]")
                        && (e.ctx.site.ends_with("axis_pts_ref") || e.ctx.site.ends_with("curve_axis_ref"))
                        && rng.chance(1, 2)
                    {
                        rec.bump("corrupted.with_THIS_prefix_outside_structure");
                        format!("THIS.zz_bogus_{k}")
                    } else if e.ctx.site.starts_with("TypedefCharacteristic.axis_descr[]")
                        && (e.ctx.site.ends_with("axis_pts_ref") || e.ctx.site.ends_with("curve_axis_ref"))
                        && rng.chance(1, 2)
                    {
                        // in a typedef the prefix names a component of the containing structures; a
                        // component that no structure has (or a typedef that is in no structure, or is
                        // also used directly) leaves the reference unresolved in every case
                        rec.bump("corrupted.with_THIS_prefix_in_typedef");
                        format!("THIS.zz_bogus_{k}")
                    } else {
                        format!("zz_bogus_{k}")
                    };
                    let mut b = a2l.clone();
                    let mut idx = 0;
                    visit_refs(&mut b.project.module[0], &mut |_ctx, val| {
                        if idx == k {
                            *val = bogus.clone();
                        }
                        idx += 1;
                    });
                    rec.eval();
                    rec.bump(&format!("corrupted.{}", e.ctx.site));
                    let Some(rep) = monitored_check(rec, &b, "corrupted module") else { continue };
                    let named = rep.iter().any(|r| match r {
                        A2lError::CrossReferenceError { target_name, .. } => {
                            target_name == &bogus || Some(target_name.as_str()) == bogus.strip_prefix("THIS.")
                        }
                        _ => false,
                    });
                    if !named {
                        rec.violation(
                            &format!("corrupted reference not reported: {}", e.ctx.site),
                            &format!(
                                "{} {} site {} {:?}: target {} replaced by {bogus}; report: {:?}",
                                e.ctx.kind,
                                e.ctx.rname,
                                e.ctx.site,
                                e.ctx.pos,
                                e.target,
                                rep.iter().take(3).map(describe).collect::<Vec<_>>()
                            ),
                            witness(&b, &format!("corrupted {} of {} {}", e.ctx.site, e.ctx.kind, e.ctx.rname)),
                        );
                    }
                    // soundness: nothing else may be reported (the rest of the module is consistent),
                    // except follow-up content errors about the same element
                    // (a THIS.<component> reference legitimately becomes invalid when the structure that
                    // contained its typedef is cut off by the corruption)
                    let foreign = rep.iter().find(|r| match r {
                        A2lError::CrossReferenceError { target_name, .. } => {
                            target_name != &bogus
                                && Some(target_name.as_str()) != bogus.strip_prefix("THIS.")
                                && !(e.ctx.site.starts_with("TypedefStructure") && target_name.starts_with("THIS."))
                        }
                        _ => false,
                    });
                    if let Some(fe) = foreign {
                        rec.violation(
                            &format!("unrelated cross-reference problem reported after corrupting {}", e.ctx.site),
                            &describe(fe),
                            witness(&b, ""),
                        );
                    }
                }
                // (d) the THIS. convention with several containing structures: the component must exist
                // in every structure that contains the typedef; renaming it in one of them leaves the
                // reference dangling there
                {
                    let m = &a2l.project.module[0];
                    let this_users: Vec<(String, String)> = m
                        .typedef_characteristic
                        .iter()
                        .flat_map(|t| {
                            t.axis_descr.iter().filter_map(move |ad| {
                                let r = ad.axis_pts_ref.as_ref().map(|x| x.axis_points.clone()).or_else(|| ad.curve_axis_ref.as_ref().map(|x| x.curve_axis.clone()))?;
                                r.strip_prefix("THIS.").map(|c| (t.get_name().to_string(), c.to_string()))
                            })
                        })
                        .collect();
                    for (td, comp) in this_users {
                        let containing: Vec<usize> = m
                            .typedef_structure
                            .iter()
                            .enumerate()
                            .filter(|(_, s)| s.structure_component.iter().any(|c| c.component_type == td))
                            .map(|(i, _)| i)
                            .collect();
                        if containing.is_empty() {
                            continue;
                        }
                        let mut base = a2l.clone();
                        let mut containing = containing;
                        if containing.len() < 2 {
                            // a second structure with the same components
                            let mut twin = base.project.module[0].typedef_structure[containing[0]].clone();
                            twin.set_name("zz_second_structure".to_string());
                            base.project.module[0].typedef_structure.push(twin);
                            containing.push(base.project.module[0].typedef_structure.len() - 1);
                            let Some(rep) = monitored_check(rec, &base, "consistent module with a second structure") else { continue };
                            if !rep.is_empty() {
                                rec.violation(
                                    &format!("consistent module yields a report: {}", crate::gram::err_class(&rep[0])),
                                    &format!("after adding a copy of a TYPEDEF_STRUCTURE under another name: {} entries, first: {}", rep.len(), describe(&rep[0])),
                                    witness(&base, "fully consistent module"),
                                );
                                continue;
                            }
                        }
                        let victim = *rng.pick(&containing);
                        let mut b = base.clone();
                        let mut renamed = false;
                        let comps = &mut b.project.module[0].typedef_structure[victim].structure_component;
                        let found = comps.iter().position(|c| c.get_name() == comp);
                        if let Some(ci) = found {
                            comps.rename_item(ci, "zz_renamed_component");
                            renamed = true;
                        }
                        if !renamed {
                            continue;
                        }
                        rec.eval();
                        rec.bump("corrupted.THIS_component_renamed_in_one_of_several_structures");
                        let Some(rep) = monitored_check(rec, &b, "component renamed in one structure") else { continue };
                        let named = rep.iter().any(|r| matches!(r, A2lError::CrossReferenceError { target_name, .. } if target_name == &comp || target_name == &format!("THIS.{comp}")));
                        if !named {
                            rec.violation(
                                "THIS.<component> that is missing in one of several containing structures is not reported",
                                &format!("TYPEDEF_CHARACTERISTIC {td} refers to THIS.{comp}; the component was renamed in structure #{victim} of {} containing structures; report: {:?}", containing.len(), rep.iter().take(3).map(describe).collect::<Vec<_>>()),
                                witness(&b, ""),
                            );
                        }
                        break;
                    }
                }
                // (e) sorting does not change what the check sees
                if case % 3 == 0 {
                    let mut sorted = a2l.clone();
                    sorted.sort();
                    rec.eval();
                    rec.bump("consistent_modules_after_sort");
                    if let Some(rep) = monitored_check(rec, &sorted, "consistent module after sort()") {
                        if !rep.is_empty() {
                            rec.violation(
                                &format!("consistent module yields a report after sort(): {}", crate::gram::err_class(&rep[0])),
                                &format!("{} entries, first: {}", rep.len(), describe(&rep[0])),
                                witness(&sorted, "fully consistent module, sorted"),
                            );
                        }
                    }
                }
                let _ = Ns::Obj;
            }
        }
        None
    });
    rec.floor("consistent_modules", 10);
    rec.floor("consistent_modules_after_sort", 5);
    rec.floor("sort_invariance.compared_nonempty_reports", 5);
    rec.floor("corrupted.THIS_component_renamed_in_one_of_several_structures", 3);
    rec.floor("totality.grammar_documents", 10);
    rec.floor("totality.odd.many_axis_descr", 1);
    rec.floor("totality.odd.duplicate_names", 1);
    rec.floor("totality.odd.no_mod_par", 1);
    for site in COVERED_SITES {
        rec.floor(&format!("corrupted.{site}"), 1);
    for k in ["UNIT", "COMPU_METHOD", "RECORD_LAYOUT", "FUNCTION", "GROUP"] {
        rec.floor(&format!("removed_helper.{k}.last"), 3);
    }
    }
}

/// column C of appendix A (sites examined by check() today)
pub const COVERED_SITES: &[&str] = &[
    "AxisPts.input_quantity",
    "AxisPts.deposit_record",
    "AxisPts.conversion",
    "AxisPts.function_list",
    "AxisPts.ref_memory_segment",
    "Characteristic.deposit",
    "Characteristic.conversion",
    "Characteristic.axis_descr[].input_quantity",
    "Characteristic.axis_descr[].conversion",
    "Characteristic.axis_descr[].axis_pts_ref",
    "Characteristic.axis_descr[].curve_axis_ref",
    "Characteristic.comparison_quantity",
    "Characteristic.dependent_characteristic",
    "Characteristic.virtual_characteristic",
    "Characteristic.map_list",
    "Characteristic.function_list",
    "Characteristic.ref_memory_segment",
    "Measurement.conversion",
    "Measurement.function_list",
    "Measurement.ref_memory_segment",
    "Instance.type_ref",
    "TypedefAxis.input_quantity",
    "TypedefAxis.record_layout",
    "TypedefAxis.conversion",
    "TypedefCharacteristic.record_layout",
    "TypedefCharacteristic.conversion",
    "TypedefCharacteristic.axis_descr[].input_quantity",
    "TypedefCharacteristic.axis_descr[].conversion",
    "TypedefCharacteristic.axis_descr[].axis_pts_ref",
    "TypedefMeasurement.conversion",
    "TypedefStructure.structure_component[].component_type",
    "CompuMethod.compu_tab_ref",
    "CompuMethod.status_string_ref",
    "CompuMethod.ref_unit",
    "Function.def_characteristic",
    "Function.ref_characteristic",
    "Function.in_measurement",
    "Function.loc_measurement",
    "Function.out_measurement",
    "Function.sub_function",
    "Group.ref_characteristic",
    "Group.ref_measurement",
    "Group.function_list",
    "Group.sub_group",
    "Transformer.inverse_transformer",
    "Transformer.transformer_in_objects",
    "Transformer.transformer_out_objects",
];

fn odd_mutation(rng: &mut Rng, a2l: &mut A2lFile) -> &'static str {
    use a2lfile::*;
    let m = &mut a2l.project.module[0];
    match rng.below(7) {
        0 => {
            // more than five AXIS_DESCR with STD_AXIS
            let n = rng.urange(6, 8);
            if let Some(c) = m.characteristic.iter_mut().next() {
                c.axis_descr.clear();
                for _ in 0..n {
                    c.axis_descr.push(AxisDescr::new(
                        AxisDescrAttribute::StdAxis,
                        "NO_INPUT_QUANTITY".into(),
                        "NO_COMPU_METHOD".into(),
                        4,
                        0.0,
                        10.0,
                    ));
                }
            }
            "many_axis_descr"
        }
        1 => {
            // duplicate names inside one list (every list kind in turn) and across object kinds
            macro_rules! dup_first {
                ($list:expr) => {{
                    let first = $list.iter().next().cloned();
                    if let Some(f) = first {
                        $list.push(f);
                    }
                }};
            }
            match rng.below(12) {
                0 => dup_first!(m.measurement),
                1 => dup_first!(m.characteristic),
                2 => dup_first!(m.group),
                3 => dup_first!(m.function),
                4 => dup_first!(m.compu_method),
                5 => dup_first!(m.unit),
                6 => dup_first!(m.record_layout),
                7 => dup_first!(m.typedef_structure),
                8 => dup_first!(m.instance),
                9 => dup_first!(m.axis_pts),
                10 => dup_first!(m.transformer),
                _ => dup_first!(m.compu_vtab),
            }
            let first_opt = m.measurement.iter().next().cloned();
            if let Some(first) = first_opt {
                if rng.coin() {
                    let mut c = Characteristic::new(
                        first.get_name().to_string(),
                        "dup".into(),
                        CharacteristicType::Value,
                        0,
                        "nowhere".into(),
                        0.0,
                        "NO_COMPU_METHOD".into(),
                        0.0,
                        1.0,
                    );
                    c.axis_descr.clear();
                    m.characteristic.push(c);
                }
            }
            "duplicate_names"
        }
        2 => {
            m.mod_par = None;
            "no_mod_par"
        }
        3 => {
            // empty lists everywhere
            for f in m.function.iter_mut() {
                f.def_characteristic = Some(DefCharacteristic::new());
                f.sub_function = Some(SubFunction::new());
            }
            for g in m.group.iter_mut() {
                g.sub_group = Some(SubGroup::new());
                g.ref_measurement = Some(RefMeasurement::new());
            }
            "empty_lists"
        }
        4 => {
            // THIS. in a directly used typedef characteristic, and in a plain characteristic
            if let Some(tc) = m.typedef_characteristic.iter_mut().next() {
                let name = tc.get_name().to_string();
                for ad in &mut tc.axis_descr {
                    ad.axis_pts_ref = Some(AxisPtsRef::new("THIS.nowhere".into()));
                }
                m.instance.push(Instance::new("zz_inst".into(), "x".into(), name, 0));
            }
            "this_in_directly_used_typedef"
        }
        5 => {
            // record layouts without FNC_VALUES / AXIS_PTS_X, groups that are root and sub group
            for rl in m.record_layout.iter_mut() {
                rl.fnc_values = None;
                rl.axis_pts_x = None;
            }
            for g in m.group.iter_mut() {
                g.root = Some(Root::new());
            }
            "stripped_record_layouts_and_all_root"
        }
        _ => {
            // everything dangling
            visit_refs(m, &mut |_c, v| *v = "zz_nowhere".into());
            "all_dangling"
        }
    }
}
