mod alloc;
mod api;
mod apibuild;
mod c01;
mod c02;
mod c04;
mod c05;
mod c06;
mod c07;
mod c08;
mod c10;
mod c11;
mod c12;
mod c14;
mod c15;
mod c16;
mod c17;
mod c18;
mod c19;
mod modgen;
mod refgraph;
mod specs;
mod gram;
mod util;
mod c03;
mod c13;
mod smoke;

use vcommon::runtime::{install_panic_hook, Args, Recorder};

#[global_allocator]
static GLOBAL: alloc::Counting = alloc::Counting;

fn main() {
    let args = Args::parse();
    install_panic_hook();
    // run everything on a thread with an 8 MiB stack (what a user of the library gets on main)
    let handle = std::thread::Builder::new()
        .stack_size(8 * 1024 * 1024)
        .spawn(move || {
            let mut rec = Recorder::new(&args);
            match args.prop.as_str() {
                "C01" => c01::run(&args, &mut rec),
                "C02" => c02::run(&args, &mut rec),
                "C03" => c03::run(&args, &mut rec),
                "C04" => c04::run(&args, &mut rec),
                "C05" => c05::run(&args, &mut rec),
                "C06" => c06::run(&args, &mut rec),
                "C07" => c07::run(&args, &mut rec),
                "C08" => c08::run_c08(&args, &mut rec),
                "C09" => c08::run_c09(&args, &mut rec),
                "C10" => c10::run(&args, &mut rec),
                "C11" => c11::run(&args, &mut rec),
                "C12" => c12::run(&args, &mut rec),
                "C13" => c13::run(&args, &mut rec),
                "C14" => c14::run(&args, &mut rec),
                "C15" => c15::run(&args, &mut rec),
                "C16" => c16::run(&args, &mut rec),
                "C17" => c17::run(&args, &mut rec),
                "C18" => c18::run(&args, &mut rec),
                "C19" => c19::run(&args, &mut rec),
                "smoke" => smoke::run(&args, &mut rec),
                "spectext" => {
                    println!("{}\n====", specs::s1::SPECONE_TEXT);
                    println!("{}\n====", specs::s2::SPECTWO_TEXT);
                    println!("{}\n====", specs::s3::SPECTHREE_TEXT);
                    println!("{}\n====", specs::s4::SPECFOUR_TEXT);
                    println!("{}\n====", specs::s5::SPECFIVE_TEXT);
                    println!("{}\n====", specs::s6::SPECSIX_TEXT);
                }
                "load" => {
                    let path = args.extra.get("file").expect("--file");
                    let strict = args.extra.get("strict").is_some_and(|v| v == "1");
                    let text = std::fs::read_to_string(path).unwrap_or_default();
                    crate::util::reset_budget();
                    let res = if args.extra.contains_key("by-path") {
                        a2lfile::load(path, None, strict)
                    } else {
                        a2lfile::load_from_string(&text, None, strict)
                    };
                    match res {
                        Ok((a, log)) => {
                            println!("OK, {} log entries", log.len());
                            for l in &log {
                                println!("  log: {l}");
                            }
                            if args.extra.contains_key("debug") {
                                println!("{a:#?}");
                            }
                            println!("---- written:\n{}", a.write_to_string());
                        }
                        Err(e) => println!("ERR: {e}"),
                    }
                }
                "bt" => { let r = a2lfile::load_from_string("/begin A2ML x", None, false); println!("{:?}", r.is_ok()); }
                other => {
                    eprintln!("unknown property {other}");
                    std::process::exit(3);
                }
            }
            if !args.out.is_empty() {
                rec.write_summary(&args.out);
            }
        })
        .unwrap();
    if handle.join().is_err() {
        std::process::exit(4);
    }
}
