mod alloc;
mod util;
mod c03;
mod c13;
mod smoke;

use vcommon::runtime::{install_panic_hook, Args, Recorder};

#[global_allocator]
static GLOBAL: alloc::Counting = alloc::Counting;

fn main() {
    let args = Args::parse();
    install_panic_hook();
    // run everything on a thread with an 8 MiB stack (what a user of the library gets on main)
    let handle = std::thread::Builder::new()
        .stack_size(8 * 1024 * 1024)
        .spawn(move || {
            let mut rec = Recorder::new(&args);
            match args.prop.as_str() {
                "C03" => c03::run(&args, &mut rec),
                "C13" => c13::run(&args, &mut rec),
                "smoke" => smoke::run(&args, &mut rec),
                "bt" => { let r = a2lfile::load_from_string("/begin A2ML x", None, false); println!("{:?}", r.is_ok()); }
                other => {
                    eprintln!("unknown property {other}");
                    std::process::exit(3);
                }
            }
            if !args.out.is_empty() {
                rec.write_summary(&args.out);
            }
        })
        .unwrap();
    if handle.join().is_err() {
        std::process::exit(4);
    }
}
