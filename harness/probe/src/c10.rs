//! C10 — cleanup(): reference-graph safety / completeness / idempotence monitor.

use crate::modgen::{as_loaded, wrap, Gen, ModCfg};
use crate::refgraph::{edges, is_conventional, visit_refs, Index, Ns};
use a2lfile::*;
use std::collections::HashSet;
use vcommon::json::{clip, Json};
use vcommon::rng::Rng;
use vcommon::runtime::{guarded, run_cases, Args, Recorder};

fn witness(a: &A2lFile, note: &str) -> Json {
    Json::obj()
        .with("note", Json::s(note))
        .with("input", Json::s(&clip(&a.write_to_string(), 60000)))
}

/// Debug text with all element names and conventional names masked
fn fp<T: std::fmt::Debug>(x: &T) -> String {
    let d = format!("{x:?}");
    let mut out = String::new();
    let mut rest = d.as_str();
    while let Some(p) = rest.find('"') {
        out.push_str(&rest[..p]);
        let after = &rest[p + 1..];
        let Some(e) = after.find('"') else {
            out.push_str(&rest[p..]);
            rest = "";
            break;
        };
        let inner = &after[..e];
        let is_name = inner.contains('_')
            && (inner.starts_with("NO_") || inner.starts_with("THIS.") || inner.starts_with("zz_") || {
                let base = inner.split(".MERGE").next().unwrap_or(inner);
                base.rsplit_once('_')
                    .is_some_and(|(pre, n)| pre.chars().all(|c| c.is_ascii_lowercase() || c.is_ascii_digit() || c == '_') && n.chars().all(|c| c.is_ascii_digit()) && !n.is_empty())
            });
        if is_name {
            // names (the element's own and every reference) are left out completely, so that the
            // fingerprint does not depend on reference lists that cleanup may prune
            let tail = &after[e + 1..];
            rest = tail.strip_prefix(", ").unwrap_or(tail);
            if out.ends_with(", ") && (rest.starts_with(']') || rest.starts_with(" }")) {
                out.truncate(out.len() - 2);
            }
            continue;
        } else {
            out.push('"');
            out.push_str(inner);
            out.push('"');
        }
        rest = &after[e + 1..];
    }
    out.push_str(rest);
    out
}

/// (kind, name, fingerprint) of the elements that cleanup must never remove or alter
fn protected(m: &Module) -> Vec<(&'static str, String, String)> {
    let mut out = Vec::new();
    macro_rules! add {
        ($list:expr, $kind:expr) => {
            for x in $list.iter() {
                out.push(($kind, x.get_name().to_string(), fp(x)));
            }
        };
    }
    add!(m.axis_pts, "AXIS_PTS");
    add!(m.blob, "BLOB");
    add!(m.characteristic, "CHARACTERISTIC");
    add!(m.instance, "INSTANCE");
    add!(m.measurement, "MEASUREMENT");
    add!(m.typedef_axis, "TYPEDEF_AXIS");
    add!(m.typedef_blob, "TYPEDEF_BLOB");
    add!(m.typedef_characteristic, "TYPEDEF_CHARACTERISTIC");
    add!(m.typedef_measurement, "TYPEDEF_MEASUREMENT");
    add!(m.typedef_structure, "TYPEDEF_STRUCTURE");
    add!(m.frame, "FRAME");
    add!(m.transformer, "TRANSFORMER");
    if let Some(mp) = &m.mod_par {
        add!(mp.memory_segment, "MEMORY_SEGMENT");
    }
    for u in &m.user_rights {
        out.push(("USER_RIGHTS", u.user_level_id.clone(), fp(u)));
    }
    out
}

fn helper_names(m: &Module) -> Vec<(Ns, &'static str, String)> {
    let mut out = Vec::new();
    for x in &m.compu_method {
        out.push((Ns::Cm, "COMPU_METHOD", x.get_name().to_string()));
    }
    for x in &m.compu_tab {
        out.push((Ns::Tab, "COMPU_TAB", x.get_name().to_string()));
    }
    for x in &m.compu_vtab {
        out.push((Ns::Tab, "COMPU_VTAB", x.get_name().to_string()));
    }
    for x in &m.compu_vtab_range {
        out.push((Ns::Tab, "COMPU_VTAB_RANGE", x.get_name().to_string()));
    }
    for x in &m.unit {
        out.push((Ns::Unit, "UNIT", x.get_name().to_string()));
    }
    for x in &m.record_layout {
        out.push((Ns::Rl, "RECORD_LAYOUT", x.get_name().to_string()));
    }
    out
}

/// knobs: unused helpers, dangling references, empty groups / functions
fn apply_knobs(rng: &mut Rng, m: &mut Module, rec: &mut Recorder) {
    if rng.coin() {
        // unused helpers of every kind
        m.compu_method.push(CompuMethod::new("zz_unused_cm".into(), "mk900".into(), ConversionType::Identical, "%1".into(), "".into()));
        m.compu_vtab.push(CompuVtab::new("zz_unused_vtab".into(), "mk901".into(), ConversionType::TabVerb, 0));
        m.unit.push(Unit::new("zz_unused_unit".into(), "mk902".into(), "x".into(), UnitType::Derived));
        m.record_layout.push(RecordLayout::new("zz_unused_rl".into()));
        // a chain that is only used by an unused helper
        let mut u2 = Unit::new("zz_unused_unit2".into(), "mk903".into(), "x".into(), UnitType::Derived);
        u2.ref_unit = Some(RefUnit::new("zz_unused_unit".into()));
        m.unit.push(u2);
        let mut cm2 = CompuMethod::new("zz_unused_cm2".into(), "mk904".into(), ConversionType::TabVerb, "%1".into(), "".into());
        cm2.compu_tab_ref = Some(CompuTabRef::new("zz_unused_vtab".into()));
        cm2.ref_unit = Some(RefUnit::new("zz_unused_unit2".into()));
        m.compu_method.push(cm2);
        rec.bump("knob.unused_helpers");
    }
    if rng.chance(1, 3) {
        // dangling references at random sites
        let mut k = 0;
        let pick = rng.below(40);
        visit_refs(m, &mut |_c, v| {
            if k % 40 == pick {
                *v = format!("zz_dangling_{k}");
            }
            k += 1;
        });
        rec.bump("knob.dangling_references");
    }
    if rng.coin() {
        m.group.push(Group::new("zz_empty_group".into(), "mk905".into()));
        m.function.push(Function::new("zz_empty_function".into(), "mk906".into()));
        // a group whose only content is an empty sub group: becomes empty during cleanup
        let mut g = Group::new("zz_parent_of_empty".into(), "mk907".into());
        g.root = Some(Root::new());
        let mut sg = SubGroup::new();
        sg.identifier_list.push("zz_empty_group".into());
        g.sub_group = Some(sg);
        m.group.push(g);
        if rng.coin() {
            // ... and is referenced by USER_RIGHTS
            let mut ur = UserRights::new("zz_ur".into());
            let mut rg = RefGroup::new();
            rg.identifier_list.push("zz_parent_of_empty".into());
            ur.ref_group.push(rg);
            m.user_rights.push(ur);
        }
        rec.bump("knob.empty_groups_and_functions");
    }
    if rng.chance(1, 3) {
        // an empty group that is the sub group of two (or three) other groups which have content of
        // their own: all of them must drop the reference when the empty group is deleted
        m.group.push(Group::new("zz_shared_empty_group".into(), "mk908".into()));
        let member = m.measurement.iter().next().map(|x| x.get_name().to_string());
        for k in 0..rng.urange(2, 3) {
            let mut g = Group::new(format!("zz_parent_{k}"), format!("mk91{k}"));
            g.root = Some(Root::new());
            let mut sg = SubGroup::new();
            if rng.coin() {
                sg.identifier_list.push("zz_empty_group_that_does_not_exist".into());
            }
            sg.identifier_list.push("zz_shared_empty_group".into());
            g.sub_group = Some(sg);
            if let Some(name) = &member {
                let mut rm = RefMeasurement::new();
                rm.identifier_list.push(name.clone());
                g.ref_measurement = Some(rm);
            }
            m.group.push(g);
        }
        rec.bump("knob.empty_group_shared_by_several_parents");
    }
}

fn check_cleanup(rec: &mut Recorder, m0: &A2lFile, label: &str) {
    let mut r = m0.clone();
    if let Err((sig, detail)) = guarded(|| r.cleanup()) {
        rec.violation(&sig, &detail, witness(m0, label));
        return;
    }
    let mm = &m0.project.module[0];
    let mr = &r.project.module[0];
    // (1) protected kinds: never removed, non-reference content unchanged
    let pr = protected(mr);
    for (kind, name, f) in protected(mm) {
        match pr.iter().find(|(k, n, _)| *k == kind && *n == name) {
            None => {
                rec.violation(
                    &format!("cleanup removed a {kind}"),
                    &format!("{kind} {name}"),
                    witness(m0, label),
                );
                return;
            }
            Some((_, _, f2)) => {
                if *f2 != f {
                    rec.violation(
                        &format!("cleanup altered a {kind}"),
                        &format!("{kind} {name}: `{}` became `{}`", clip(&f, 300), clip(f2, 300)),
                        witness(m0, label),
                    );
                    return;
                }
            }
        }
    }
    for (what, a, b) in [
        ("MOD_COMMON", mm.mod_common.is_some(), mr.mod_common.is_some()),
        ("MOD_PAR", mm.mod_par.is_some(), mr.mod_par.is_some()),
        ("VARIANT_CODING", mm.variant_coding.is_some(), mr.variant_coding.is_some()),
    ] {
        if a && !b {
            rec.violation(&format!("cleanup removed {what}"), "", witness(m0, label));
        }
    }
    // (2) no referenced element removed: every edge that resolved before and whose referrer survives
    let idx_m = Index::build(mm);
    let idx_r = Index::build(mr);
    let survivors: HashSet<(String, String)> = {
        let mut s = HashSet::new();
        for ((_, name), v) in &idx_r.map {
            for (kind, _) in v {
                s.insert((kind.to_string(), name.clone()));
            }
        }
        for u in &mr.user_rights {
            s.insert(("USER_RIGHTS".into(), u.user_level_id.clone()));
        }
        for f in &mr.frame {
            s.insert(("FRAME".into(), f.get_name().to_string()));
        }
        s
    };
    let mut edges_checked = 0u64;
    let edges_r = edges(mr);
    for e in edges(mm) {
        if is_conventional(e.ctx.ns, &e.target) {
            continue;
        }
        if idx_m.resolve(e.ctx.ns, &e.target).is_none() {
            continue; // dangling before
        }
        let referrer_survives = match e.ctx.kind {
            "MOD_COMMON" => mr.mod_common.is_some(),
            "VARIANT_CODING" => mr.variant_coding.is_some(),
            k => survivors.contains(&(k.to_string(), e.ctx.rname.clone())),
        };
        if !referrer_survives {
            continue;
        }
        edges_checked += 1;
        rec.bump(&format!("edge.{}", e.ctx.site));
        // is the reference still there?
        let still_there = edges_r
            .iter()
            .any(|x| x.ctx.kind == e.ctx.kind && x.ctx.rname == e.ctx.rname && x.ctx.site == e.ctx.site && x.target == e.target);
        let prunable = matches!(e.ctx.ns, Ns::Func | Ns::Grp);
        if !still_there && !prunable {
            rec.violation(
                &format!("cleanup removed or changed a resolving reference at site {}", e.ctx.site),
                &format!("{} {} referred to {} at {}", e.ctx.kind, e.ctx.rname, e.target, e.ctx.site),
                witness(m0, label),
            );
            return;
        }
        // references to an empty GROUP / FUNCTION may be pruned together with their target; any
        // reference that is still there must resolve
        if still_there && idx_r.resolve(e.ctx.ns, &e.target).is_none() {
            rec.violation(
                &format!("cleanup removed an element that is still referenced at site {}", e.ctx.site),
                &format!(
                    "{} {} refers to {} (namespace {:?}) at {}; the target was removed although the referrer and the reference remain",
                    e.ctx.kind, e.ctx.rname, e.target, e.ctx.ns, e.ctx.site
                ),
                witness(m0, label),
            );
            return;
        }
        if !still_there {
            rec.bump("pruned_reference_to_removed_group_or_function");
        }
    }
    rec.add("edges_checked", edges_checked);
    // (3) "and all": no surviving COMPU_METHOD / table / UNIT / RECORD_LAYOUT without a surviving referrer
    let mut referenced: HashSet<(Ns, String)> = HashSet::new();
    for e in edges(mr) {
        referenced.insert((e.ctx.ns, e.target.clone()));
    }
    for (ns, kind, name) in helper_names(mr) {
        if !referenced.contains(&(ns, name.clone())) {
            rec.violation(
                &format!("unreferenced {kind} survives cleanup"),
                &format!("{kind} {name} is referenced by nothing after cleanup"),
                witness(m0, label),
            );
            return;
        }
    }
    // removed helpers must have been unreferenced by survivors: covered by (2); count removals
    for (_, kind, name) in helper_names(mm) {
        if !helper_names(mr).iter().any(|(_, k, n)| *k == kind && *n == name) {
            rec.bump(&format!("removed.{kind}"));
        }
    }
    let removed_groups = mm.group.len() - mr.group.len().min(mm.group.len());
    rec.add("removed.GROUP", removed_groups as u64);
    rec.add("removed.FUNCTION", (mm.function.len() - mr.function.len().min(mm.function.len())) as u64);
    // (4) idempotence
    let mut r2 = r.clone();
    r2.cleanup();
    if r2 != r {
        let what = idempotence_diff(&r.project.module[0], &r2.project.module[0]);
        rec.violation(
            &format!("cleanup is not idempotent: second run removes {what}"),
            &crate::c01::model_diff(&r, &r2),
            witness(m0, label),
        );
    }
    // (5) consistency is preserved (secondary witness)
    let before = m0.check();
    if before.is_empty() {
        let after = r.check();
        if let Some(e) = after.iter().find(|e| matches!(e, A2lError::CrossReferenceError { .. })) {
            rec.violation(
                "a consistent file has dangling references after cleanup",
                &e.to_string(),
                witness(m0, label),
            );
        }
        rec.bump("consistent_inputs");
    }
}

fn idempotence_diff(a: &Module, b: &Module) -> String {
    let ha = helper_names(a);
    let hb = helper_names(b);
    for (_, kind, name) in &ha {
        if !hb.iter().any(|(_, k, n)| k == kind && n == name) {
            let _ = name;
            return format!("a {kind}");
        }
    }
    if a.group.len() != b.group.len() {
        return "a GROUP".into();
    }
    if a.function.len() != b.function.len() {
        return "a FUNCTION".into();
    }
    "nothing (content differs)".into()
}

pub fn run(args: &Args, rec: &mut Recorder) {
    rec.rule = "evaluation = one cleanup() of a generated module (consistent reference graph with chains and cycles among SUB_GROUP / SUB_FUNCTION / REF_UNIT, helpers referenced only from unusual sites, plus knobs: unused helpers and helper chains, dangling references, empty groups/functions) judged by (1) protected kinds never removed and their non-reference content unchanged, (2) no element removed that a surviving element referred to (every site of the frozen table), (3) no COMPU_METHOD / conversion table / UNIT / RECORD_LAYOUT survives unreferenced, (4) cleanup(cleanup(M)) == cleanup(M), (5) a consistent file has no dangling reference afterwards. distinct_nontrivial = distinct module texts by content hash".into();
    rec.assumptions.push("references (not elements) that dangle before cleanup may be removed or replaced by NO_COMPU_METHOD; whether an unreferenced non-empty GROUP/FUNCTION survives is not judged; mutual references count as references".into());
    let total: u64 = if args.thorough { 500_000 } else { 60_000 };
    run_cases(args, rec, total, crate::util::reset_budget, |rng, case, rec| {
        let cfg = ModCfg {
            size: rng.urange(1, 5),
            ref_pct: *rng.pick(&[30u32, 60, 90, 100]),
            cycles: rng.coin(),
            ..ModCfg::default()
        };
        let mut module = Gen::new(rng, cfg).module("m");
        apply_knobs(rng, &mut module, rec);
        let a0 = wrap(module);
        let a = if case % 2 == 0 {
            match as_loaded(&a0) {
                Ok(a) => a,
                Err(_) => a0.clone(),
            }
        } else {
            a0.clone()
        };
        rec.eval();
        rec.nontrivial(a.write_to_string().as_bytes());
        if rec.want_sample() && case % 307 == 2 {
            rec.sample(Json::obj().with("module", Json::s(&clip(&a.write_to_string(), 400))));
        }
        check_cleanup(rec, &a, "generated module");
        // modules are cleaned up independently of each other: in a file with two modules that use
        // the same names, each module must come out exactly as if it were alone in its file
        if case % 4 == 1 {
            let cfg2 = ModCfg {
                size: rng.urange(1, 5),
                ref_pct: *rng.pick(&[30u32, 60, 90, 100]),
                cycles: rng.coin(),
                ..ModCfg::default()
            };
            let mut m2 = Gen::new(rng, cfg2).module("m2");
            apply_knobs(rng, &mut m2, rec);
            let single1 = a0.clone();
            let single2 = wrap(m2.clone());
            let mut both = a0.clone();
            if rng.coin() {
                both.project.module.push(m2);
            } else {
                // the order of the modules must not matter either
                let m1 = both.project.module.pop().unwrap();
                both.project.module.push(m2);
                both.project.module.push(m1);
            }
            rec.eval();
            rec.bump("two_module_files");
            let mut c_both = both.clone();
            let mut c1 = single1.clone();
            let mut c2 = single2.clone();
            let r = guarded(|| {
                c_both.cleanup();
                c1.cleanup();
                c2.cleanup();
            });
            if let Err((sig, detail)) = r {
                rec.violation(&sig, &detail, witness(&both, "two modules"));
                return None;
            }
            for m in c_both.project.module.iter() {
                let alone = if m.get_name() == "m2" { &c2.project.module[0] } else { &c1.project.module[0] };
                if m != alone {
                    rec.violation(
                        "cleanup of a module depends on the other modules of the file",
                        &format!("module {}: {}", m.get_name(), idempotence_diff(alone, m)),
                        witness(&both, "two modules with the same names; each must be cleaned up as if it were alone"),
                    );
                    break;
                }
            }
        }
        None
    });
    rec.floor("two_module_files", 5);
    rec.floor("knob.unused_helpers", 5);
    rec.floor("knob.dangling_references", 5);
    rec.floor("knob.empty_groups_and_functions", 5);
    rec.floor("knob.empty_group_shared_by_several_parents", 5);
    rec.floor("consistent_inputs", 5);
    for k in ["COMPU_METHOD", "COMPU_VTAB", "UNIT", "RECORD_LAYOUT", "GROUP", "FUNCTION"] {
        rec.floor(&format!("removed.{k}"), 1);
    }
    for site in [
        "CompuMethod.status_string_ref",
        "TypedefCharacteristic.axis_descr[].conversion",
        "Instance.overwrite[].conversion",
        "ModCommon.s_rec_layout",
        "UserRights.ref_group[]",
        "TypedefAxis.record_layout",
        "Unit.ref_unit",
        "Group.sub_group",
        "Function.sub_function",
    ] {
        rec.floor(&format!("edge.{site}"), 5);
    }
}
