//! C03 — loading is total: crash / step-budget / allocation monitor over hostile inputs.

use std::path::PathBuf;
use vcommon::grammar::Grammar;
use vcommon::hostile::{self, gen_hostile, Seeds};
use vcommon::json::{clip, Json};
use vcommon::rng::Rng;
use vcommon::runtime::{guarded, run_cases, Args, Recorder};

const VALID_SPEC: &str = r#"block "IF_DATA" taggedunion { "A" struct { int; taggedstruct { block "X" struct { uint; }; ("Y" ulong)*; }; }; "RAW" (uchar)*; };"#;
const INVALID_SPEC: &str = r#"block "IF_DATA" taggedunion { "A" struct { int; "#;

pub fn step_budget(len: usize) -> u64 {
    64 * len as u64 + 600_000
}

fn err_class(e: &a2lfile::A2lError) -> String {
    let d = format!("{e:?}");
    let outer: String = d.chars().take_while(|c| c.is_alphanumeric()).collect();
    if let Some(pos) = d.find("_error: ") {
        let inner: String = d[pos + 8..]
            .chars()
            .take_while(|c| c.is_alphanumeric())
            .collect();
        format!("{outer}.{inner}")
    } else {
        outer
    }
}

pub fn scratch_dir(args: &Args) -> PathBuf {
    let base = if args.out.is_empty() {
        std::env::temp_dir()
    } else {
        PathBuf::from(&args.out).parent().unwrap().to_path_buf()
    };
    let d = base.join(format!("scratch_{}_{}", args.shard, std::process::id()));
    let _ = std::fs::create_dir_all(&d);
    d
}

fn witness(kind: &str, bytes: &[u8], strict: bool, spec: &str, entry: &str) -> Json {
    let mut w = Json::obj()
        .with("generator", Json::s(kind))
        .with("strict", Json::Bool(strict))
        .with("a2ml_spec", Json::s(spec))
        .with("entry", Json::s(entry))
        .with("input_len", Json::UInt(bytes.len() as u64))
        .with("input_lossy", Json::s(&clip(&String::from_utf8_lossy(bytes), 20000)));
    if std::str::from_utf8(bytes).is_err() && bytes.len() <= 4096 {
        let hex: String = bytes.iter().map(|b| format!("{b:02x}")).collect();
        w.set("input_hex", Json::s(&hex));
    }
    w
}

/// run one load under all monitors. Returns the result class.
pub fn monitored_load(
    rec: &mut Recorder,
    kind: &str,
    bytes: &[u8],
    strict: bool,
    spec_kind: &str,
    entry: &str,
    scratch: &PathBuf,
) {
    let spec = match spec_kind {
        "valid" => Some(VALID_SPEC.to_string()),
        "invalid" => Some(INVALID_SPEC.to_string()),
        _ => None,
    };
    let text = String::from_utf8_lossy(bytes).into_owned();
    let budget = step_budget(bytes.len().max(text.len()));
    crate::util::set_budget(budget);
    crate::alloc::reset_peak();
    rec.eval();
    let r = guarded(|| match entry {
        "fragment" => a2lfile::load_fragment(&text, spec).map(|_| 0usize),
        "file" => {
            let p = scratch.join("input.a2l");
            std::fs::write(&p, bytes).expect("write scratch");
            a2lfile::load(&p, spec, strict).map(|(_, log)| log.len())
        }
        _ => a2lfile::load_from_string(&text, spec, strict).map(|(_, log)| log.len()),
    });
    let steps = a2lfile::verif_hooks::steps();
    crate::util::reset_budget();
    let peak = crate::alloc::peak();
    // observations
    let ratio = steps * 100 / budget.max(1);
    let e = rec.extra.entry("max_step_budget_pct".into()).or_insert(Json::UInt(0));
    if let Json::UInt(m) = e {
        if ratio > *m {
            *m = ratio;
        }
    }
    rec.bump(&format!("gen.{kind}"));
    rec.bump(&format!("cfg.strict={strict}.spec={spec_kind}.entry={entry}"));
    match r {
        Ok(Ok(nlog)) => {
            rec.bump(if nlog == 0 { "result.Ok" } else { "result.Ok+log" });
        }
        Ok(Err(e)) => {
            rec.bump(&format!("result.Err.{}", err_class(&e)));
        }
        Err((sig, detail)) => {
            rec.bump("result.PANIC");
            rec.violation(&sig, &detail, witness(kind, bytes, strict, spec_kind, entry));
        }
    }
    if peak > (1usize << 30) {
        rec.violation(
            "allocation peak > 1 GiB",
            &format!("peak allocation {peak} bytes for an input of {} bytes", bytes.len()),
            witness(kind, bytes, strict, spec_kind, entry),
        );
    }
}

pub const DEPTHS: [usize; 5] = [256, 1024, 4096, 16384, 65536];

pub fn probe_input(idx: u64) -> Option<(String, String)> {
    // (label, text)
    let kinds = 9u64;
    let d = DEPTHS.get((idx / kinds) as usize)?;
    let (name, text) = match idx % kinds {
        0 => ("ifdata_begin", hostile::nested_ifdata(*d)),
        1 => ("unknown_block", hostile::nested_unknown(*d)),
        2 => (
            "a2ml_struct",
            hostile::wrap_module(&format!(
                "/begin A2ML {} /end A2ML /begin IF_DATA 1 /end IF_DATA",
                hostile::nested_a2ml(*d, 0)
            )),
        ),
        3 => (
            "a2ml_taggedstruct",
            hostile::wrap_module(&format!(
                "/begin A2ML {} /end A2ML /begin IF_DATA T T T 1 /end IF_DATA",
                hostile::nested_a2ml(*d, 1)
            )),
        ),
        4 => (
            "a2ml_array",
            hostile::wrap_module(&format!(
                "/begin A2ML {} /end A2ML /begin IF_DATA 1 /end IF_DATA",
                hostile::nested_a2ml(*d, 2)
            )),
        ),
        5 => (
            "a2ml_named_chain",
            hostile::wrap_module(&format!(
                "/begin A2ML {} /end A2ML /begin IF_DATA 1 /end IF_DATA",
                hostile::named_chain_a2ml(*d, 1)
            )),
        ),
        6 => (
            "a2ml_structs_x_array_dims",
            hostile::wrap_module(&format!(
                "/begin A2ML {} /end A2ML /begin IF_DATA 1 /end IF_DATA",
                hostile::structs_times_dims_a2ml((*d / 256).clamp(2, 255), 250)
            )),
        ),
        7 => (
            "a2ml_doubling_references",
            hostile::wrap_module(&format!(
                "/begin A2ML {} /end A2ML /begin IF_DATA 1 1 /end IF_DATA",
                hostile::named_chain_a2ml(14 + (idx / kinds) as usize * 8, 2)
            )),
        ),
        _ => (
            "a2ml_array_of_empty_elements",
            hostile::wrap_module(&format!(
                "/begin A2ML block \"IF_DATA\" struct {{ taggedstruct {{ \"A\" uint; }}{}; }}; /end A2ML /begin IF_DATA /* nothing */ /end IF_DATA /begin IF_DATA x /end IF_DATA",
                ["[65537]", "[1000000]", "[2147483647]", "[-1]", "[1000][1000][1000][1000]"][(idx / kinds) as usize]
            )),
        ),
    };
    Some((format!("deep nesting {name} depth={d}"), text))
}

/// replace some tokens between `/begin IF_DATA` and `/end IF_DATA` (white-space separated words and
/// quoted strings) by hostile ones; everything else stays as generated
fn mutate_ifdata_tokens(rng: &mut Rng, text: &str) -> String {
    const CHARS: [&str; 10] = ["a", "Z", "ö", "é", "€", "本", "😀", "\\\"", "\"\"", " "];
    const WORDS: [&str; 22] = [
        "0", "-1", "255", "256", "65536", "4294967296", "18446744073709551616", "-9223372036854775809", "0xFFFFFFFFFFFFFFFFF", "0x",
        "1e39", "-1e39", "1e999", "1.5", ".", "/begin", "/end", "IF_DATA", "x", "\"\"", "/* c */", "\"ä\"",
    ];
    let mut out = String::with_capacity(text.len() + 64);
    let mut rest = text;
    while let Some(at) = rest.find("/begin IF_DATA") {
        let head_end = at + "/begin IF_DATA".len();
        out.push_str(&rest[..head_end]);
        rest = &rest[head_end..];
        let end = rest.find("/end IF_DATA").unwrap_or(rest.len());
        let body = &rest[..end];
        rest = &rest[end..];
        // split the body into words and quoted strings
        let b = body.as_bytes();
        let mut i = 0;
        while i < b.len() {
            if b[i].is_ascii_whitespace() {
                out.push(b[i] as char);
                i += 1;
                continue;
            }
            let st = i;
            if b[i] == b'"' {
                i += 1;
                while i < b.len() {
                    if b[i] == b'\\' {
                        i += 2;
                        continue;
                    }
                    if b[i] == b'"' {
                        if i + 1 < b.len() && b[i + 1] == b'"' {
                            i += 2;
                            continue;
                        }
                        i += 1;
                        break;
                    }
                    i += 1;
                }
                i = i.min(b.len());
                while !body.is_char_boundary(i) {
                    i += 1;
                }
                if rng.chance(1, 2) {
                    // a string of 0..40 pieces, multi-byte characters at arbitrary byte offsets
                    out.push('"');
                    for _ in 0..rng.below(41) {
                        out.push_str(CHARS[rng.below(CHARS.len())]);
                    }
                    out.push('"');
                } else {
                    out.push_str(&body[st..i]);
                }
            } else {
                while i < b.len() && !b[i].is_ascii_whitespace() {
                    i += 1;
                }
                if rng.chance(1, 6) {
                    out.push_str(WORDS[rng.below(WORDS.len())]);
                } else if rng.chance(1, 30) {
                    // dropped
                } else {
                    out.push_str(&body[st..i]);
                }
            }
        }
    }
    out.push_str(rest);
    out
}

pub fn run(args: &Args, rec: &mut Recorder) {
    rec.rule = "evaluation = one load call (load_from_string / load_fragment / load from a temp file) of a hostile input under the crash monitor, the logical step budget (64*bytes+600000 steps counted by the verif_hooks feature) and the allocation-peak monitor; distinct_nontrivial = distinct inputs by content hash that are not empty".into();
    rec.assumptions.push("inputs up to 64 KiB (nesting probes up to 1.5 MiB); nesting depth <= 64 in random inputs, dedicated probes at depth 256..65536; 8 MiB stack".into());
    let g = Grammar::load_default();
    let scratch = scratch_dir(args);
    let mut srng = Rng::derive(&[args.seed, 0xC03, args.shard]);
    let seeds = Seeds::build(&g, &mut srng, if args.thorough { 40 } else { 12 });
    let n_probes = (DEPTHS.len() * 9) as u64;
    let n_random: u64 = if args.thorough { 10_000_000 } else { 300_000 };
    let total = n_probes + n_random;
    run_cases(args, rec, total, crate::util::reset_budget, |rng, case, rec| {
        if case < n_probes {
            let (label, text) = probe_input(case).unwrap();
            rec.label(&label);
            for strict in [false, true] {
                monitored_load(rec, "nesting_probe", text.as_bytes(), strict, "none", "string", &scratch);
            }
            rec.nontrivial(text.as_bytes());
            rec.bump(&format!("probe.{}", label.split(" depth").next().unwrap_or("")));
            return None;
        }
        if case % 64 == 41 {
            // a main file that consists of include directives only, whose files hold no token at all
            // (empty, white space, comments) or hardly any: the token list of the load is empty or
            // starts in an include file
            let root = scratch.join(format!("c03inc_{case}"));
            let _ = std::fs::remove_dir_all(&root);
            std::fs::create_dir_all(&root).unwrap();
            let n = rng.urange(1, 3);
            let mut main_text = String::new();
            let mut all = String::new();
            for k in 0..n {
                let content = *rng.pick(&["", " ", "\n\n", "\t \r\n", "/* nothing */", "// nothing\n", "ASAP2_VERSION 1 71", "x"]);
                std::fs::write(root.join(format!("blank{k}.a2l")), content).unwrap();
                let sep = *rng.pick(&["\n", " ", "\n\n  "]);
                main_text.push_str(&format!("/include blank{k}.a2l{sep}"));
                all.push_str(content);
            }
            let main = root.join("main.a2l");
            std::fs::write(&main, &main_text).unwrap();
            rec.eval();
            rec.bump("gen.only_includes_of_blank_files");
            rec.nontrivial(format!("{main_text}|{all}").as_bytes());
            let strict = rng.coin();
            crate::util::set_budget(1_000_000);
            let r = guarded(|| a2lfile::load(&main, None, strict).map(|_| ()));
            crate::util::reset_budget();
            if let Err((sig, detail)) = r {
                rec.violation(
                    &sig,
                    &detail,
                    Json::obj()
                        .with("generator", Json::s("only_includes_of_blank_files"))
                        .with("main", Json::s(&main_text))
                        .with("contents", Json::s(&all))
                        .with("strict", Json::Bool(strict)),
                );
            }
            let _ = std::fs::remove_dir_all(&root);
            return None;
        }
        if case % 64 == 37 && case / 64 < 10 {
            // a chain of include files, each including the next: /include directives of A2L files
            // (even index) or `/include` inside the A2ML block (odd index)
            let k = (case / 64) as usize;
            let depth = [4usize, 64, 300, 1000, 20000][k / 2];
            let a2ml = k % 2 == 1;
            let root = scratch.join(format!("c03chain_{case}"));
            let _ = std::fs::remove_dir_all(&root);
            std::fs::create_dir_all(&root).unwrap();
            let main_text = if a2ml {
                "ASAP2_VERSION 1 71\n/begin PROJECT p \"\"\n/begin MODULE m \"\"\n/begin A2ML\n/include c0.aml\n/end A2ML\n/end MODULE\n/end PROJECT\n".to_string()
            } else {
                "ASAP2_VERSION 1 71\n/begin PROJECT p \"\"\n/begin MODULE m \"\"\n/include c0.a2l\n/end MODULE\n/end PROJECT\n".to_string()
            };
            for d in 0..depth {
                let (name, body) = if a2ml {
                    (format!("c{d}.aml"), if d + 1 < depth { format!("/include c{}.aml\n", d + 1) } else { "block \"IF_DATA\" struct { int; };\n".to_string() })
                } else {
                    (
                        format!("c{d}.a2l"),
                        if d + 1 < depth { format!("/begin UNIT u{d} \"\" \"\" DERIVED /end UNIT\n/include c{}.a2l\n", d + 1) } else { format!("/begin UNIT u{d} \"\" \"\" DERIVED /end UNIT\n") },
                    )
                };
                std::fs::write(root.join(name), body).unwrap();
            }
            let main = root.join("main.a2l");
            std::fs::write(&main, &main_text).unwrap();
            rec.eval();
            let label = format!("include chain {} depth={depth}", if a2ml { "a2ml" } else { "a2l" });
            rec.label(&label);
            rec.bump("gen.include_chain");
            rec.nontrivial(label.as_bytes());
            let strict = rng.coin();
            crate::util::set_budget(50_000_000);
            let r = guarded(|| a2lfile::load(&main, None, strict).map(|_| ()));
            crate::util::reset_budget();
            if let Err((sig, detail)) = r {
                rec.violation(&sig, &detail, Json::obj().with("generator", Json::s(&label)).with("strict", Json::Bool(strict)));
            }
            let _ = std::fs::remove_dir_all(&root);
            return None;
        }
        if case % 64 == 23 || case % 64 == 55 {
            // a well-formed A2ML definition from the G-a2ml generator with IF_DATA that almost
            // conforms: the conforming instances of the document are mutated token by token
            // (over-long strings with multi-byte characters at every byte offset, extreme numbers,
            // wrong kinds, stray /begin and /end)
            let (text, _flat, _n) = crate::c18::gen_conforming_document(rng);
            let mutated = mutate_ifdata_tokens(rng, &text);
            rec.bump("gen.a2ml_instance_mutation");
            for strict in [false, true] {
                monitored_load(rec, "a2ml_instance_mutation", mutated.as_bytes(), strict, "none", "string", &scratch);
            }
            rec.nontrivial(mutated.as_bytes());
            return None;
        }
        if case % 64 == 9 {
            // a valid document split over a tree of include files, loaded from disk
            if let Some(main) = crate::c16::make_tree(rng, &g, &scratch, case) {
                rec.eval();
                rec.bump("gen.include_tree");
                let strict = rng.coin();
                crate::util::set_budget(50_000_000);
                let r = guarded(|| a2lfile::load(&main, None, strict).map(|_| ()));
                crate::util::reset_budget();
                if let Err((sig, detail)) = r {
                    rec.violation(
                        &sig,
                        &detail,
                        Json::obj().with("generator", Json::s("include_tree")).with("case", Json::UInt(case)).with("note", Json::s("re-run this case with --only-case to regenerate the file tree")),
                    );
                }
                let _ = std::fs::remove_dir_all(main.parent().unwrap());
            }
            return None;
        }
        let mut h = gen_hostile(&g, &seeds, rng);
        let strict = rng.coin();
        let spec_kind = *rng.pick(&["none", "none", "valid", "invalid"]);
        let entry = *rng.pick(&["string", "string", "fragment", "file"]);
        if entry == "file" && rng.chance(1, 3) {
            // files go through the encoding detection: byte order marks of every kind in front of
            // content that may or may not be valid in that encoding
            let bom: &[u8] = *rng.pick(&[
                &[0xEF, 0xBB, 0xBF][..],
                &[0xFF, 0xFE][..],
                &[0xFE, 0xFF][..],
                &[0xFF, 0xFE, 0x00, 0x00][..],
                &[0x00, 0x00, 0xFE, 0xFF][..],
                &[0xEF, 0xBB][..],
            ]);
            let mut b = bom.to_vec();
            b.extend_from_slice(&h.bytes);
            if rng.coin() {
                // a byte that is not valid UTF-8 where it stands
                let at = rng.urange(bom.len(), b.len());
                b.insert(at, *rng.pick(&[0xB0u8, 0xFF, 0xC3, 0xE2, 0x80, 0xF5]));
            }
            h.bytes = b;
            rec.bump("file_inputs_with_byte_order_mark");
        }
        if !h.bytes.is_empty() {
            rec.nontrivial(&h.bytes);
        }
        if rec.want_sample() && case % 1000 == 17 {
            rec.sample(
                Json::obj()
                    .with("generator", Json::s(h.kind))
                    .with("strict", Json::Bool(strict))
                    .with("spec", Json::s(spec_kind))
                    .with("entry", Json::s(entry))
                    .with("input", Json::s(&clip(&String::from_utf8_lossy(&h.bytes), 300))),
            );
        }
        monitored_load(rec, h.kind, &h.bytes, strict, spec_kind, entry, &scratch);
        None
    });
    let _ = std::fs::remove_dir_all(&scratch);
    for k in [
        "gen.random_bytes", "gen.random_text", "gen.truncation", "gen.token_edit", "gen.token_soup",
        "gen.byte_mutation", "gen.hostile_a2ml", "gen.a2ml_in_odd_place", "gen.include_tree", "gen.truncation_in_a2ml", "gen.nesting",
    ] {
        rec.floor(k, 10);
    }
    for strict in ["true", "false"] {
        for spec in ["none", "valid", "invalid"] {
            for entry in ["string", "fragment", "file"] {
                rec.floor(&format!("cfg.strict={strict}.spec={spec}.entry={entry}"), 5);
            }
        }
    }
    rec.floor("result.Ok", 1);
}
