//! G-doc: generate syntactically valid documents by walking the frozen reference grammar.

use crate::doc::{Child, Doc, Elem, Tok, TK};
use crate::grammar::{in_range, Element, Field, Grammar, Item, PType, Ver, VERSIONS};
use crate::rng::Rng;
use crate::values::{self, ValCfg};

#[derive(Clone, Debug)]
pub struct GenCfg {
    pub vals: ValCfg,
    /// soft cap on the number of elements
    pub max_elems: usize,
    /// probability (percent) to include an optional sub-element
    pub opt_pct: u32,
    /// maximum repeat count for repeatable sub-elements
    pub max_repeat: usize,
    /// block-level comments as children
    pub comments_pct: u32,
    /// allow multi-line block comments
    pub multiline_comments: bool,
    /// IF_DATA blocks (uninterpreted payloads)
    pub if_data: bool,
    /// A2ML block in modules
    pub a2ml: bool,
    /// shuffle children (otherwise grammar order)
    pub shuffle: bool,
    /// keep position-restricted RECORD_LAYOUT children in ascending position order
    pub canonical_positions: bool,
    /// comments between the items of uninterpreted IF_DATA payloads (they are not content and are
    /// not written back, so only checks whose oracle skips them switch this on)
    pub ifdata_comments: bool,
    /// with shuffled positions: keep the RESERVED items ascending among themselves in every document
    pub reserved_ascending: bool,
    /// fixed version, or random among the six
    pub version: Option<Ver>,
    /// number of modules
    pub max_modules: usize,
}

impl Default for GenCfg {
    fn default() -> Self {
        GenCfg {
            vals: ValCfg::default(),
            max_elems: 200,
            opt_pct: 35,
            max_repeat: 3,
            comments_pct: 0,
            multiline_comments: false,
            if_data: true,
            a2ml: true,
            shuffle: true,
            canonical_positions: false,
            ifdata_comments: false,
            reserved_ascending: false,
            version: None,
            max_modules: 2,
        }
    }
}

pub struct DocGen<'a> {
    pub g: &'a Grammar,
    pub cfg: GenCfg,
    pub count: usize,
    pub version: Ver,
    pub a2ml_pool: Vec<String>,
}

pub const SIMPLE_A2ML: &[&str] = &[
    "\n    block \"IF_DATA\" taggedunion if_data {\n      \"VERIF_XCP\" struct {\n        uint;\n        ulong;\n        taggedstruct {\n          block \"SEG\" struct { uchar; char[20]; };\n          (\"FLAG\" uint)*;\n        };\n      };\n      \"VERIF_RAW\" (ulong)*;\n    };\n  ",
    "\n  /* verif */\n  enum mode { \"OFF\" = 0, \"ON\" = 1 };\n  block \"IF_DATA\" taggedunion {\n    \"VERIF_M\" struct { enum mode; float; taggedstruct { \"OPT\" long; }; };\n  };\n",
    " block \"IF_DATA\" struct { int; }; ",
];

impl<'a> DocGen<'a> {
    pub fn new(g: &'a Grammar, cfg: GenCfg) -> Self {
        DocGen {
            g,
            cfg,
            count: 0,
            version: 171,
            a2ml_pool: SIMPLE_A2ML.iter().map(|s| s.to_string()).collect(),
        }
    }

    pub fn field_tok(&self, rng: &mut Rng, f: &Field) -> Tok {
        match &f.ty {
            PType::Ident => values::ident_tok(rng, self.g, &self.cfg.vals),
            PType::Str => values::string_tok(rng, &self.cfg.vals),
            PType::Int { bits, signed } => values::int_tok(rng, *bits, *signed, &self.cfg.vals),
            PType::Float => values::float_tok(rng, &self.cfg.vals),
            PType::Enum(name) => {
                let def = &self.g.enums[name];
                let items: Vec<&str> = def
                    .items
                    .iter()
                    .filter(|i| in_range(self.version, i.vmin, i.vmax))
                    .map(|i| i.name.as_str())
                    .collect();
                Tok::word(TK::Enum, *rng.pick(&items[..]))
            }
        }
    }

    pub fn gen_params(&self, rng: &mut Rng, e: &Element) -> Vec<Tok> {
        let mut out = Vec::new();
        for item in &e.params {
            match item {
                Item::Single(f) => out.push(self.field_tok(rng, f)),
                Item::Array(f, n) => {
                    for _ in 0..*n {
                        out.push(self.field_tok(rng, f));
                    }
                }
                Item::Seq(fields, _) => {
                    let n = match rng.below(6) {
                        0 => 0,
                        1 => 1,
                        _ => rng.urange(1, 5),
                    };
                    for _ in 0..n {
                        for f in fields {
                            out.push(self.field_tok(rng, f));
                        }
                    }
                }
            }
        }
        out
    }

    pub fn gen_comment(&self, rng: &mut Rng) -> String {
        let words = ["verif", "comment", "x y z", "ä€", "/begin X", "\"q\"", "12 0x3", ""];
        if rng.coin() {
            // line comment
            format!("// {}{}", rng.pick(&words), rng.below(100))
        } else if self.cfg.multiline_comments && rng.chance(1, 8) {
            // the last line of a multi-line comment holds something that looks like a line comment
            format!(
                "/* {}\n   see http://example.org/{} // {} */",
                rng.pick(&words),
                rng.below(100),
                rng.pick(&words)
            )
        } else if self.cfg.multiline_comments && rng.chance(1, 3) {
            format!(
                "/* {}\n   {} \n*/",
                rng.pick(&words),
                rng.pick(&words)
            )
        } else {
            format!("/* {} {} */", rng.pick(&words), rng.below(100))
        }
    }

    pub fn gen_ifdata_payload(&self, rng: &mut Rng, depth: usize) -> Vec<Tok> {
        // uninterpreted payload: TAG items... with nested blocks
        let mut out = Vec::new();
        if depth == 0 {
            if rng.chance(1, 12) {
                return out; // empty IF_DATA
            }
            out.push(Tok::word(TK::Ident, &format!("VX_{}", rng.below(50))));
        }
        let n = rng.urange(0, 6);
        for _ in 0..n {
            self.push_payload_comment(rng, &mut out);
            self.push_scalar(rng, &mut out);
        }
        if depth < 3 && rng.chance(1, 2) {
            let nb = rng.urange(1, 3);
            for _ in 0..nb {
                self.push_payload_comment(rng, &mut out);
                if rng.chance(1, 4) {
                    // a non-block tagged item between blocks: TAG scalars...
                    out.push(Tok::word(TK::Ident, &format!("KW_{}", rng.below(20))));
                    for _ in 0..rng.below(3) {
                        self.push_scalar(rng, &mut out);
                    }
                } else {
                    let tag = format!("BLK_{}", rng.below(20));
                    out.push(Tok::begin());
                    out.push(Tok::word(TK::Tag, &tag));
                    out.extend(self.gen_ifdata_payload(rng, depth + 1));
                    out.push(Tok::end());
                    out.push(Tok::word(TK::EndTag, &tag));
                }
            }
        }
        // in front of the /end of the block (or of the IF_DATA)
        self.push_payload_comment(rng, &mut out);
        out
    }

    fn push_payload_comment(&self, rng: &mut Rng, out: &mut Vec<Tok>) {
        if self.cfg.ifdata_comments && rng.chance(1, 8) {
            let c = if rng.coin() {
                format!("/* ifd {} */", rng.below(100))
            } else {
                format!("// ifd {}", rng.below(100))
            };
            out.push(Tok::comment(&c));
        }
    }

    fn push_scalar(&self, rng: &mut Rng, out: &mut Vec<Tok>) {
        match rng.below(8) {
            5 => {
                // float with an integral value, spelled as a float
                let v = *rng.pick(&[0.0f64, 1.0, -3.0, 250.0, 65536.0, -2147483648.0, 4294967296.0, 1e3, 2.5e2, 1e10, 3e15, 1e20]);
                let text = match rng.below(3) {
                    0 => format!("{v:?}"),
                    1 => format!("{v:e}"),
                    _ => format!("{v:.1}"),
                };
                out.push(Tok::float(v, text));
            }
            6 => {
                // double precision value that is not representable as f32
                let v = match rng.below(4) {
                    0 => 0.1,
                    1 => 3.141592653589793,
                    2 => -1234.5678e10,
                    _ => (rng.f64_unit() - 0.5) * 1e6,
                };
                out.push(Tok::float(v, format!("{v:?}")));
            }
            7 => {
                // integer beyond 32 bit, decimal or hex
                let v = rng.next_u64();
                let v: i128 = if rng.coin() { i128::from(v) } else { i128::from(v as i64) };
                if v >= 0 && rng.coin() {
                    out.push(Tok::int(v, format!("0x{v:X}")));
                } else {
                    out.push(Tok::int(v, format!("{v}")));
                }
            }
            0 => out.push(Tok::word(
                TK::Ident,
                &values::gen_ident_text(rng, self.g, &ValCfg {
                    extremes: false,
                    ..self.cfg.vals.clone()
                }),
            )),
            1 => out.push(values::string_tok(rng, &self.cfg.vals)),
            2 => {
                // integer that fits i32 (wider ones are the subject of the boundary sweep)
                out.push(values::int_tok(rng, 31, false, &self.cfg.vals));
            }
            3 => {
                let v = rng.range(-2_000_000_000, 2_000_000_000);
                out.push(Tok::int(v as i128, format!("{v}")));
            }
            _ => {
                // float exactly representable as f32, with a fractional part
                let v = (rng.range(-4000, 4000) as f32) / 8.0 + 0.0625;
                out.push(Tok::float(f64::from(v), format!("{v}")));
            }
        }
    }

    pub fn gen_elem(&mut self, rng: &mut Rng, tag: &str) -> Elem {
        self.count += 1;
        let g = self.g;
        let def = g.elem(tag);
        let mut e = Elem::new(tag, def.is_block, !def.opts.is_empty());
        if tag == "A2ML" {
            let text = rng.pick(&self.a2ml_pool).clone();
            e.params.push(Tok {
                kind: TK::A2ml,
                text: text.clone(),
                val: crate::doc::Val::Raw(text),
            });
            return e;
        }
        if tag == "IF_DATA" {
            e.params = self.gen_ifdata_payload(rng, 0);
            return e;
        }
        e.params = self.gen_params(rng, def);
        let over_budget = self.count >= self.cfg.max_elems;
        let mut kids: Vec<Elem> = Vec::new();
        let mut order: Vec<usize> = (0..def.opts.len()).collect();
        rng.shuffle(&mut order);
        for oi in order {
            let o = &def.opts[oi];
            if !in_range(self.version, o.vmin, o.vmax) {
                continue;
            }
            if o.tag == "IF_DATA" && !self.cfg.if_data {
                continue;
            }
            if o.tag == "A2ML" && !self.cfg.a2ml {
                continue;
            }
            let n = if o.required {
                if o.repeat && !over_budget {
                    rng.urange(1, self.cfg.max_modules.max(1))
                } else {
                    1
                }
            } else if over_budget || self.count >= self.cfg.max_elems {
                0
            } else if rng.chance(self.cfg.opt_pct, 100) {
                if o.repeat {
                    rng.urange(1, self.cfg.max_repeat.max(1))
                } else {
                    1
                }
            } else {
                0
            };
            for _ in 0..n {
                kids.push(self.gen_elem(rng, &o.tag));
            }
        }
        if self.cfg.shuffle {
            rng.shuffle(&mut kids);
        }
        if tag == "RECORD_LAYOUT" {
            fix_record_layout_positions(g, rng, &mut kids, self.cfg.canonical_positions, self.cfg.reserved_ascending);
        }
        for k in kids {
            if self.cfg.comments_pct > 0 && rng.chance(self.cfg.comments_pct, 100) {
                e.children.push(Child::Comment(self.gen_comment(rng)));
            }
            e.children.push(Child::Elem(k));
        }
        if e.has_opts && self.cfg.comments_pct > 0 && rng.chance(self.cfg.comments_pct, 100) {
            e.children.push(Child::Comment(self.gen_comment(rng)));
        }
        e
    }

    pub fn gen_doc(&mut self, rng: &mut Rng) -> Doc {
        self.count = 0;
        self.version = self.cfg.version.unwrap_or_else(|| *rng.pick(&VERSIONS));
        let mut top = Vec::new();
        let mut ver = Elem::new("ASAP2_VERSION", false, false);
        ver.params.push(Tok::int(1, "1".into()));
        let minor = i128::from(self.version % 100);
        ver.params.push(Tok::int(minor, format!("{minor}")));
        top.push(ver);
        if rng.chance(1, 4) {
            let mut av = Elem::new("A2ML_VERSION", false, false);
            av.params.push(Tok::int(1, "1".into()));
            av.params.push(Tok::int(31, "31".into()));
            top.push(av);
        }
        top.push(self.gen_elem(rng, "PROJECT"));
        Doc {
            version: self.version,
            top,
        }
    }
}

/// position parameters: mostly unique per RECORD_LAYOUT; in canonical mode the restricted children appear in ascending order
pub fn fix_record_layout_positions(g: &Grammar, rng: &mut Rng, kids: &mut [Elem], canonical: bool, reserved_ascending: bool) {
    let idxs: Vec<usize> = kids
        .iter()
        .enumerate()
        .filter(|(_, k)| crate::grammar::is_position_restricted_tag(g, &k.tag))
        .map(|(i, _)| i)
        .collect();
    let mut positions: Vec<i128> = (1..=idxs.len() as i128).map(|p| p * 3).collect();
    if !canonical {
        rng.shuffle(&mut positions);
        // now and then two restricted items carry the same position number (not sensible, but
        // nothing in the grammar forbids it): the reordering is stable, they keep their relative order
        if positions.len() >= 2 && rng.chance(1, 5) {
            let a = rng.below(positions.len());
            let b = rng.below(positions.len());
            if a != b {
                positions[a] = positions[b];
            }
        }
        // RESERVED is the only restricted element that can occur several times. Out of position
        // order the reloaded RESERVED list is permuted (known finding of C01, which ends the
        // judgement of that document), so most documents keep the RESERVED items ascending among
        // themselves while the other restricted elements stay shuffled.
        if reserved_ascending || rng.chance(6, 7) {
            let slots: Vec<usize> = idxs
                .iter()
                .enumerate()
                .filter(|(_, i)| kids[**i].tag == "RESERVED")
                .map(|(k, _)| k)
                .collect();
            let mut vals: Vec<i128> = slots.iter().map(|k| positions[*k]).collect();
            vals.sort_unstable();
            for (k, v) in slots.iter().zip(vals) {
                positions[*k] = v;
            }
        }
    }
    for (k, i) in idxs.iter().enumerate() {
        let p = positions[k];
        kids[*i].params[0] = Tok::int(p, format!("{p}"));
    }
}

// -------------------------------------------------------------------------------------------
// systematic coverage: containment paths

/// shortest containment path of tags from PROJECT down to `target` (inclusive)
pub fn containment_path(g: &Grammar, target: &str) -> Option<Vec<String>> {
    use std::collections::{HashMap, VecDeque};
    let mut prev: HashMap<String, String> = HashMap::new();
    let mut q = VecDeque::new();
    q.push_back("PROJECT".to_string());
    prev.insert("PROJECT".to_string(), String::new());
    while let Some(t) = q.pop_front() {
        if t == target {
            let mut path = vec![t.clone()];
            let mut cur = t;
            while let Some(p) = prev.get(&cur) {
                if p.is_empty() {
                    break;
                }
                path.push(p.clone());
                cur = p.clone();
            }
            path.reverse();
            return Some(path);
        }
        for o in &g.elem(&t).opts {
            if !prev.contains_key(&o.tag) {
                prev.insert(o.tag.clone(), t.clone());
                q.push_back(o.tag.clone());
            }
        }
    }
    None
}

/// version range in which the path (each link's reference range) is legal
pub fn path_version_range(g: &Grammar, path: &[String]) -> (Ver, Ver) {
    let mut lo = 150;
    let mut hi = 171;
    for w in path.windows(2) {
        let parent = g.elem(&w[0]);
        let o = parent.opts.iter().find(|o| o.tag == w[1]).unwrap();
        if let Some(m) = o.vmin {
            lo = lo.max(m);
        }
        if let Some(m) = o.vmax {
            hi = hi.min(m);
        }
    }
    (lo, hi)
}

impl<'a> DocGen<'a> {
    /// minimal element: parameters only + required children
    pub fn gen_minimal(&mut self, rng: &mut Rng, tag: &str) -> Elem {
        let g = self.g;
        let def = g.elem(tag);
        let mut e = Elem::new(tag, def.is_block, !def.opts.is_empty());
        if tag == "A2ML" || tag == "IF_DATA" {
            return self.gen_elem(rng, tag);
        }
        e.params = self.gen_params(rng, def);
        for o in &def.opts {
            if o.required {
                let k = self.gen_minimal(rng, &o.tag);
                e.children.push(Child::Elem(k));
            }
        }
        e
    }

    /// document containing `target` reached through the shortest path; `build_target` creates
    /// the target element. `target` is placed last inside its parent.
    pub fn gen_doc_with(
        &mut self,
        rng: &mut Rng,
        path: &[String],
        version: Ver,
        target_elem: Elem,
    ) -> Doc {
        self.version = version;
        // build chain from the bottom
        let mut cur = target_elem;
        for i in (0..path.len() - 1).rev() {
            let mut parent = self.gen_minimal(rng, &path[i]);
            // if the parent already holds a required instance of the child kind, replace it
            let child_tag = &path[i + 1];
            parent.children.retain(|c| match c {
                Child::Elem(e) => &e.tag != child_tag,
                _ => true,
            });
            parent.children.push(Child::Elem(cur));
            cur = parent;
        }
        let mut top = Vec::new();
        let mut ver = Elem::new("ASAP2_VERSION", false, false);
        ver.params.push(Tok::int(1, "1".into()));
        let minor = i128::from(version % 100);
        ver.params.push(Tok::int(minor, format!("{minor}")));
        top.push(ver);
        top.push(cur);
        Doc { version, top }
    }
}
