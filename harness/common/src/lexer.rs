//! L-lex: independent tokenizer for A2L text (used on the *output* of the library).

use crate::doc::Val;

#[derive(Clone, Copy, Debug, PartialEq, Eq)]
pub enum LK {
    Begin,
    End,
    Include,
    Word,
    Str,
    Num,
    A2ml,
    Comment,
}

#[derive(Clone, Debug)]
pub struct LTok {
    pub kind: LK,
    pub text: String,
    pub val: Val,
    /// 1-based line where the token starts
    pub line: u32,
    /// number was written in hex notation
    pub hex: bool,
}

fn is_word_char(c: u8) -> bool {
    c.is_ascii_alphanumeric() || c == b'_' || c == b'.' || c == b'[' || c == b']'
}

pub fn unescape(inner: &str) -> String {
    let cs: Vec<char> = inner.chars().collect();
    let mut out = String::new();
    let mut i = 0;
    while i < cs.len() {
        let c = cs[i];
        if c == '\\' && i + 1 < cs.len() {
            let n = cs[i + 1];
            let rep = match n {
                '"' => Some('"'),
                '\'' => Some('\''),
                '\\' => Some('\\'),
                'n' => Some('\n'),
                'r' => Some('\r'),
                't' => Some('\t'),
                _ => None,
            };
            if let Some(r) = rep {
                out.push(r);
                i += 2;
                continue;
            }
            out.push(c);
            i += 1;
        } else if c == '"' && i + 1 < cs.len() && cs[i + 1] == '"' {
            out.push('"');
            i += 2;
        } else {
            out.push(c);
            i += 1;
        }
    }
    out
}

pub fn parse_number(text: &str) -> Option<(Val, bool)> {
    if let Some(h) = text.strip_prefix("0x").or_else(|| text.strip_prefix("0X")) {
        return u128::from_str_radix(h, 16)
            .ok()
            .map(|v| (Val::Int(v as i128), true));
    }
    if let Ok(i) = text.parse::<i128>() {
        return Some((Val::Int(i), false));
    }
    text.parse::<f64>().ok().map(|f| (Val::Float(f), false))
}

/// tokenize A2L text. Returns Err with a description if the text is lexically broken.
pub fn lex(text: &str) -> Result<Vec<LTok>, String> {
    let b = text.as_bytes();
    let n = b.len();
    let mut i = 0;
    let mut line = 1u32;
    let mut out: Vec<LTok> = Vec::new();
    while i < n {
        let c = b[i];
        if c == b'\n' {
            line += 1;
            i += 1;
        } else if c.is_ascii_whitespace() {
            i += 1;
        } else if c == b'/' && i + 1 < n && b[i + 1] == b'*' {
            let st = i;
            let stline = line;
            i += 2;
            loop {
                if i + 1 >= n {
                    return Err(format!("unclosed block comment starting on line {stline}"));
                }
                if b[i] == b'*' && b[i + 1] == b'/' {
                    i += 2;
                    break;
                }
                if b[i] == b'\n' {
                    line += 1;
                }
                i += 1;
            }
            out.push(LTok {
                kind: LK::Comment,
                text: text[st..i].to_string(),
                val: Val::Raw(text[st..i].to_string()),
                line: stline,
                hex: false,
            });
        } else if c == b'/' && i + 1 < n && b[i + 1] == b'/' {
            let st = i;
            while i < n && b[i] != b'\n' {
                i += 1;
            }
            let t = text[st..i].trim_end_matches('\r');
            out.push(LTok {
                kind: LK::Comment,
                text: t.to_string(),
                val: Val::Raw(t.to_string()),
                line,
                hex: false,
            });
        } else if c == b'/' {
            let rest = &text[i..];
            let (kind, len) = if rest.starts_with("/begin") {
                (LK::Begin, 6)
            } else if rest.starts_with("/end") {
                (LK::End, 4)
            } else if rest.starts_with("/include") {
                (LK::Include, 8)
            } else {
                return Err(format!("stray '/' on line {line}"));
            };
            out.push(LTok {
                kind,
                text: rest[..len].to_string(),
                val: Val::Word(rest[..len].to_string()),
                line,
                hex: false,
            });
            i += len;
        } else if c == b'"' {
            let st = i;
            let stline = line;
            i += 1;
            loop {
                if i >= n {
                    return Err(format!("unclosed string starting on line {stline}"));
                }
                if b[i] == b'\\' && i + 1 < n {
                    if b[i + 1] == b'\n' {
                        line += 1;
                    }
                    i += 2;
                    continue;
                }
                if b[i] == b'"' {
                    if i + 1 < n && b[i + 1] == b'"' {
                        i += 2;
                        continue;
                    }
                    i += 1;
                    break;
                }
                if b[i] == b'\n' {
                    line += 1;
                }
                i += 1;
            }
            let inner = &text[st + 1..i - 1];
            out.push(LTok {
                kind: LK::Str,
                text: text[st..i].to_string(),
                val: Val::Str(unescape(inner)),
                line: stline,
                hex: false,
            });
        } else if c.is_ascii_alphabetic() || c == b'_' {
            let st = i;
            while i < n && is_word_char(b[i]) {
                i += 1;
            }
            let w = &text[st..i];
            out.push(LTok {
                kind: LK::Word,
                text: w.to_string(),
                val: Val::Word(w.to_string()),
                line,
                hex: false,
            });
            // A2ML body: raw text up to the /end that is not inside a comment
            if w == "A2ML" && out.len() >= 2 && out[out.len() - 2].kind == LK::Begin {
                let st = i;
                let stline = line;
                loop {
                    if i >= n {
                        return Err("unterminated A2ML block".into());
                    }
                    if text[i..].starts_with("/*") {
                        i += 2;
                        while i + 1 < n && !(b[i] == b'*' && b[i + 1] == b'/') {
                            if b[i] == b'\n' {
                                line += 1;
                            }
                            i += 1;
                        }
                        i = (i + 2).min(n);
                    } else if text[i..].starts_with("//") {
                        while i < n && b[i] != b'\n' {
                            i += 1;
                        }
                    } else if text[i..].starts_with("/end") {
                        break;
                    } else {
                        if b[i] == b'\n' {
                            line += 1;
                        }
                        i += 1;
                    }
                }
                let raw = &text[st..i];
                out.push(LTok {
                    kind: LK::A2ml,
                    text: raw.to_string(),
                    val: Val::Raw(raw.to_string()),
                    line: stline,
                    hex: false,
                });
            }
        } else if c == b'-' || c == b'+' || c == b'.' || c.is_ascii_digit() {
            let st = i;
            while i < n
                && (b[i].is_ascii_alphanumeric() || matches!(b[i], b'.' | b'+' | b'-' | b'_'))
            {
                i += 1;
            }
            let t = &text[st..i];
            match parse_number(t) {
                Some((val, hex)) => out.push(LTok {
                    kind: LK::Num,
                    text: t.to_string(),
                    val,
                    line,
                    hex,
                }),
                None => {
                    // e.g. "inf", or an identifier starting with a digit
                    out.push(LTok {
                        kind: LK::Word,
                        text: t.to_string(),
                        val: Val::Word(t.to_string()),
                        line,
                        hex: false,
                    });
                }
            }
        } else {
            return Err(format!("unexpected byte {c:#x} on line {line}"));
        }
    }
    Ok(out)
}
