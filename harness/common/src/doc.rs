//! Document tree, tokens and values shared by the generators and monitors.

use crate::grammar::Ver;

#[derive(Clone, Debug, PartialEq)]
pub enum Val {
    /// /begin, /end, tags, identifiers, enum words
    Word(String),
    /// decoded string content
    Str(String),
    Int(i128),
    Float(f64),
    /// raw text (A2ML body, comments)
    Raw(String),
}

#[derive(Clone, Copy, Debug, PartialEq, Eq, Hash)]
pub enum TK {
    Begin,
    End,
    /// tag of a keyword or tag after /begin
    Tag,
    /// tag after /end
    EndTag,
    Ident,
    Enum,
    Str,
    Int,
    Float,
    A2ml,
    /// comment at a block-level slot (preserved by the library)
    Comment,
}

#[derive(Clone, Debug, PartialEq)]
pub struct Tok {
    pub kind: TK,
    /// source spelling
    pub text: String,
    pub val: Val,
}

impl Tok {
    pub fn word(kind: TK, w: &str) -> Tok {
        Tok {
            kind,
            text: w.to_string(),
            val: Val::Word(w.to_string()),
        }
    }
    pub fn begin() -> Tok {
        Tok::word(TK::Begin, "/begin")
    }
    pub fn end() -> Tok {
        Tok::word(TK::End, "/end")
    }
    pub fn int(v: i128, text: String) -> Tok {
        Tok {
            kind: TK::Int,
            text,
            val: Val::Int(v),
        }
    }
    pub fn float(v: f64, text: String) -> Tok {
        Tok {
            kind: TK::Float,
            text,
            val: Val::Float(v),
        }
    }
    pub fn string(decoded: &str, spelled: String) -> Tok {
        Tok {
            kind: TK::Str,
            text: spelled,
            val: Val::Str(decoded.to_string()),
        }
    }
    pub fn comment(text: &str) -> Tok {
        Tok {
            kind: TK::Comment,
            text: text.to_string(),
            val: Val::Raw(text.to_string()),
        }
    }
}

#[derive(Clone, Debug)]
pub enum Child {
    Elem(Elem),
    /// block-level comment (`/* .. */` or `// ..`)
    Comment(String),
    /// raw token run (unknown payloads, injected faults)
    Raw(Vec<Tok>),
}

#[derive(Clone, Debug)]
pub struct Elem {
    pub tag: String,
    pub is_block: bool,
    /// parameter tokens; for IF_DATA the whole payload; for A2ML one TK::A2ml token
    pub params: Vec<Tok>,
    pub children: Vec<Child>,
    /// has the element kind optional sub-elements (i.e. do block-level slots exist)?
    pub has_opts: bool,
    /// unique marker assigned by generators (0 = none)
    pub marker: u32,
}

impl Elem {
    pub fn new(tag: &str, is_block: bool, has_opts: bool) -> Elem {
        Elem {
            tag: tag.to_string(),
            is_block,
            params: Vec::new(),
            children: Vec::new(),
            has_opts,
            marker: 0,
        }
    }
    pub fn child_elems(&self) -> impl Iterator<Item = &Elem> {
        self.children.iter().filter_map(|c| match c {
            Child::Elem(e) => Some(e),
            _ => None,
        })
    }
    pub fn count_elems(&self) -> usize {
        1 + self.child_elems().map(Elem::count_elems).sum::<usize>()
    }
    pub fn find_first(&self, tag: &str) -> Option<&Elem> {
        if self.tag == tag {
            return Some(self);
        }
        for c in self.child_elems() {
            if let Some(e) = c.find_first(tag) {
                return Some(e);
            }
        }
        None
    }
}

#[derive(Clone, Debug)]
pub struct Doc {
    pub version: Ver,
    /// file-level elements in order: ASAP2_VERSION, [A2ML_VERSION], PROJECT
    pub top: Vec<Elem>,
}

/// flattened token with the structural facts the monitors need
#[derive(Clone, Debug)]
pub struct FTok {
    pub tok: Tok,
    pub depth: u16,
    /// index of the owning element in pre-order (0-based over the whole document)
    pub elem: u32,
    /// the gap *before* this token is a block-level slot (comments there are preserved)
    pub slot_before: bool,
    /// the gap before this token is at file level (outside every block)
    pub file_level: bool,
    /// inside IF_DATA payload or A2ML
    pub in_ifdata: bool,
    /// tag of owning element
    pub owner_tag_idx: u32,
    /// parameter index within the owning element (only for parameter tokens)
    pub param_idx: i32,
}

#[derive(Clone)]
pub struct Flat {
    pub toks: Vec<FTok>,
    /// tag per element index (pre-order)
    pub elem_tags: Vec<String>,
    /// (first token idx, last token idx) per element
    pub elem_span: Vec<(usize, usize)>,
    /// parent element index (u32::MAX for file level)
    pub elem_parent: Vec<u32>,
    /// marker of each element (0 = none)
    pub elem_marker: Vec<u32>,
}

impl Flat {
    pub fn empty() -> Flat {
        Flat {
            toks: Vec::new(),
            elem_tags: Vec::new(),
            elem_span: Vec::new(),
            elem_parent: Vec::new(),
            elem_marker: Vec::new(),
        }
    }
}

impl Doc {
    pub fn flatten(&self) -> Flat {
        let mut f = Flat {
            toks: Vec::new(),
            elem_tags: Vec::new(),
            elem_span: Vec::new(),
            elem_parent: Vec::new(),
            elem_marker: Vec::new(),
        };
        for e in &self.top {
            flatten_elem(e, 0, u32::MAX, false, true, &mut f);
        }
        f
    }
    pub fn count_elems(&self) -> usize {
        self.top.iter().map(Elem::count_elems).sum()
    }
    pub fn project(&self) -> &Elem {
        self.top.iter().find(|e| e.tag == "PROJECT").unwrap()
    }
    pub fn project_mut(&mut self) -> &mut Elem {
        self.top.iter_mut().find(|e| e.tag == "PROJECT").unwrap()
    }
}

pub fn flatten_elem(
    e: &Elem,
    depth: u16,
    parent: u32,
    slot_before: bool,
    file_level: bool,
    f: &mut Flat,
) {
    let id = f.elem_tags.len() as u32;
    f.elem_tags.push(e.tag.clone());
    f.elem_span.push((f.toks.len(), 0));
    f.elem_parent.push(parent);
    f.elem_marker.push(e.marker);
    let in_ifdata = e.tag == "IF_DATA" || e.tag == "A2ML";
    let mut first = true;
    let mut push = |f: &mut Flat, tok: Tok, slot: bool, ifd: bool, pidx: i32| {
        f.toks.push(FTok {
            tok,
            depth,
            elem: id,
            slot_before: slot,
            file_level: file_level && first,
            in_ifdata: ifd,
            owner_tag_idx: id,
            param_idx: pidx,
        });
        first = false;
    };
    if e.is_block {
        push(f, Tok::begin(), slot_before, false, -1);
        push(f, Tok::word(TK::Tag, &e.tag), false, false, -1);
    } else {
        push(f, Tok::word(TK::Tag, &e.tag), slot_before, false, -1);
    }
    for (i, p) in e.params.iter().enumerate() {
        push(f, p.clone(), false, in_ifdata, i as i32);
    }
    for c in &e.children {
        match c {
            Child::Elem(ce) => flatten_elem(ce, depth + 1, id, e.has_opts, false, f),
            Child::Comment(text) => {
                f.toks.push(FTok {
                    tok: Tok::comment(text),
                    depth: depth + 1,
                    elem: id,
                    slot_before: e.has_opts,
                    file_level: false,
                    in_ifdata: false,
                    owner_tag_idx: id,
                    param_idx: -1,
                });
            }
            Child::Raw(toks) => {
                for (k, t) in toks.iter().enumerate() {
                    f.toks.push(FTok {
                        tok: t.clone(),
                        depth: depth + 1,
                        elem: id,
                        slot_before: e.has_opts && k == 0,
                        file_level: false,
                        in_ifdata: true,
                        owner_tag_idx: id,
                        param_idx: -1,
                    });
                }
            }
        }
    }
    if e.is_block {
        f.toks.push(FTok {
            tok: Tok::end(),
            depth,
            elem: id,
            slot_before: e.has_opts,
            file_level: false,
            in_ifdata: false,
            owner_tag_idx: id,
            param_idx: -1,
        });
        f.toks.push(FTok {
            tok: Tok::word(TK::EndTag, &e.tag),
            depth,
            elem: id,
            slot_before: false,
            file_level: false,
            in_ifdata: false,
            owner_tag_idx: id,
            param_idx: -1,
        });
    }
    let last = f.toks.len() - 1;
    f.elem_span[id as usize].1 = last;
}
