//! Small deterministic PRNG (xoshiro256**), seeded with splitmix64.

#[derive(Clone, Debug)]
pub struct Rng {
    s: [u64; 4],
}

fn splitmix(x: &mut u64) -> u64 {
    *x = x.wrapping_add(0x9E37_79B9_7F4A_7C15);
    let mut z = *x;
    z = (z ^ (z >> 30)).wrapping_mul(0xBF58_476D_1CE4_E5B9);
    z = (z ^ (z >> 27)).wrapping_mul(0x94D0_49BB_1331_11EB);
    z ^ (z >> 31)
}

/// FNV-1a 64 bit, used for case hashes and for mixing seeds
pub fn fnv64(data: &[u8]) -> u64 {
    let mut h: u64 = 0xcbf2_9ce4_8422_2325;
    for b in data {
        h ^= u64::from(*b);
        h = h.wrapping_mul(0x0000_0100_0000_01B3);
    }
    h
}

pub fn mix(parts: &[u64]) -> u64 {
    let mut x = 0x1234_5678_9abc_def0u64;
    for p in parts {
        x ^= *p;
        let _ = splitmix(&mut x);
        x = x.rotate_left(17) ^ splitmix(&mut x);
    }
    x
}

impl Rng {
    pub fn new(seed: u64) -> Self {
        let mut x = seed;
        let s = [
            splitmix(&mut x),
            splitmix(&mut x),
            splitmix(&mut x),
            splitmix(&mut x),
        ];
        Rng { s }
    }

    /// derive a generator for (seed, stream ids...)
    pub fn derive(parts: &[u64]) -> Self {
        Rng::new(mix(parts))
    }

    pub fn next_u64(&mut self) -> u64 {
        let result = self.s[1].wrapping_mul(5).rotate_left(7).wrapping_mul(9);
        let t = self.s[1] << 17;
        self.s[2] ^= self.s[0];
        self.s[3] ^= self.s[1];
        self.s[1] ^= self.s[2];
        self.s[0] ^= self.s[3];
        self.s[2] ^= t;
        self.s[3] = self.s[3].rotate_left(45);
        result
    }

    /// uniform in 0..n (n > 0)
    pub fn below(&mut self, n: usize) -> usize {
        debug_assert!(n > 0);
        (self.next_u64() % (n as u64)) as usize
    }

    /// uniform in lo..=hi
    pub fn range(&mut self, lo: i64, hi: i64) -> i64 {
        debug_assert!(lo <= hi);
        let span = (hi as i128 - lo as i128 + 1) as u128;
        (lo as i128 + (u128::from(self.next_u64()) % span) as i128) as i64
    }

    pub fn urange(&mut self, lo: usize, hi: usize) -> usize {
        lo + self.below(hi - lo + 1)
    }

    /// true with probability num/den
    pub fn chance(&mut self, num: u32, den: u32) -> bool {
        (self.next_u64() % u64::from(den)) < u64::from(num)
    }

    pub fn coin(&mut self) -> bool {
        self.next_u64() & 1 == 1
    }

    pub fn pick<'a, T>(&mut self, items: &'a [T]) -> &'a T {
        &items[self.below(items.len())]
    }

    pub fn f64_unit(&mut self) -> f64 {
        (self.next_u64() >> 11) as f64 / (1u64 << 53) as f64
    }

    pub fn shuffle<T>(&mut self, items: &mut [T]) {
        for i in (1..items.len()).rev() {
            let j = self.below(i + 1);
            items.swap(i, j);
        }
    }
}
