//! G-layout: render a flattened token list to text and record the line of every token.

use crate::doc::{FTok, Flat, TK};
use crate::rng::Rng;

#[derive(Clone, Copy, Debug, PartialEq, Eq)]
pub enum Mode {
    /// exactly the writer's own format
    Canonical,
    /// the layout class of C05: arbitrary line breaks / blank lines / indentation, LF only,
    /// /begin and /end on the line of their tag, no comments except the block-level ones
    /// that are part of the tree
    C05,
    /// anything goes: tabs, CRLF, comments in every gap, /begin and tag on different lines
    Wide,
}

#[derive(Clone, Copy, Debug, PartialEq, Eq)]
pub enum Eol {
    Lf,
    CrLf,
    Mixed,
}

#[derive(Clone, Debug)]
pub struct LayoutCfg {
    pub mode: Mode,
    pub eol: Eol,
    /// percent chance for a comment in a non-slot gap (Wide only)
    pub gap_comment_pct: u32,
    /// percent chance for a comment at file level (Wide only)
    pub file_comment_pct: u32,
    /// percent chance that a token starts a new line
    pub newline_pct: u32,
    /// first token on line 1 (canonical: leading single space) or after one line break
    pub first_on_line1: bool,
}

impl LayoutCfg {
    pub fn canonical() -> Self {
        LayoutCfg {
            mode: Mode::Canonical,
            eol: Eol::Lf,
            gap_comment_pct: 0,
            file_comment_pct: 0,
            newline_pct: 30,
            first_on_line1: false,
        }
    }
    pub fn c05(rng: &mut Rng) -> Self {
        LayoutCfg {
            mode: Mode::C05,
            eol: Eol::Lf,
            gap_comment_pct: 0,
            file_comment_pct: 0,
            newline_pct: rng.urange(5, 70) as u32,
            first_on_line1: rng.coin(),
        }
    }
    pub fn wide(rng: &mut Rng) -> Self {
        LayoutCfg {
            mode: Mode::Wide,
            eol: *rng.pick(&[Eol::Lf, Eol::Lf, Eol::CrLf, Eol::Mixed]),
            gap_comment_pct: *rng.pick(&[0u32, 0, 3, 10]),
            file_comment_pct: *rng.pick(&[0u32, 0, 20]),
            newline_pct: rng.urange(5, 70) as u32,
            first_on_line1: rng.coin(),
        }
    }
}

pub struct Rendered {
    pub text: String,
    /// 1-based line on which each flat token starts
    pub lines: Vec<u32>,
    /// byte range (start, end) of each flat token in `text`
    pub offsets: Vec<(usize, usize)>,
    /// number of gap comments inserted (class "other")
    pub gap_comments: usize,
    /// number of file level comments inserted
    pub file_comments: usize,
}

struct Out {
    text: String,
    line: u32,
    eol: Eol,
}

impl Out {
    fn newline(&mut self, rng: &mut Rng) {
        match self.eol {
            Eol::Lf => self.text.push('\n'),
            Eol::CrLf => self.text.push_str("\r\n"),
            Eol::Mixed => {
                if rng.coin() {
                    self.text.push('\n');
                } else {
                    self.text.push_str("\r\n");
                }
            }
        }
        self.line += 1;
    }
    fn push_tok_text(&mut self, t: &str) {
        self.line += t.bytes().filter(|b| *b == b'\n').count() as u32;
        self.text.push_str(t);
    }
}

/// indentation level the writer uses for a token (see writer.rs / generated stringify)
fn writer_indent(ft: &FTok) -> usize {
    match ft.tok.kind {
        TK::Begin | TK::End => ft.depth as usize,
        TK::Tag if ft.param_idx < 0 => ft.depth as usize,
        TK::Comment => ft.depth as usize,
        _ => ft.depth as usize + 1,
    }
}

/// the notation the writer itself uses for a value
pub fn canonical_spelling(tok: &crate::doc::Tok) -> String {
    use crate::doc::Val;
    match (&tok.kind, &tok.val) {
        (TK::Str, Val::Str(v)) => {
            let mut out = String::from("\"");
            for c in v.chars() {
                match c {
                    '\'' | '"' | '\\' => {
                        out.push('\\');
                        out.push(c);
                    }
                    '\r' => out.push_str("\\r"),
                    '\n' => out.push_str("\\n"),
                    '\t' => out.push_str("\\t"),
                    c => out.push(c),
                }
            }
            out.push('"');
            out
        }
        (TK::Int, Val::Int(v)) => {
            let t = tok.text.as_str();
            if t.starts_with("0x") || t.starts_with("0X") {
                format!("0x{v:X}")
            } else {
                format!("{v}")
            }
        }
        (TK::Float, Val::Float(v)) => {
            let v = *v;
            if v == 0.0 {
                "0".to_string()
            } else if v < -1e10 || (-0.0001 < v && v < 0.0001) || 1e10 < v {
                format!("{v:e}")
            } else {
                format!("{v}")
            }
        }
        _ => tok.text.clone(),
    }
}

pub fn render(flat: &Flat, cfg: &LayoutCfg, rng: &mut Rng) -> Rendered {
    let mut out = Out {
        text: String::new(),
        line: 1,
        eol: cfg.eol,
    };
    let mut lines = Vec::with_capacity(flat.toks.len());
    let mut offsets = Vec::with_capacity(flat.toks.len());
    let mut gap_comments = 0;
    let mut file_comments = 0;
    let n = flat.toks.len();
    let mut prev_was_line_comment = false;
    let mut prev_kind: Option<TK> = None;
    for (i, ft) in flat.toks.iter().enumerate() {
        let kind = ft.tok.kind;
        // ---- the gap before token i
        let same_line_required = match cfg.mode {
            Mode::Wide => false,
            _ => {
                // the tag follows /begin resp. /end on the same line
                matches!(prev_kind, Some(TK::Begin) | Some(TK::End))
            }
        };
        let must_break = prev_was_line_comment
            || (cfg.mode != Mode::Wide
                && matches!(prev_kind, Some(TK::A2ml))
                && kind == TK::End);
        if i == 0 {
            if cfg.first_on_line1 {
                if cfg.mode == Mode::Canonical {
                    out.text.push(' ');
                }
            } else {
                out.newline(rng);
            }
        } else if kind == TK::A2ml {
            // raw text follows the A2ML tag directly; it carries its own whitespace
        } else if matches!(prev_kind, Some(TK::A2ml)) && !must_break {
            // Wide mode: /end may follow the raw text on the same line if the text ends in whitespace
            if rng.coin() {
                out.newline(rng);
                for _ in 0..rng.below(5) {
                    out.text.push(' ');
                }
            } else {
                let ends_ws = out.text.ends_with(|c: char| c == ' ' || c == '\n' || c == '\t');
                if !ends_ws {
                    out.text.push(' ');
                }
            }
        } else {
            let mut broke = false;
            let mut want_break =
                must_break || (!same_line_required && rng.chance(cfg.newline_pct, 100));
            if cfg.mode == Mode::Canonical && ft.in_ifdata && !must_break {
                // the indentation inside IF_DATA depends on the interpretation of the payload;
                // canonical documents keep the payload on one line
                want_break = false;
            }
            match cfg.mode {
                Mode::Canonical => {
                    if want_break {
                        let k = if rng.chance(1, 6) { 2 } else { 1 };
                        for _ in 0..k {
                            out.newline(rng);
                        }
                        if kind != TK::Comment {
                            for _ in 0..writer_indent(ft) {
                                out.text.push_str("  ");
                            }
                        } else {
                            // comments keep their own leading spaces: emit none, the comment
                            // text is written at column 0
                        }
                        broke = true;
                    } else if kind != TK::Comment {
                        out.text.push(' ');
                    } else {
                        out.text.push(' ');
                    }
                }
                Mode::C05 => {
                    if want_break {
                        let k = match rng.below(8) {
                            0 => 2,
                            1 => 3,
                            _ => 1,
                        };
                        for _ in 0..k {
                            out.newline(rng);
                        }
                        // indentation with blanks, tabs or a mixture
                        let tabs = rng.below(4);
                        for _ in 0..rng.below(9) {
                            out.text.push(if tabs == 0 || (tabs == 1 && rng.coin()) { '\t' } else { ' ' });
                        }
                        broke = true;
                    } else {
                        for _ in 0..rng.urange(1, 3) {
                            out.text.push(if rng.chance(1, 8) { '\t' } else { ' ' });
                        }
                    }
                }
                Mode::Wide => {
                    // optional comment in the gap (class "other" unless the gap is a slot)
                    let is_slot = ft.slot_before;
                    let allow_gap_comment = !is_slot && !ft.in_ifdata_gap();
                    let pct = if ft.file_level {
                        cfg.file_comment_pct
                    } else {
                        cfg.gap_comment_pct
                    };
                    if want_break {
                        for _ in 0..rng.urange(1, 2) {
                            out.newline(rng);
                        }
                        broke = true;
                    } else if rng.chance(1, 5) {
                        out.text.push('\t');
                    } else {
                        out.text.push(' ');
                    }
                    if allow_gap_comment && pct > 0 && rng.chance(pct, 100) {
                        if ft.file_level {
                            file_comments += 1;
                        } else {
                            gap_comments += 1;
                        }
                        if rng.coin() {
                            out.text.push_str("/* gap */");
                            if rng.chance(1, 3) {
                                // several comments in one gap
                                out.text.push_str(if rng.coin() { " /* gap 2 */" } else { "/*2*//* 3 */" });
                            }
                            if rng.coin() {
                                out.text.push(' ');
                            } else {
                                out.newline(rng);
                            }
                        } else {
                            out.text.push_str("// gap");
                            out.newline(rng);
                        }
                        broke = true;
                    }
                    if broke || rng.chance(1, 3) {
                        for _ in 0..rng.below(6) {
                            out.text.push(if rng.chance(1, 6) { '\t' } else { ' ' });
                        }
                    }
                }
            }
            let _ = broke;
        }
        // ---- the token itself
        lines.push(out.line);
        let tok_start = out.text.len();
        if cfg.mode == Mode::Canonical {
            out.push_tok_text(&canonical_spelling(&ft.tok));
        } else if kind == TK::A2ml && cfg.eol != Eol::Lf {
            // the raw A2ML text follows the line-end convention of the file
            out.push_tok_text(&ft.tok.text.replace('\n', "\r\n"));
        } else {
            out.push_tok_text(&ft.tok.text);
        }
        offsets.push((tok_start, out.text.len()));
        prev_was_line_comment = kind == TK::Comment && ft.tok.text.starts_with("//");
        prev_kind = Some(kind);
        let _ = n;
    }
    // trailing newline sometimes
    if cfg.mode != Mode::Canonical && rng.coin() {
        out.newline(rng);
    }
    Rendered {
        text: out.text,
        lines,
        offsets,
        gap_comments,
        file_comments,
    }
}

impl FTok {
    /// gap lies inside an IF_DATA payload (comments there are dropped by design of the generic tree)
    pub fn in_ifdata_gap(&self) -> bool {
        self.in_ifdata
    }
}
