//! Worker runtime: argument parsing, per-case isolation (catch_unwind + journal), the generic
//! crash monitor, observation histograms, evidence summary.

use crate::json::{clip, Json};
use crate::rng::{fnv64, Rng};
use std::cell::RefCell;
use std::collections::{BTreeMap, HashSet};
use std::io::Write;
use std::panic::{catch_unwind, AssertUnwindSafe};

#[derive(Clone, Debug)]
pub struct Args {
    pub prop: String,
    pub seed: u64,
    pub thorough: bool,
    pub shard: u64,
    pub nshards: u64,
    pub out: String,
    pub journal: Option<String>,
    pub only_case: Option<u64>,
    pub resume_from: u64,
    pub replay_dir: String,
    pub replay_file: Option<String>,
    pub extra: BTreeMap<String, String>,
}

impl Args {
    pub fn parse() -> Args {
        let mut a = Args {
            prop: String::new(),
            seed: 1,
            thorough: false,
            shard: 0,
            nshards: 1,
            out: String::new(),
            journal: None,
            only_case: None,
            resume_from: 0,
            replay_dir: String::from("/verif/replay"),
            replay_file: None,
            extra: BTreeMap::new(),
        };
        let argv: Vec<String> = std::env::args().collect();
        let mut i = 1;
        while i < argv.len() {
            let k = argv[i].as_str();
            let v = argv.get(i + 1).cloned().unwrap_or_default();
            match k {
                "--seed" => a.seed = v.parse().expect("seed"),
                "--tier" => a.thorough = v == "thorough",
                "--shard" => a.shard = v.parse().expect("shard"),
                "--nshards" => a.nshards = v.parse().expect("nshards"),
                "--out" => a.out = v,
                "--journal" => a.journal = Some(v),
                "--only-case" => a.only_case = Some(v.parse().expect("case")),
                "--resume-from" => a.resume_from = v.parse().expect("resume"),
                "--replay-dir" => a.replay_dir = v,
                "--replay-file" => a.replay_file = Some(v),
                _ if k.starts_with("--") => {
                    a.extra.insert(k[2..].to_string(), v);
                }
                _ => {
                    a.prop = k.to_string();
                    i += 1;
                    continue;
                }
            }
            i += 2;
        }
        a
    }
}

#[derive(Clone, Debug)]
pub struct Violation {
    pub signature: String,
    pub detail: String,
    pub witness: Json,
}

#[derive(Clone, Debug)]
pub struct PanicInfo {
    pub message: String,
    pub file: String,
    pub line: u32,
    pub function: String,
}

thread_local! {
    static LAST_PANIC: RefCell<Option<PanicInfo>> = const { RefCell::new(None) };
    static FN_CACHE: RefCell<BTreeMap<String, String>> = const { RefCell::new(BTreeMap::new()) };
}

pub fn install_panic_hook() {
    std::panic::set_hook(Box::new(|info| {
        let message = if let Some(s) = info.payload().downcast_ref::<&str>() {
            (*s).to_string()
        } else if let Some(s) = info.payload().downcast_ref::<String>() {
            s.clone()
        } else {
            "<non-string panic payload>".to_string()
        };
        let (file, line) = info
            .location()
            .map(|l| (l.file().to_string(), l.line()))
            .unwrap_or_default();
        let key = format!("{file}:{line}");
        let cached = FN_CACHE.with(|c| c.borrow().get(&key).cloned());
        let function = match cached {
            Some(f) => f,
            None => {
                let in_repo = file.contains("/a2lfile/src/")
                    || file.contains("/regen/src/")
                    || file.contains("/a2lmacros/src/");
                let f = if in_repo && !file.contains("verif_hooks") {
                    let base = file.rsplit('/').next().unwrap_or("?").to_string();
                    format!("{}:{}", base, enclosing_fn(&file, line))
                } else {
                    let bt = std::backtrace::Backtrace::force_capture().to_string();
                    if std::env::var("VERIF_DEBUG_BT").is_ok() {
                        eprintln!("{bt}");
                    }
                    match first_repo_frame(&bt) {
                        Some((f2, l2)) => {
                            let base = f2.rsplit('/').next().unwrap_or("?").to_string();
                            format!("{}:{}", base, enclosing_fn(&f2, l2))
                        }
                        None => "?".to_string(),
                    }
                };
                FN_CACHE.with(|c| c.borrow_mut().insert(key, f.clone()));
                f
            }
        };
        LAST_PANIC.with(|p| {
            *p.borrow_mut() = Some(PanicInfo {
                message,
                file,
                line,
                function,
            })
        });
    }));
}

/// file:line of the first backtrace frame inside the crate under test
fn first_repo_frame(bt: &str) -> Option<(String, u32)> {
    for l in bt.lines() {
        let t = l.trim();
        if let Some(rest) = t.strip_prefix("at ") {
            if rest.contains("/a2lfile/src/")
                || rest.contains("/regen/src/")
                || rest.contains("/a2lmacros/src/")
            {
                if rest.contains("verif_hooks") {
                    continue;
                }
                let mut parts = rest.rsplitn(3, ':');
                let _col = parts.next();
                let line = parts.next().and_then(|l| l.parse::<u32>().ok());
                let file = parts.next();
                if let (Some(line), Some(file)) = (line, file) {
                    return Some((file.to_string(), line));
                }
            }
        }
    }
    None
}

/// name of the function (and impl target) enclosing `line` in a source file of the repo,
/// found by scanning the source text backwards for `fn name`
fn enclosing_fn(file: &str, line: u32) -> String {
    let Ok(text) = std::fs::read_to_string(file) else {
        return "?".into();
    };
    let lines: Vec<&str> = text.lines().collect();
    let mut idx = (line as usize).min(lines.len());
    let mut fname = String::from("?");
    while idx > 0 {
        idx -= 1;
        let l = lines[idx].trim_start();
        let l2 = l
            .trim_start_matches("pub(crate) ")
            .trim_start_matches("pub ")
            .trim_start_matches("const ")
            .trim_start_matches("async ");
        if let Some(rest) = l2.strip_prefix("fn ") {
            let name: String = rest
                .chars()
                .take_while(|c| c.is_alphanumeric() || *c == '_')
                .collect();
            fname = name;
            break;
        }
    }
    // impl target, if the fn is indented (i.e. inside an impl block)
    let mut imp = String::new();
    if idx < lines.len() && lines[idx].starts_with(' ') {
        let mut j = idx;
        while j > 0 {
            j -= 1;
            let l = lines[j];
            if l.starts_with("impl") {
                let body = l.trim_end_matches('{').trim();
                let target = body.rsplit(" for ").next().unwrap_or(body);
                let mut target = target.trim_start_matches("impl").trim();
                if target.starts_with('<') {
                    // skip the generic parameter list
                    let mut depth = 0;
                    let mut cut = 0;
                    for (k, ch) in target.char_indices() {
                        if ch == '<' {
                            depth += 1;
                        } else if ch == '>' {
                            depth -= 1;
                            if depth == 0 {
                                cut = k + 1;
                                break;
                            }
                        }
                    }
                    target = target[cut..].trim();
                }
                let name: String = target
                    .chars()
                    .skip_while(|c| !c.is_alphabetic())
                    .take_while(|c| c.is_alphanumeric() || *c == '_')
                    .collect();
                imp = name;
                break;
            }
            if l.starts_with("fn ") || l.starts_with("pub fn ") || l.starts_with("pub(crate) fn ") {
                break;
            }
        }
    }
    if imp.is_empty() {
        fname
    } else {
        format!("{imp}::{fname}")
    }
}

pub fn take_panic() -> Option<PanicInfo> {
    LAST_PANIC.with(|p| p.borrow_mut().take())
}

/// normalise a panic message to its class (numbers removed)
pub fn panic_class(msg: &str) -> String {
    let mut out = String::new();
    let mut prev_digit = false;
    for c in msg.chars() {
        if c.is_ascii_digit() {
            if !prev_digit {
                out.push('N');
            }
            prev_digit = true;
        } else {
            out.push(c);
            prev_digit = false;
        }
    }
    let out = out.replace('\n', " ");
    // keep it short and stable
    let cut = out
        .find(" but the index is")
        .or_else(|| out.find(" of `"))
        .unwrap_or(out.len());
    let mut s = out[..cut.min(out.len())].to_string();
    if s.len() > 80 {
        let mut e = 80;
        while !s.is_char_boundary(e) {
            e -= 1;
        }
        s.truncate(e);
    }
    s
}

pub fn panic_signature(p: &PanicInfo) -> String {
    format!("panic {} [{}]", p.function, panic_class(&p.message))
}

pub struct Recorder {
    pub prop: String,
    pub seed: u64,
    pub shard: u64,
    pub evaluations: u64,
    pub nontrivial_hashes: HashSet<u64>,
    pub hist: BTreeMap<String, u64>,
    pub floors: BTreeMap<String, u64>,
    pub samples: Vec<Json>,
    pub violations: Vec<Violation>,
    pub viol_counts: BTreeMap<String, u64>,
    pub notes: Vec<String>,
    pub rule: String,
    pub assumptions: Vec<String>,
    pub extra: BTreeMap<String, Json>,
    pub max_samples: usize,
    pub replay_dir: String,
    pub cur_case: u64,
    pub tier: String,
    pub journal: Journal,
}

impl Recorder {
    pub fn new(args: &Args) -> Self {
        Recorder {
            prop: args.prop.clone(),
            seed: args.seed,
            shard: args.shard,
            evaluations: 0,
            nontrivial_hashes: HashSet::new(),
            hist: BTreeMap::new(),
            floors: BTreeMap::new(),
            samples: Vec::new(),
            violations: Vec::new(),
            viol_counts: BTreeMap::new(),
            notes: Vec::new(),
            rule: String::new(),
            assumptions: Vec::new(),
            extra: BTreeMap::new(),
            max_samples: 3,
            replay_dir: args.replay_dir.clone(),
            cur_case: 0,
            journal: Journal::open(&args.journal),
            tier: if args.thorough {
                "thorough".into()
            } else {
                "quick".into()
            },
        }
    }
    /// attach a label to the current case in the journal (used to attribute process aborts)
    pub fn label(&mut self, label: &str) {
        let c = self.cur_case;
        self.journal.mark(c, label);
    }
    pub fn bump(&mut self, key: &str) {
        *self.hist.entry(key.to_string()).or_insert(0) += 1;
    }
    pub fn add(&mut self, key: &str, n: u64) {
        *self.hist.entry(key.to_string()).or_insert(0) += n;
    }
    pub fn floor(&mut self, key: &str, min: u64) {
        self.floors.insert(key.to_string(), min);
    }
    pub fn eval(&mut self) {
        self.evaluations += 1;
    }
    pub fn nontrivial(&mut self, data: &[u8]) {
        self.nontrivial_hashes.insert(fnv64(data));
    }
    pub fn nontrivial_hash(&mut self, h: u64) {
        self.nontrivial_hashes.insert(h);
    }
    pub fn sample(&mut self, s: Json) {
        if self.samples.len() < self.max_samples {
            self.samples.push(s);
        }
    }
    pub fn want_sample(&self) -> bool {
        self.samples.len() < self.max_samples
    }
    /// record a violation; at most 3 witnesses are kept per signature
    pub fn violation(&mut self, signature: &str, detail: &str, witness: Json) {
        let c = self.viol_counts.entry(signature.to_string()).or_insert(0);
        *c += 1;
        if *c <= 3 {
            self.violations.push(Violation {
                signature: signature.to_string(),
                detail: clip(detail, 2000),
                witness,
            });
        }
    }

    pub fn write_summary(&self, out_path: &str) {
        let mut viol = Vec::new();
        for (k, v) in self.violations.iter().enumerate() {
            // write the replay file
            let dir = format!("{}/{}", self.replay_dir, self.prop);
            let _ = std::fs::create_dir_all(&dir);
            let path = format!(
                "{}/{:016x}-s{}-sh{}-{}.json",
                dir,
                fnv64(v.signature.as_bytes()),
                self.seed,
                self.shard,
                k
            );
            let rj = Json::obj()
                .with("property", Json::s(&self.prop))
                .with("signature", Json::s(&v.signature))
                .with("detail", Json::s(&v.detail))
                .with("seed", Json::UInt(self.seed))
                .with("tier", Json::s(&self.tier))
                .with("witness", v.witness.clone());
            let _ = std::fs::write(&path, rj.to_string());
            viol.push(
                Json::obj()
                    .with("signature", Json::s(&v.signature))
                    .with("detail", Json::s(&clip(&v.detail, 600)))
                    .with("replay", Json::s(&path)),
            );
        }
        let hashes_path = format!("{out_path}.hashes");
        if let Ok(mut f) = std::fs::File::create(&hashes_path) {
            let mut buf = Vec::with_capacity(self.nontrivial_hashes.len() * 8);
            for h in &self.nontrivial_hashes {
                buf.extend_from_slice(&h.to_le_bytes());
            }
            let _ = f.write_all(&buf);
        }
        let j = Json::obj()
            .with("property", Json::s(&self.prop))
            .with("shard", Json::UInt(self.shard))
            .with("evaluations", Json::UInt(self.evaluations))
            .with(
                "distinct_nontrivial",
                Json::UInt(self.nontrivial_hashes.len() as u64),
            )
            .with("hashes_file", Json::s(&hashes_path))
            .with("hist", Json::from_map(&self.hist))
            .with("floors", Json::from_map(&self.floors))
            .with("samples", Json::Arr(self.samples.clone()))
            .with("violations", Json::Arr(viol))
            .with("violation_counts", Json::from_map(&self.viol_counts))
            .with("rule", Json::s(&self.rule))
            .with(
                "assumptions",
                Json::Arr(self.assumptions.iter().map(|s| Json::s(s)).collect()),
            )
            .with(
                "notes",
                Json::Arr(self.notes.iter().map(|s| Json::s(s)).collect()),
            )
            .with(
                "extra",
                Json::Obj(self.extra.clone()),
            )
            .with("done", Json::Bool(true));
        std::fs::write(out_path, j.to_string()).expect("write summary");
    }
}

pub struct Journal {
    file: Option<std::fs::File>,
}

impl Journal {
    pub fn open(path: &Option<String>) -> Journal {
        Journal {
            file: path
                .as_ref()
                .and_then(|p| std::fs::OpenOptions::new().create(true).write(true).truncate(true).open(p).ok()),
        }
    }
    pub fn mark(&mut self, case: u64, label: &str) {
        use std::io::{Seek, SeekFrom};
        if let Some(f) = &mut self.file {
            let _ = f.seek(SeekFrom::Start(0));
            let mut l: String = label.chars().filter(|c| *c != '\n').take(100).collect();
            while l.len() < 100 {
                l.push(' ');
            }
            let _ = f.write_all(format!("{case:020}\n{l}\n").as_bytes());
        }
    }
}

/// Run `ncases` cases of this shard. `case_fn(rng, case_index, recorder)` performs one case; a
/// panic escaping it is recorded by the crash monitor with `witness_fn`'s description.
pub fn run_cases<F>(args: &Args, rec: &mut Recorder, total_cases: u64, pre_case: fn(), mut case_fn: F)
where
    F: FnMut(&mut Rng, u64, &mut Recorder) -> Option<Json>,
{
    let prop_h = fnv64(args.prop.as_bytes());
    let range: Box<dyn Iterator<Item = u64>> = match args.only_case {
        Some(c) => Box::new(std::iter::once(c)),
        None => Box::new(
            (args.resume_from..total_cases).filter(move |c| c % args.nshards == args.shard),
        ),
    };
    for case in range {
        rec.journal.mark(case, "");
        rec.cur_case = case;
        let mut rng = Rng::derive(&[args.seed, prop_h, case]);
        pre_case();
        let _ = take_panic();
        let result = catch_unwind(AssertUnwindSafe(|| case_fn(&mut rng, case, rec)));
        if let Err(_) = result {
            let p = take_panic().unwrap_or(PanicInfo {
                message: "?".into(),
                file: "?".into(),
                line: 0,
                function: "?".into(),
            });
            if p.function == "?" {
                // no frame of the code under test on the stack: an error of the harness itself.
                // Never a violation; the run is marked inconclusive.
                rec.bump("harness_panics");
                if rec.notes.len() < 5 {
                    rec.notes.push(format!(
                        "harness panic in case {case} at {}:{}: {}",
                        p.file,
                        p.line,
                        clip(&p.message, 300)
                    ));
                }
                continue;
            }
            let sig = panic_signature(&p);
            let detail = format!(
                "panic at {}:{} in {}: {}",
                p.file, p.line, p.function, p.message
            );
            let witness = Json::obj()
                .with("case", Json::UInt(case))
                .with("seed", Json::UInt(args.seed))
                .with("note", Json::s("re-run this case with --only-case to regenerate the input"));
            rec.violation(&sig, &detail, witness);
            rec.bump("panics");
        }
    }
}

/// run a closure under the crash monitor; returns Err(signature, detail) on panic
pub fn guarded<T>(f: impl FnOnce() -> T) -> Result<T, (String, String)> {
    let _ = take_panic();
    match catch_unwind(AssertUnwindSafe(f)) {
        Ok(v) => Ok(v),
        Err(_) => {
            let p = take_panic().unwrap_or(PanicInfo {
                message: "?".into(),
                file: "?".into(),
                line: 0,
                function: "?".into(),
            });
            if p.function == "?" {
                // harness error inside a guarded section: re-raise so that the case is counted as a harness panic
                LAST_PANIC.with(|lp| *lp.borrow_mut() = Some(p.clone()));
                std::panic::resume_unwind(Box::new(format!("harness error: {}", p.message)));
            }
            Err((
                panic_signature(&p),
                format!(
                    "panic at {}:{} in {}: {}",
                    p.file, p.line, p.function, p.message
                ),
            ))
        }
    }
}
