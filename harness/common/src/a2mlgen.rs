//! G-a2ml: grammar-based generator of A2ML definitions, conforming IF_DATA instances and
//! single-token deviations. All tags and enum items are globally unique inside one definition,
//! so conformance is unambiguous by construction.

use crate::doc::{Tok, TK};
use crate::rng::Rng;

#[derive(Clone, Copy, Debug, PartialEq)]
pub enum Sc {
    Char,
    Int,
    Long,
    Int64,
    UChar,
    UInt,
    ULong,
    UInt64,
    Float,
    Double,
}

pub const SCALARS: [Sc; 10] = [
    Sc::Char,
    Sc::Int,
    Sc::Long,
    Sc::Int64,
    Sc::UChar,
    Sc::UInt,
    Sc::ULong,
    Sc::UInt64,
    Sc::Float,
    Sc::Double,
];

impl Sc {
    pub fn name(self) -> &'static str {
        match self {
            Sc::Char => "char",
            Sc::Int => "int",
            Sc::Long => "long",
            Sc::Int64 => "int64",
            Sc::UChar => "uchar",
            Sc::UInt => "uint",
            Sc::ULong => "ulong",
            Sc::UInt64 => "uint64",
            Sc::Float => "float",
            Sc::Double => "double",
        }
    }
    pub fn bits_signed(self) -> Option<(u8, bool)> {
        match self {
            Sc::Char => Some((8, true)),
            Sc::Int => Some((16, true)),
            Sc::Long => Some((32, true)),
            Sc::Int64 => Some((64, true)),
            Sc::UChar => Some((8, false)),
            Sc::UInt => Some((16, false)),
            Sc::ULong => Some((32, false)),
            Sc::UInt64 => Some((64, false)),
            _ => None,
        }
    }
}

#[derive(Clone, Debug)]
pub struct TItem {
    pub tag: String,
    pub is_block: bool,
    /// `( ... )*` around the tagged item (taggedstruct only)
    pub repeat: bool,
    /// None = tag without content
    pub item: Option<AType>,
    /// `"TAG" ( member )*` inner repetition
    pub inner_repeat: bool,
}

#[derive(Clone, Debug)]
pub enum AType {
    Scalar(Sc),
    Array(Box<AType>, usize),
    CharArray(usize),
    Enum {
        name: Option<String>,
        items: Vec<(String, Option<i32>)>,
    },
    Struct {
        name: Option<String>,
        members: Vec<AType>,
    },
    TaggedStruct {
        name: Option<String>,
        items: Vec<TItem>,
    },
    TaggedUnion {
        name: Option<String>,
        items: Vec<TItem>,
    },
}

pub struct Def {
    pub root: AType,
    /// named types hoisted to the top level (declaration order)
    pub hoisted: Vec<AType>,
    pub features: Vec<&'static str>,
}

pub struct DefGen<'r> {
    rng: &'r mut Rng,
    prefix: String,
    counter: usize,
    hoisted: Vec<AType>,
    features: Vec<&'static str>,
}

impl<'r> DefGen<'r> {
    fn fresh(&mut self, p: &str) -> String {
        self.counter += 1;
        format!("{}{p}{}", self.prefix, self.counter)
    }

    fn feature(&mut self, f: &'static str) {
        if !self.features.contains(&f) {
            self.features.push(f);
        }
    }

    fn scalar(&mut self) -> AType {
        AType::Scalar(*self.rng.pick(&SCALARS))
    }

    fn member(&mut self, depth: usize) -> AType {
        let r = self.rng.below(if depth >= 4 { 6 } else { 10 });
        match r {
            0..=2 => {
                self.feature("scalar");
                self.scalar()
            }
            3 => {
                self.feature("char_array");
                AType::CharArray(self.rng.urange(1, 40))
            }
            4 => {
                self.feature("array");
                let n = self.rng.urange(1, 4);
                let inner = if self.rng.chance(1, 4) && depth < 3 {
                    self.feature("array_of_struct");
                    self.strukt(depth + 1)
                } else {
                    // char[n] is a string in A2ML, so an array of scalars never has the base type char
                    loop {
                        let s = *self.rng.pick(&SCALARS);
                        if s != Sc::Char {
                            break AType::Scalar(s);
                        }
                    }
                };
                AType::Array(Box::new(inner), n)
            }
            5 => {
                self.feature("enum");
                self.enumeration()
            }
            6 | 7 => {
                self.feature("struct");
                self.strukt(depth + 1)
            }
            8 => {
                self.feature("taggedstruct");
                self.taggedstruct(depth + 1)
            }
            _ => {
                self.feature("taggedunion");
                self.taggedunion(depth + 1)
            }
        }
    }

    fn enumeration(&mut self) -> AType {
        let n = self.rng.urange(1, 4);
        let with_values = self.rng.coin();
        if with_values {
            self.feature("enum_with_values");
        }
        let items = (0..n)
            .map(|i| {
                (
                    self.fresh("EN_"),
                    if with_values { Some(i as i32 * 3) } else { None },
                )
            })
            .collect();
        let t = AType::Enum {
            name: None,
            items,
        };
        self.maybe_hoist(t)
    }

    fn strukt(&mut self, depth: usize) -> AType {
        let n = self.rng.urange(1, 4);
        let mut members = Vec::new();
        for _ in 0..n {
            members.push(self.member(depth));
        }
        let t = AType::Struct {
            name: None,
            members,
        };
        self.maybe_hoist(t)
    }

    fn titem(&mut self, depth: usize, allow_repeat: bool) -> TItem {
        let tag = self.fresh("TG_");
        let is_block = self.rng.chance(2, 5);
        if is_block {
            self.feature("block");
        }
        let repeat = allow_repeat && self.rng.chance(1, 3);
        if repeat {
            self.feature("repeated_tagged_item");
        }
        let (item, inner_repeat) = match self.rng.below(6) {
            0 => {
                self.feature("tag_without_content");
                (None, false)
            }
            1 => {
                self.feature("inner_repeat");
                // ( member )* : the member must consume at least one token per repetition
                let m = match self.rng.below(3) {
                    0 => self.scalar(),
                    1 => AType::Struct {
                        name: None,
                        members: vec![self.scalar(), self.scalar()],
                    },
                    _ => self.enumeration(),
                };
                (Some(m), true)
            }
            _ => (Some(self.member(depth)), false),
        };
        // an open-ended repetition must be delimited: "TAG" ( member )* is only generated in block form,
        // so that a following struct member of the same kind cannot be absorbed by the repetition
        let is_block = is_block || inner_repeat;
        TItem {
            tag,
            is_block,
            repeat,
            item,
            inner_repeat,
        }
    }

    fn taggedstruct(&mut self, depth: usize) -> AType {
        let n = self.rng.urange(1, 4);
        let items = (0..n).map(|_| self.titem(depth, true)).collect();
        let t = AType::TaggedStruct {
            name: None,
            items,
        };
        self.maybe_hoist(t)
    }

    fn taggedunion(&mut self, depth: usize) -> AType {
        let n = self.rng.urange(1, 4);
        let items = (0..n).map(|_| self.titem(depth, false)).collect();
        let t = AType::TaggedUnion {
            name: None,
            items,
        };
        self.maybe_hoist(t)
    }

    /// give the type a name; sometimes move its definition to the top level and refer to it
    fn maybe_hoist(&mut self, mut t: AType) -> AType {
        match self.rng.below(4) {
            0 => {
                // named, defined in place
                self.feature("named_in_place");
                let n = self.fresh("ty_");
                set_name(&mut t, Some(n));
                t
            }
            1 => {
                // hoisted: defined before, referenced by name
                self.feature("reference_to_earlier_type");
                let n = self.fresh("ty_");
                set_name(&mut t, Some(n));
                self.hoisted.push(t.clone());
                t
            }
            _ => t,
        }
    }
}

fn set_name(t: &mut AType, n: Option<String>) {
    match t {
        AType::Enum { name, .. }
        | AType::Struct { name, .. }
        | AType::TaggedStruct { name, .. }
        | AType::TaggedUnion { name, .. } => *name = n,
        _ => {}
    }
}

fn type_name(t: &AType) -> Option<&String> {
    match t {
        AType::Enum { name, .. }
        | AType::Struct { name, .. }
        | AType::TaggedStruct { name, .. }
        | AType::TaggedUnion { name, .. } => name.as_ref(),
        _ => None,
    }
}

pub fn gen_def(rng: &mut Rng) -> Def {
    gen_def_prefixed(rng, "")
}

/// all tags, enum items and type names carry the prefix (to make two definitions disjoint)
pub fn gen_def_prefixed(rng: &mut Rng, prefix: &str) -> Def {
    let mut g = DefGen {
        rng,
        prefix: prefix.to_string(),
        counter: 0,
        hoisted: Vec::new(),
        features: Vec::new(),
    };
    // the IF_DATA block is conventionally a taggedunion; other shapes occur as well
    let root = match g.rng.below(6) {
        0 => g.strukt(1),
        1 => g.taggedstruct(1),
        _ => g.taggedunion(1),
    };
    Def {
        root,
        hoisted: g.hoisted,
        features: g.features,
    }
}

// ------------------------------------------------------------------------------------------
// rendering of the definition text

fn render_type(t: &AType, hoisted_names: &[String], out: &mut String, top_level_def: bool) {
    // a hoisted type is written as a reference unless we are writing its own definition
    if !top_level_def {
        if let Some(n) = type_name(t) {
            if hoisted_names.contains(n) {
                let kw = match t {
                    AType::Enum { .. } => "enum",
                    AType::Struct { .. } => "struct",
                    AType::TaggedStruct { .. } => "taggedstruct",
                    AType::TaggedUnion { .. } => "taggedunion",
                    _ => unreachable!(),
                };
                out.push_str(&format!("{kw} {n}"));
                return;
            }
        }
    }
    match t {
        AType::Scalar(s) => out.push_str(s.name()),
        AType::CharArray(n) => out.push_str(&format!("char[{n}]")),
        AType::Array(inner, n) => {
            render_type(inner, hoisted_names, out, false);
            out.push_str(&format!("[{n}]"));
        }
        AType::Enum { name, items } => {
            out.push_str("enum ");
            if let Some(n) = name {
                out.push_str(n);
                out.push(' ');
            }
            out.push_str("{ ");
            for (i, (item, val)) in items.iter().enumerate() {
                if i > 0 {
                    out.push_str(", ");
                }
                out.push_str(&format!("\"{item}\""));
                if let Some(v) = val {
                    out.push_str(&format!(" = {v}"));
                }
            }
            out.push_str(" }");
        }
        AType::Struct { name, members } => {
            out.push_str("struct ");
            if let Some(n) = name {
                out.push_str(n);
                out.push(' ');
            }
            out.push_str("{ ");
            for m in members {
                render_type(m, hoisted_names, out, false);
                out.push_str("; ");
            }
            out.push('}');
        }
        AType::TaggedStruct { name, items } | AType::TaggedUnion { name, items } => {
            out.push_str(if matches!(t, AType::TaggedStruct { .. }) {
                "taggedstruct "
            } else {
                "taggedunion "
            });
            if let Some(n) = name {
                out.push_str(n);
                out.push(' ');
            }
            out.push_str("{ ");
            for it in items {
                if it.repeat {
                    out.push('(');
                }
                if it.is_block {
                    out.push_str("block ");
                }
                out.push_str(&format!("\"{}\"", it.tag));
                if let Some(m) = &it.item {
                    out.push(' ');
                    if it.inner_repeat {
                        out.push('(');
                    }
                    render_type(m, hoisted_names, out, false);
                    if it.inner_repeat {
                        out.push_str(")*");
                    }
                }
                if it.repeat {
                    out.push_str(")*");
                }
                out.push_str("; ");
            }
            out.push('}');
        }
    }
}

pub fn render_def(def: &Def, rng: &mut Rng) -> String {
    let names: Vec<String> = def.hoisted.iter().filter_map(|t| type_name(t).cloned()).collect();
    let mut out = String::from("\n");
    if rng.coin() {
        out.push_str("  /* generated A2ML */\n");
    }
    // hoisted definitions in order of creation: a type created later may contain references to
    // types created earlier only (inner types are created first), so this order is legal
    for (i, t) in def.hoisted.iter().enumerate() {
        out.push_str("  ");
        // while writing definition i, only types 0..i may be referred to by name
        render_type(t, &names[..i], &mut out, true);
        out.push_str(";\n");
        if rng.chance(1, 5) {
            out.push_str("  // comment\n");
        }
    }
    out.push_str("  block \"IF_DATA\" ");
    render_type(&def.root, &names, &mut out, false);
    out.push_str(";\n");
    out
}

// ------------------------------------------------------------------------------------------
// instances

/// role of a token inside the instance, used to pick positions for deviations
#[derive(Clone, Copy, Debug, PartialEq)]
pub enum Role {
    /// scalar / enum / string that is required at its position (deleting or retyping it breaks conformance)
    Required,
    /// element of a `( scalar )*` repetition (deleting it keeps the instance conforming)
    SeqElem,
    Tag,
    Structure,
}

pub struct Inst {
    pub toks: Vec<Tok>,
    pub roles: Vec<Role>,
    /// scalar type of integer tokens (for out-of-range deviations)
    pub int_types: Vec<Option<Sc>>,
    pub enum_positions: Vec<usize>,
    /// (position behind the member chosen for a taggedunion, tokens of another member of the same
    /// union): inserting the tokens there puts two members into a union that takes at most one
    pub union_sites: Vec<(usize, Vec<Tok>)>,
    /// nesting depth of arrays and inner repetitions during generation: inside them the next
    /// element could absorb a surplus union member, so no union site is recorded there
    pub rep_depth: usize,
}

impl Inst {
    fn push(&mut self, t: Tok, r: Role, sc: Option<Sc>) {
        self.toks.push(t);
        self.roles.push(r);
        self.int_types.push(sc);
    }
}

thread_local! {
    /// when set, members of type float occasionally get a literal beyond the f32 range (finite as f64):
    /// such an instance does not conform, the document is still a legal A2L document (C01/C02 use it)
    pub static HUGE_FLOATS: std::cell::Cell<bool> = const { std::cell::Cell::new(false) };
}

fn gen_scalar(rng: &mut Rng, s: Sc) -> Tok {
    match s.bits_signed() {
        Some((bits, signed)) => {
            let (lo, hi) = crate::values::int_bounds(bits, signed);
            let v: i128 = match rng.below(8) {
                0 => lo,
                1 => hi,
                2 => 0,
                3 => {
                    if signed {
                        -1
                    } else {
                        1
                    }
                }
                _ => {
                    let span = (hi - lo + 1) as u128;
                    lo + (((u128::from(rng.next_u64()) << 64) | u128::from(rng.next_u64())) % span) as i128
                }
            };
            if rng.chance(1, 3) {
                // hex notation: non-negative value, or the two's complement pattern of a negative one
                let pattern = if v < 0 { (1i128 << bits) + v } else { v };
                let text = if rng.coin() {
                    format!("0x{pattern:X}")
                } else {
                    format!("0x{pattern:x}")
                };
                Tok::int(pattern, text)
            } else {
                Tok::int(v, format!("{v}"))
            }
        }
        None => {
            if s == Sc::Float && HUGE_FLOATS.with(|h| h.get()) && rng.chance(1, 5) {
                let (v, t) = *rng.pick(&[(3.5e38, "3.5e38"), (-1e39, "-1e39"), (1e300, "1e300"), (-3.5e38, "-3.5E+38")]);
                Tok::float(v, t.to_string())
            } else if s == Sc::Float {
                let v = (rng.range(-40000, 40000) as f32) / 16.0;
                Tok::float(f64::from(v), format!("{v}"))
            } else {
                let v = match rng.below(4) {
                    0 => 0.1,
                    1 => -1234.5678e10,
                    2 => 3.141592653589793,
                    _ => (rng.f64_unit() - 0.5) * 1e6,
                };
                Tok::float(v, format!("{v:?}"))
            }
        }
    }
}

fn gen_string(rng: &mut Rng, maxlen: usize) -> Tok {
    // the full length n of char[n] is legal and a boundary worth meeting often
    let len = if rng.chance(1, 6) { maxlen } else { rng.below(maxlen + 1) };
    let mut s = String::new();
    let mut text = String::new();
    // one string in five has backslashes (and nothing else that needs an escape)
    let backslashes = rng.chance(1, 5);
    while s.len() < len {
        match rng.below(12) {
            0 if s.len() + 2 <= len => {
                s.push('é');
                text.push('é');
            }
            1 => {
                s.push(' ');
                text.push(' ');
            }
            2 => {
                s.push('_');
                text.push('_');
            }
            3 | 4 if backslashes => {
                s.push('\\');
                text.push_str("\\\\");
            }
            5 if backslashes => {
                s.push('n');
                text.push('n');
            }
            _ => {
                let c = (b'a' + rng.below(26) as u8) as char;
                s.push(c);
                text.push(c);
            }
        }
    }
    Tok::string(&s, format!("\"{text}\""))
}

pub fn gen_instance_of(rng: &mut Rng, t: &AType, inst: &mut Inst) {
    match t {
        AType::Scalar(s) => {
            let tok = gen_scalar(rng, *s);
            let sc = s.bits_signed().map(|_| *s);
            inst.push(tok, Role::Required, sc);
        }
        AType::CharArray(n) => inst.push(gen_string(rng, *n), Role::Required, None),
        AType::Array(inner, n) => {
            inst.rep_depth += 1;
            for _ in 0..*n {
                gen_instance_of(rng, inner, inst);
            }
            inst.rep_depth -= 1;
        }
        AType::Enum { items, .. } => {
            let (name, _) = rng.pick(items);
            inst.enum_positions.push(inst.toks.len());
            inst.push(Tok::word(TK::Enum, name), Role::Required, None);
        }
        AType::Struct { members, .. } => {
            for m in members {
                gen_instance_of(rng, m, inst);
            }
        }
        AType::TaggedStruct { items, .. } => {
            // a random selection of the items, repeated ones several times, in random order
            let mut plan: Vec<&TItem> = Vec::new();
            for it in items {
                let n = if it.repeat { rng.below(4) } else { rng.below(2) };
                for _ in 0..n {
                    plan.push(it);
                }
            }
            rng.shuffle(&mut plan);
            for it in plan {
                gen_tagged(rng, it, inst);
            }
        }
        AType::TaggedUnion { items, .. } => {
            if rng.chance(4, 5) {
                let k = rng.below(items.len());
                gen_tagged(rng, &items[k], inst);
                if items.len() >= 2 && inst.rep_depth == 0 {
                    let other = &items[(k + 1 + rng.below(items.len() - 1)) % items.len()];
                    let mut tmp = Inst {
                        toks: Vec::new(),
                        roles: Vec::new(),
                        int_types: Vec::new(),
                        enum_positions: Vec::new(),
                        union_sites: Vec::new(),
                        rep_depth: 1,
                    };
                    gen_tagged(rng, other, &mut tmp);
                    inst.union_sites.push((inst.toks.len(), tmp.toks));
                }
            }
        }
    }
}

fn gen_tagged(rng: &mut Rng, it: &TItem, inst: &mut Inst) {
    if it.is_block {
        inst.push(Tok::begin(), Role::Structure, None);
    }
    inst.push(Tok::word(TK::Tag, &it.tag), Role::Tag, None);
    if let Some(m) = &it.item {
        if it.inner_repeat {
            let n = rng.below(4);
            inst.rep_depth += 1;
            for _ in 0..n {
                let start = inst.toks.len();
                gen_instance_of(rng, m, inst);
                // single-token repetitions can be dropped without breaking conformance
                if inst.toks.len() - start == 1 {
                    inst.roles[start] = Role::SeqElem;
                }
            }
            inst.rep_depth -= 1;
        } else {
            gen_instance_of(rng, m, inst);
        }
    }
    if it.is_block {
        inst.push(Tok::end(), Role::Structure, None);
        inst.push(Tok::word(TK::EndTag, &it.tag), Role::Structure, None);
    }
}

pub fn gen_instance(rng: &mut Rng, def: &Def) -> Inst {
    let mut inst = Inst {
        toks: Vec::new(),
        roles: Vec::new(),
        int_types: Vec::new(),
        enum_positions: Vec::new(),
        union_sites: Vec::new(),
        rep_depth: 0,
    };
    gen_instance_of(rng, &def.root, &mut inst);
    inst
}

/// a single-token deviation that keeps /begin../end balanced; returns (tokens, kind) or None if
/// the instance offers no suitable position
pub fn deviate(rng: &mut Rng, inst: &Inst) -> Option<(Vec<Tok>, &'static str)> {
    let required: Vec<usize> = (0..inst.toks.len()).filter(|i| inst.roles[*i] == Role::Required).collect();
    let mut toks = inst.toks.clone();
    for _attempt in 0..8 {
        match rng.below(7) {
            6 => {
                // an integer member spelled as a float (5.0): not an integer token
                let ints: Vec<usize> = (0..toks.len())
                    .filter(|i| inst.int_types[*i].is_some() && inst.roles[*i] == Role::Required && toks[*i].kind == TK::Int)
                    .collect();
                let Some(&i) = ints.get(rng.below(ints.len().max(1))) else { continue };
                let v = match &toks[i].val {
                    crate::doc::Val::Int(v) if v.unsigned_abs() < (1u128 << 50) => *v,
                    _ => continue,
                };
                toks[i] = Tok::float(v as f64, format!("{v}.0"));
                return Some((toks, "integer_spelled_as_float"));
            }
            5 => {
                // a second member in a taggedunion (its tag occurs nowhere else in the definition)
                if inst.union_sites.is_empty() {
                    continue;
                }
                let (pos, extra) = &inst.union_sites[rng.below(inst.union_sites.len())];
                for (k, t) in extra.iter().enumerate() {
                    toks.insert(pos + k, t.clone());
                }
                return Some((toks, "second_member_in_taggedunion"));
            }
            0 => {
                // wrong token kind at a required position
                let Some(&i) = required.get(rng.below(required.len().max(1))) else { continue };
                let replacement = match toks[i].kind {
                    TK::Int | TK::Float => Tok::string("zz", "\"zz\"".into()),
                    TK::Str => Tok::int(5, "5".into()),
                    TK::Enum => Tok::int(7, "7".into()),
                    _ => continue,
                };
                toks[i] = replacement;
                return Some((toks, "wrong_token_kind"));
            }
            1 => {
                // unknown tag with a value in front of everything (the first item cannot match it)
                toks.insert(0, Tok::word(TK::Ident, "ZZ_UNKNOWN_TAG"));
                toks.insert(1, Tok::int(1, "1".into()));
                return Some((toks, "unknown_tag"));
            }
            2 => {
                let Some(&i) = inst.enum_positions.get(rng.below(inst.enum_positions.len().max(1))) else { continue };
                toks[i] = Tok::word(TK::Enum, "ZZ_NOT_AN_ITEM");
                return Some((toks, "unknown_enum_item"));
            }
            3 => {
                // missing required member: only if its neighbour is not of the same kind (otherwise the
                // following values just shift and a trailing element of a repetition may absorb it)
                let Some(&i) = required.get(rng.below(required.len().max(1))) else { continue };
                // trailing surplus check is done by the caller through the expected verdict; to stay
                // unambiguous, append a surplus string at the very end instead of deleting
                let _ = i;
                toks.push(Tok::string("surplus", "\"surplus\"".into()));
                // a trailing string conforms only if the definition ends in an open repetition of
                // strings, which the generator never produces (char[n] is never repeated at the end)
                return Some((toks, "surplus_token_at_end"));
            }
            _ => {
                // out-of-range integer (decimal)
                let ints: Vec<usize> = (0..toks.len())
                    .filter(|i| inst.int_types[*i].is_some() && inst.roles[*i] == Role::Required)
                    .collect();
                let Some(&i) = ints.get(rng.below(ints.len().max(1))) else { continue };
                let sc = inst.int_types[i].unwrap();
                let (bits, signed) = sc.bits_signed().unwrap();
                if bits == 64 {
                    continue;
                }
                let (_, hi) = crate::values::int_bounds(bits, signed);
                let v = hi + 1 + i128::from(rng.below(1000) as u32);
                toks[i] = Tok::int(v, format!("{v}"));
                return Some((toks, "integer_out_of_range"));
            }
        }
    }
    None
}
