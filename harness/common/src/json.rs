//! Minimal JSON value + writer (no third-party crates in the harness).

use std::collections::BTreeMap;
use std::fmt::Write;

#[derive(Clone, Debug, PartialEq)]
pub enum Json {
    Null,
    Bool(bool),
    Int(i64),
    UInt(u64),
    Float(f64),
    Str(String),
    Arr(Vec<Json>),
    Obj(BTreeMap<String, Json>),
}

impl Json {
    pub fn obj() -> Json {
        Json::Obj(BTreeMap::new())
    }
    pub fn set(&mut self, key: &str, val: Json) -> &mut Json {
        if let Json::Obj(m) = self {
            m.insert(key.to_string(), val);
        }
        self
    }
    pub fn with(mut self, key: &str, val: Json) -> Json {
        self.set(key, val);
        self
    }
    pub fn s(text: &str) -> Json {
        Json::Str(text.to_string())
    }
    pub fn from_map(m: &BTreeMap<String, u64>) -> Json {
        Json::Obj(m.iter().map(|(k, v)| (k.clone(), Json::UInt(*v))).collect())
    }

    pub fn write_to(&self, out: &mut String) {
        match self {
            Json::Null => out.push_str("null"),
            Json::Bool(b) => out.push_str(if *b { "true" } else { "false" }),
            Json::Int(i) => {
                write!(out, "{i}").unwrap();
            }
            Json::UInt(u) => {
                write!(out, "{u}").unwrap();
            }
            Json::Float(f) => {
                if f.is_finite() {
                    write!(out, "{f:?}").unwrap();
                } else {
                    out.push_str("null");
                }
            }
            Json::Str(s) => escape_into(s, out),
            Json::Arr(a) => {
                out.push('[');
                for (i, v) in a.iter().enumerate() {
                    if i > 0 {
                        out.push(',');
                    }
                    v.write_to(out);
                }
                out.push(']');
            }
            Json::Obj(m) => {
                out.push('{');
                for (i, (k, v)) in m.iter().enumerate() {
                    if i > 0 {
                        out.push(',');
                    }
                    escape_into(k, out);
                    out.push(':');
                    v.write_to(out);
                }
                out.push('}');
            }
        }
    }

    pub fn to_string(&self) -> String {
        let mut s = String::new();
        self.write_to(&mut s);
        s
    }
}

pub fn escape_into(s: &str, out: &mut String) {
    out.push('"');
    for c in s.chars() {
        match c {
            '"' => out.push_str("\\\""),
            '\\' => out.push_str("\\\\"),
            '\n' => out.push_str("\\n"),
            '\r' => out.push_str("\\r"),
            '\t' => out.push_str("\\t"),
            c if (c as u32) < 0x20 => {
                write!(out, "\\u{:04x}", c as u32).unwrap();
            }
            c => out.push(c),
        }
    }
    out.push('"');
}

/// truncate a string for inclusion in evidence samples
pub fn clip(s: &str, max: usize) -> String {
    if s.len() <= max {
        s.to_string()
    } else {
        let mut end = max;
        while !s.is_char_boundary(end) {
            end -= 1;
        }
        format!("{}…[{} bytes total]", &s[..end], s.len())
    }
}

// ---------------------------------------------------------------------------------------------
// a tiny parser, sufficient to read replay files written by this harness

pub fn parse(text: &str) -> Result<Json, String> {
    let mut p = P {
        b: text.as_bytes(),
        i: 0,
    };
    p.ws();
    let v = p.value()?;
    p.ws();
    if p.i != p.b.len() {
        return Err(format!("trailing data at {}", p.i));
    }
    Ok(v)
}

struct P<'a> {
    b: &'a [u8],
    i: usize,
}

impl P<'_> {
    fn ws(&mut self) {
        while self.i < self.b.len() && self.b[self.i].is_ascii_whitespace() {
            self.i += 1;
        }
    }
    fn value(&mut self) -> Result<Json, String> {
        self.ws();
        if self.i >= self.b.len() {
            return Err("eof".into());
        }
        match self.b[self.i] {
            b'{' => {
                self.i += 1;
                let mut m = BTreeMap::new();
                loop {
                    self.ws();
                    if self.peek() == Some(b'}') {
                        self.i += 1;
                        break;
                    }
                    let k = match self.value()? {
                        Json::Str(s) => s,
                        _ => return Err("key".into()),
                    };
                    self.ws();
                    if self.peek() != Some(b':') {
                        return Err("colon".into());
                    }
                    self.i += 1;
                    let v = self.value()?;
                    m.insert(k, v);
                    self.ws();
                    match self.peek() {
                        Some(b',') => self.i += 1,
                        Some(b'}') => {
                            self.i += 1;
                            break;
                        }
                        _ => return Err("obj sep".into()),
                    }
                }
                Ok(Json::Obj(m))
            }
            b'[' => {
                self.i += 1;
                let mut a = Vec::new();
                loop {
                    self.ws();
                    if self.peek() == Some(b']') {
                        self.i += 1;
                        break;
                    }
                    a.push(self.value()?);
                    self.ws();
                    match self.peek() {
                        Some(b',') => self.i += 1,
                        Some(b']') => {
                            self.i += 1;
                            break;
                        }
                        _ => return Err("arr sep".into()),
                    }
                }
                Ok(Json::Arr(a))
            }
            b'"' => {
                self.i += 1;
                let mut out: Vec<u8> = Vec::new();
                loop {
                    if self.i >= self.b.len() {
                        return Err("unterminated string".into());
                    }
                    let c = self.b[self.i];
                    self.i += 1;
                    match c {
                        b'"' => break,
                        b'\\' => {
                            let e = self.b[self.i];
                            self.i += 1;
                            match e {
                                b'n' => out.push(b'\n'),
                                b'r' => out.push(b'\r'),
                                b't' => out.push(b'\t'),
                                b'b' => out.push(8),
                                b'f' => out.push(12),
                                b'u' => {
                                    let hex = std::str::from_utf8(&self.b[self.i..self.i + 4])
                                        .map_err(|e| e.to_string())?;
                                    let mut cp =
                                        u32::from_str_radix(hex, 16).map_err(|e| e.to_string())?;
                                    self.i += 4;
                                    if (0xD800..0xDC00).contains(&cp)
                                        && self.b.get(self.i) == Some(&b'\\')
                                        && self.b.get(self.i + 1) == Some(&b'u')
                                    {
                                        let hex2 =
                                            std::str::from_utf8(&self.b[self.i + 2..self.i + 6])
                                                .map_err(|e| e.to_string())?;
                                        let lo = u32::from_str_radix(hex2, 16)
                                            .map_err(|e| e.to_string())?;
                                        self.i += 6;
                                        cp = 0x10000 + ((cp - 0xD800) << 10) + (lo - 0xDC00);
                                    }
                                    let ch = char::from_u32(cp).unwrap_or('\u{fffd}');
                                    let mut buf = [0u8; 4];
                                    out.extend_from_slice(ch.encode_utf8(&mut buf).as_bytes());
                                }
                                other => out.push(other),
                            }
                        }
                        c => out.push(c),
                    }
                }
                Ok(Json::Str(String::from_utf8_lossy(&out).into_owned()))
            }
            b't' => {
                self.i += 4;
                Ok(Json::Bool(true))
            }
            b'f' => {
                self.i += 5;
                Ok(Json::Bool(false))
            }
            b'n' => {
                self.i += 4;
                Ok(Json::Null)
            }
            _ => {
                let st = self.i;
                while self.i < self.b.len()
                    && (self.b[self.i].is_ascii_digit()
                        || matches!(self.b[self.i], b'-' | b'+' | b'.' | b'e' | b'E'))
                {
                    self.i += 1;
                }
                let t = std::str::from_utf8(&self.b[st..self.i]).map_err(|e| e.to_string())?;
                if let Ok(u) = t.parse::<u64>() {
                    Ok(Json::UInt(u))
                } else if let Ok(i) = t.parse::<i64>() {
                    Ok(Json::Int(i))
                } else {
                    t.parse::<f64>().map(Json::Float).map_err(|e| e.to_string())
                }
            }
        }
    }
    fn peek(&self) -> Option<u8> {
        self.b.get(self.i).copied()
    }
}

impl Json {
    pub fn get(&self, key: &str) -> Option<&Json> {
        match self {
            Json::Obj(m) => m.get(key),
            _ => None,
        }
    }
    pub fn as_str(&self) -> Option<&str> {
        match self {
            Json::Str(s) => Some(s),
            _ => None,
        }
    }
    pub fn as_u64(&self) -> Option<u64> {
        match self {
            Json::UInt(u) => Some(*u),
            Json::Int(i) if *i >= 0 => Some(*i as u64),
            _ => None,
        }
    }
}
