//! G-hostile: inputs for the totality monitor (C03, C17, C20).

use crate::doc::{Doc, TK};
use crate::docgen::{DocGen, GenCfg};
use crate::grammar::Grammar;
use crate::layout::{render, LayoutCfg};
use crate::rng::Rng;

pub const SOUP_ALPHABET: &[&str] = &[
    "/begin", "/end", "/include", "A2ML", "IF_DATA", "\"", "/*", "*/", "//", "0", "1", "-1", "0x",
    "0xFF", "1e5", "1e999", "-", ".", "x", "abc", "PROJECT", "MODULE", "MEASUREMENT", "HEADER",
    "ASAP2_VERSION", "1 71", ";", "{", "}", "(", ")*", "\n", "\r\n", "\t", " ", "\"str\"", "\"\"",
    "\\", "'", "block", "struct", "taggedstruct", "taggedunion", "enum", "char[", "]", "\"TAG\"",
    "uint", "=", ",", "CHARACTERISTIC", "RECORD_LAYOUT", "FNC_VALUES", "COMPU_METHOD", "ROOT",
    "\u{feff}", "é", "\u{1F600}", "\0", "/", "*", "NO_COMPU_METHOD", "UBYTE", "VALUE", "A2ML_VERSION",
    "/end A2ML", "/begin A2ML", "/begin IF_DATA", "/end IF_DATA", "/end MODULE", "/end PROJECT",
];

pub const HOSTILE_A2ML: &[&str] = &[
    "\"",
    " \"",
    "block \"IF_DATA\" struct { char[\"",
    "/* unclosed",
    "//",
    "/include",
    "/include \"",
    "/include nonexistent_file.aml",
    "block \"IF_DATA\" struct { int[-1]; };",
    "block \"IF_DATA\" struct { int[2147483647]; };",
    "block \"IF_DATA\" struct { char[99999999999]; };",
    "block \"IF_DATA\" struct { int[0]; };",
    "block \"IF_DATA\" struct { int[0x7fffffff][0x7fffffff]; };",
    "block \"IF_DATA\" (taggedunion { \"A\" int; })*;",
    "block \"IF_DATA\" (taggedstruct { \"A\" int; })*;",
    "block \"IF_DATA\" (struct { taggedstruct { \"A\" int; }; })*;",
    "block \"IF_DATA\" (taggedstruct { (\"A\" int)*; })*;",
    "block \"IF_DATA\" taggedstruct { (\"A\" (taggedunion { \"B\" ; })* )*; };",
    "block \"IF_DATA\" taggedunion { \"A\" ; };",
    "block \"IF_DATA\" taggedunion { block \"A\" ; };",
    "block \"IF_DATA\" struct { };",
    "block \"IF_DATA\" enum { };",
    "block \"IF_DATA\" enum e;",
    "block \"IF_DATA\" struct s;",
    "struct s { int; }; block \"IF_DATA\" struct s;",
    "struct s { struct s; }; block \"IF_DATA\" struct s;",
    "enum e { \"A\" = 99999999999 }; block \"IF_DATA\" enum e;",
    "enum e { \"A\" = 0x }; block \"IF_DATA\" enum e;",
    "block \"IF_DATA\" int",
    "block \"IF_DATA\"",
    "block",
    "block \"IF_DATA\" int;;",
    "block \"IF_DATA\" taggedstruct { (block \"X\" struct { int; })*; };",
    "block \"IF_DATA\" taggedstruct { \"X\" char[10]; \"X\" int; };",
    "block \"IF_DATA\" float[3][3];",
    "\u{feff}block \"IF_DATA\" int;",
    "block \"IF_DATA\" int; é",
    "block \"IF_DATA\" int; 9999999999999999999999",
    "block \"NOT_IF_DATA\" int;",
    "int; long; char; block \"IF_DATA\" uint64;",
];

pub fn nested_a2ml(depth: usize, kind: usize) -> String {
    let mut s = String::from("block \"IF_DATA\" ");
    match kind % 3 {
        0 => {
            for _ in 0..depth {
                s.push_str("struct { ");
            }
            s.push_str("int; ");
            for _ in 0..depth {
                s.push_str("}; ");
            }
        }
        1 => {
            for _ in 0..depth {
                s.push_str("taggedstruct { \"T\" ");
            }
            s.push_str("int; ");
            for _ in 0..depth {
                s.push_str("}; ");
            }
        }
        _ => {
            s.push_str("int");
            for _ in 0..depth {
                s.push_str("[1]");
            }
            s.push(';');
        }
    }
    s
}

/// `struct S0 { int; }; struct S1 { struct S0; (x refs) }; ... block "IF_DATA" struct S<n>;`: the text of every
/// definition is flat, the resolved type is n levels deep and, with refs >= 2, has refs^n elements
pub fn named_chain_a2ml(n: usize, refs: usize) -> String {
    let mut s = String::from("struct S0 { int; }; ");
    for i in 1..=n {
        s.push_str(&format!("struct S{i} {{ "));
        for _ in 0..refs {
            s.push_str(&format!("struct S{}; ", i - 1));
        }
        s.push_str("}; ");
    }
    s.push_str(&format!("block \"IF_DATA\" struct S{n};"));
    s
}

/// nested anonymous structs, the member of each with `dims` array dimensions `[1]`
pub fn structs_times_dims_a2ml(structs: usize, dims: usize) -> String {
    let mut s = String::from("block \"IF_DATA\" ");
    for _ in 0..structs {
        s.push_str("struct { ");
    }
    s.push_str("int");
    for _ in 0..structs {
        for _ in 0..dims {
            s.push_str("[1]");
        }
        s.push_str("; }");
    }
    s.push(';');
    s
}

pub fn wrap_module(body: &str) -> String {
    format!("ASAP2_VERSION 1 71\n/begin PROJECT p \"\"\n/begin MODULE m \"\"\n{body}\n/end MODULE\n/end PROJECT\n")
}

pub fn nested_ifdata(depth: usize) -> String {
    let mut s = String::from("/begin IF_DATA X\n");
    for _ in 0..depth {
        s.push_str("/begin B ");
    }
    s.push('\n');
    for _ in 0..depth {
        s.push_str("/end B ");
    }
    s.push_str("\n/end IF_DATA");
    wrap_module(&s)
}

pub fn nested_unknown(depth: usize) -> String {
    let mut s = String::new();
    for _ in 0..depth {
        s.push_str("/begin UNKNOWN_X 1 ");
    }
    s.push('\n');
    for _ in 0..depth {
        s.push_str("/end UNKNOWN_X ");
    }
    wrap_module(&s)
}

pub struct Seeds {
    pub docs: Vec<(Doc, String)>,
}

impl Seeds {
    /// a small corpus of valid documents (rendered), regenerated per worker
    pub fn build(g: &Grammar, rng: &mut Rng, n: usize) -> Seeds {
        let mut docs = Vec::new();
        for i in 0..n {
            let mut cfg = GenCfg::default();
            cfg.max_elems = if i % 3 == 0 { 25 } else { 120 };
            cfg.comments_pct = 8;
            cfg.multiline_comments = true;
            let mut gen = DocGen::new(g, cfg);
            let doc = gen.gen_doc(rng);
            let flat = doc.flatten();
            let lc = LayoutCfg::wide(rng);
            let r = render(&flat, &lc, rng);
            docs.push((doc, r.text));
        }
        Seeds { docs }
    }
}

#[derive(Clone, Debug)]
pub struct Hostile {
    pub kind: &'static str,
    pub bytes: Vec<u8>,
}

fn cut_char_boundary(s: &str, mut at: usize) -> usize {
    at = at.min(s.len());
    while !s.is_char_boundary(at) {
        at -= 1;
    }
    at
}

pub fn gen_hostile(g: &Grammar, seeds: &Seeds, rng: &mut Rng) -> Hostile {
    let (doc, text) = rng.pick(&seeds.docs);
    match rng.below(17) {
        16 => {
            // an A2ML block (raw text token) where a string / identifier / number is expected
            let raw = if rng.coin() {
                rng.pick(HOSTILE_A2ML).to_string()
            } else {
                rng.pick(&["\"", "\"\"", "\"x", "x\"", "'", "\\", "0", ""]).to_string()
            };
            let sep = *rng.pick(&["", " ", "\n"]);
            let blk = format!("/begin A2ML{sep}{raw}{sep}/end A2ML");
            let body = match rng.below(5) {
                0 => format!("/begin IF_DATA x {blk} /end IF_DATA"),
                1 => format!("/begin MEASUREMENT m {blk} UBYTE NO_COMPU_METHOD 0 0 0 255 /end MEASUREMENT"),
                2 => format!("/begin MOD_PAR {blk} /end MOD_PAR"),
                3 => format!("{blk} {blk}"),
                _ => format!("/begin GROUP g \"\" /begin ANNOTATION ANNOTATION_LABEL {blk} /end ANNOTATION /end GROUP"),
            };
            Hostile {
                kind: "a2ml_in_odd_place",
                bytes: wrap_module(&body).into_bytes(),
            }
        }
        0 => {
            let n = rng.urange(0, 300);
            let bytes: Vec<u8> = (0..n).map(|_| rng.next_u64() as u8).collect();
            Hostile {
                kind: "random_bytes",
                bytes,
            }
        }
        1 => {
            // random printable / unicode
            let n = rng.urange(0, 200);
            let mut s = String::new();
            for _ in 0..n {
                match rng.below(8) {
                    0 => s.push(char::from_u32(rng.below(0x2000) as u32).unwrap_or('x')),
                    1 => s.push('\n'),
                    2 => s.push(' '),
                    3 => s.push('"'),
                    4 => s.push('/'),
                    _ => s.push((0x20 + rng.below(0x5f) as u8) as char),
                }
            }
            Hostile {
                kind: "random_text",
                bytes: s.into_bytes(),
            }
        }
        2..=5 => {
            // truncation at an arbitrary byte (raw bytes: may cut a UTF-8 sequence)
            let at = rng.below(text.len() + 1);
            Hostile {
                kind: "truncation",
                bytes: text.as_bytes()[..at].to_vec(),
            }
        }
        6..=8 => {
            // token-level deletion / duplication / swap, re-rendered
            let mut flat = doc.flatten();
            let n = flat.toks.len();
            let k = rng.urange(1, 3);
            for _ in 0..k {
                let n2 = flat.toks.len();
                if n2 < 2 {
                    break;
                }
                let i = rng.below(n2);
                match rng.below(3) {
                    0 => {
                        flat.toks.remove(i);
                    }
                    1 => {
                        let t = flat.toks[i].clone();
                        flat.toks.insert(i, t);
                    }
                    _ => {
                        let j = rng.below(n2);
                        flat.toks.swap(i, j);
                    }
                }
            }
            let _ = n;
            // A2ML raw text needs its own leading whitespace
            for t in &mut flat.toks {
                if t.tok.kind == TK::A2ml && !t.tok.text.starts_with(|c: char| c.is_whitespace()) {
                    t.tok.text.insert(0, ' ');
                }
            }
            let lc = LayoutCfg::wide(rng);
            let r = render(&flat, &lc, rng);
            Hostile {
                kind: "token_edit",
                bytes: r.text.into_bytes(),
            }
        }
        9 | 10 => {
            let n = rng.urange(1, 80);
            let mut s = String::new();
            if rng.coin() {
                s.push_str("ASAP2_VERSION 1 71 /begin PROJECT p \"\" /begin MODULE m \"\" ");
            }
            for _ in 0..n {
                s.push_str(*rng.pick(SOUP_ALPHABET));
                if rng.chance(4, 5) {
                    s.push(' ');
                }
            }
            Hostile {
                kind: "token_soup",
                bytes: s.into_bytes(),
            }
        }
        11 => {
            // byte-level mutation of a valid document
            let mut b = text.as_bytes().to_vec();
            let k = rng.urange(1, 4);
            for _ in 0..k {
                if b.is_empty() {
                    break;
                }
                let i = rng.below(b.len());
                match rng.below(4) {
                    0 => b[i] = rng.next_u64() as u8,
                    1 => {
                        b.remove(i);
                    }
                    2 => b.insert(i, *rng.pick(b"\"/*\\\n\r x0-.")),
                    _ => {
                        let j = rng.below(b.len());
                        b.swap(i, j);
                    }
                }
            }
            Hostile {
                kind: "byte_mutation",
                bytes: b,
            }
        }
        12 | 13 => {
            // hostile A2ML inside an otherwise valid file, with IF_DATA that does / does not match
            let a2ml = if rng.chance(1, 6) {
                // a scalar member with one to four array dimensions out of a pool of small, large
                // and extreme constants (the element count is the product of all of them)
                let mut m = String::from(*rng.pick(&["int", "uchar", "float", "ulong", "char"]));
                for _ in 0..rng.urange(1, 4) {
                    let d = *rng.pick(&["1", "2", "3", "16", "1024", "0x400", "65536", "1048576", "0x100000", "4194304", "2147483647", "0x7fffffff", "0", "46341"]);
                    m.push_str(&format!("[{d}]"));
                }
                if rng.coin() {
                    format!("block \"IF_DATA\" struct {{ {m}; }};")
                } else {
                    format!("block \"IF_DATA\" taggedstruct {{ \"A\" {m}; \"X\" struct {{ {m}; }}; }};")
                }
            } else if rng.chance(1, 8) {
                match rng.below(3) {
                    0 => named_chain_a2ml(rng.urange(1, 300), 1),
                    1 => named_chain_a2ml(rng.urange(1, 40), rng.urange(2, 3)),
                    _ => structs_times_dims_a2ml(rng.urange(1, 40), rng.urange(1, 40)),
                }
            } else if rng.chance(2, 3) {
                rng.pick(HOSTILE_A2ML).to_string()
            } else {
                nested_a2ml(rng.urange(1, 64), rng.below(3))
            };
            let ifd = match rng.below(5) {
                0 => "/begin IF_DATA A 1 /end IF_DATA",
                1 => "/begin IF_DATA X 1 2 3 \"s\" /end IF_DATA",
                2 => "/begin IF_DATA /end IF_DATA",
                3 => "/begin IF_DATA 1 /end IF_DATA",
                _ => "/begin IF_DATA /begin X 5 /end X /begin X 6 /end X /end IF_DATA",
            };
            let sep = if rng.coin() { "\n" } else { " " };
            let body = format!("/begin A2ML{sep}{a2ml}{sep}/end A2ML\n{ifd}");
            Hostile {
                kind: "hostile_a2ml",
                bytes: wrap_module(&body).into_bytes(),
            }
        }
        14 => {
            // truncation at a char boundary inside the A2ML block or a string
            let pos = text.find("A2ML").unwrap_or(0);
            let at = cut_char_boundary(text, pos + rng.below(60));
            Hostile {
                kind: "truncation_in_a2ml",
                bytes: text.as_bytes()[..at].to_vec(),
            }
        }
        _ => {
            // nesting up to 64
            let d = rng.urange(1, 64);
            let s = match rng.below(3) {
                0 => nested_ifdata(d),
                1 => nested_unknown(d),
                _ => wrap_module(&format!(
                    "/begin A2ML {} /end A2ML /begin IF_DATA 1 /end IF_DATA",
                    nested_a2ml(d, rng.below(3))
                )),
            };
            Hostile {
                kind: "nesting",
                bytes: s.into_bytes(),
            }
        }
    }
}

/// body of a module (for load_fragment) derived from a hostile input
pub fn as_fragment(g: &Grammar, rng: &mut Rng, seeds: &Seeds) -> Hostile {
    let h = gen_hostile(g, seeds, rng);
    h
}
