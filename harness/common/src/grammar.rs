//! Parser for the frozen reference grammar (`ref/a2l_grammar.dsl`), a verbatim copy of the
//! `a2l_specification!` DSL. This is the oracle's view of A2L 1.7.1: it never looks at the
//! generated code in `/repo`.

use std::collections::HashMap;

pub type Ver = u16; // 150, 151, 160, 161, 170, 171
pub const VERSIONS: [Ver; 6] = [150, 151, 160, 161, 170, 171];

#[derive(Clone, Debug, PartialEq)]
pub enum PType {
    Ident,
    Str,
    Int { bits: u8, signed: bool },
    Float,
    Enum(String),
}

#[derive(Clone, Debug)]
pub struct Field {
    pub ty: PType,
    pub name: String,
}

#[derive(Clone, Debug)]
pub enum Item {
    Single(Field),
    Array(Field, usize),
    /// `{ a b }* name`
    Seq(Vec<Field>, String),
}

#[derive(Clone, Debug)]
pub struct OptRef {
    pub tag: String,
    pub repeat: bool,
    pub required: bool,
    pub vmin: Option<Ver>,
    pub vmax: Option<Ver>,
    /// rust field name in the parent struct
    pub varname: String,
}

#[derive(Clone, Debug)]
pub struct Element {
    pub tags: Vec<String>,
    pub is_block: bool,
    pub params: Vec<Item>,
    pub opts: Vec<OptRef>,
    pub typename: String,
}

#[derive(Clone, Debug)]
pub struct EnumItem {
    pub name: String,
    pub vmin: Option<Ver>,
    pub vmax: Option<Ver>,
}

#[derive(Clone, Debug)]
pub struct EnumDef {
    pub name: String,
    pub items: Vec<EnumItem>,
}

#[derive(Clone, Debug)]
pub struct Grammar {
    pub elements: Vec<Element>,
    pub by_tag: HashMap<String, usize>,
    pub enums: HashMap<String, EnumDef>,
    pub enum_order: Vec<String>,
}

#[derive(Debug, Clone, PartialEq)]
enum T {
    Id(String),
    Num(String),
    P(char),
}

fn lex(text: &str) -> Vec<T> {
    let b = text.as_bytes();
    let mut i = 0;
    let mut out = Vec::new();
    while i < b.len() {
        let c = b[i];
        if c.is_ascii_whitespace() {
            i += 1;
        } else if c == b'/' && i + 1 < b.len() && b[i + 1] == b'/' {
            while i < b.len() && b[i] != b'\n' {
                i += 1;
            }
        } else if c.is_ascii_alphabetic() || c == b'_' {
            let st = i;
            while i < b.len() && (b[i].is_ascii_alphanumeric() || b[i] == b'_') {
                i += 1;
            }
            out.push(T::Id(text[st..i].to_string()));
        } else if c.is_ascii_digit() {
            let st = i;
            while i < b.len() && b[i].is_ascii_digit() {
                i += 1;
            }
            if i + 1 < b.len() && b[i] == b'.' && b[i + 1].is_ascii_digit() {
                i += 1;
                while i < b.len() && b[i].is_ascii_digit() {
                    i += 1;
                }
            }
            out.push(T::Num(text[st..i].to_string()));
        } else {
            out.push(T::P(c as char));
            i += 1;
        }
    }
    out
}

struct Cur {
    t: Vec<T>,
    i: usize,
}

impl Cur {
    fn peek(&self) -> Option<&T> {
        self.t.get(self.i)
    }
    fn next(&mut self) -> T {
        let v = self.t[self.i].clone();
        self.i += 1;
        v
    }
    fn ident(&mut self) -> String {
        match self.next() {
            T::Id(s) => s,
            o => panic!("grammar: expected ident, got {o:?} at {}", self.i),
        }
    }
    fn punct(&mut self, c: char) {
        match self.next() {
            T::P(p) if p == c => {}
            o => panic!("grammar: expected '{c}', got {o:?} at {}", self.i),
        }
    }
    fn is_punct(&self, c: char) -> bool {
        matches!(self.peek(), Some(T::P(p)) if *p == c)
    }
}

fn parse_ver(s: &str) -> Ver {
    // "1.60" -> 160
    let (a, b) = s.split_once('.').expect("version literal");
    let b2 = if b.len() == 1 {
        format!("{b}0")
    } else {
        b.to_string()
    };
    a.parse::<u16>().unwrap() * 100 + b2.parse::<u16>().unwrap()
}

fn opt_version_range(c: &mut Cur) -> (Option<Ver>, Option<Ver>) {
    if c.is_punct('(') {
        c.next();
        let mut lo = None;
        let mut hi = None;
        if let Some(T::Num(n)) = c.peek() {
            lo = Some(parse_ver(n));
            c.next();
        }
        c.punct('.');
        c.punct('.');
        if let Some(T::Num(n)) = c.peek() {
            hi = Some(parse_ver(n));
            c.next();
        }
        c.punct(')');
        (lo, hi)
    } else {
        (None, None)
    }
}

fn blocknames(c: &mut Cur) -> Vec<String> {
    let first = c.ident();
    let mut suffixes = Vec::new();
    while c.is_punct('/') {
        c.next();
        suffixes.push(c.ident());
    }
    let mut names = vec![first.clone()];
    if !suffixes.is_empty() {
        let sl = suffixes[0].len();
        let base = &first[..first.len() - sl];
        for s in &suffixes {
            names.push(format!("{base}{s}"));
        }
    }
    names
}

pub fn ucname_to_typename(name: &str) -> String {
    let mut out = String::new();
    let mut cap = true;
    for ch in name.chars() {
        if ch == '_' {
            cap = true;
            continue;
        }
        if cap {
            out.push(ch);
        } else {
            out.push(ch.to_ascii_lowercase());
        }
        cap = false;
    }
    out
}

const RUST_KW: [&str; 51] = [
    "abstract", "as", "async", "await", "become", "box", "break", "const", "continue", "crate",
    "do", "dyn", "else", "enum", "extern", "false", "final", "fn", "for", "if", "impl", "in",
    "let", "loop", "macro", "match", "mod", "move", "mut", "override", "priv", "pub", "ref",
    "return", "Self", "self", "static", "struct", "super", "trait", "true", "try", "type",
    "typeof", "unsafe", "unsized", "use", "virtual", "where", "while", "yield",
];

pub fn make_varname(tag: &str) -> String {
    let lc = tag.to_ascii_lowercase();
    if RUST_KW.contains(&lc.as_str()) {
        format!("var_{lc}")
    } else {
        lc
    }
}

fn typename_from_names(names: &[String]) -> String {
    if names.len() == 1 {
        ucname_to_typename(&names[0])
    } else {
        let mut s = names[0].clone();
        s.pop();
        s.push_str("DIM");
        ucname_to_typename(&s)
    }
}

fn ptype(name: &str) -> PType {
    match name {
        "char" => PType::Int {
            bits: 8,
            signed: true,
        },
        "int" => PType::Int {
            bits: 16,
            signed: true,
        },
        "long" => PType::Int {
            bits: 32,
            signed: true,
        },
        "int64" => PType::Int {
            bits: 64,
            signed: true,
        },
        "uchar" => PType::Int {
            bits: 8,
            signed: false,
        },
        "uint" => PType::Int {
            bits: 16,
            signed: false,
        },
        "ulong" => PType::Int {
            bits: 32,
            signed: false,
        },
        "uint64" => PType::Int {
            bits: 64,
            signed: false,
        },
        "float" | "double" => PType::Float,
        "ident" => PType::Ident,
        "string" => PType::Str,
        other => PType::Enum(other.to_string()),
    }
}

fn field(c: &mut Cur) -> (Field, Option<usize>) {
    let ty = ptype(&c.ident());
    let mut dim = None;
    if c.is_punct('[') {
        c.next();
        match c.next() {
            T::Num(n) => dim = Some(n.parse().unwrap()),
            o => panic!("grammar: array dim {o:?}"),
        }
        c.punct(']');
    }
    let name = c.ident();
    (Field { ty, name }, dim)
}

impl Grammar {
    pub fn parse(text: &str) -> Grammar {
        let mut c = Cur {
            t: lex(text),
            i: 0,
        };
        let mut elements = Vec::new();
        let mut enums = HashMap::new();
        let mut enum_order = Vec::new();
        while c.peek().is_some() {
            let kw = c.ident();
            match kw.as_str() {
                "enum" => {
                    let name = c.ident();
                    c.punct('{');
                    let mut items = Vec::new();
                    while !c.is_punct('}') {
                        let iname = c.ident();
                        let (vmin, vmax) = opt_version_range(&mut c);
                        items.push(EnumItem {
                            name: iname,
                            vmin,
                            vmax,
                        });
                        if c.is_punct(',') {
                            c.next();
                        }
                    }
                    c.punct('}');
                    enum_order.push(name.clone());
                    enums.insert(name.clone(), EnumDef { name, items });
                }
                "block" | "keyword" => {
                    let tags = blocknames(&mut c);
                    let typename = typename_from_names(&tags);
                    c.punct('{');
                    let mut params = Vec::new();
                    let mut opts = Vec::new();
                    while !c.is_punct('}') {
                        if c.is_punct('{') {
                            c.next();
                            let mut fields = Vec::new();
                            while !c.is_punct('}') {
                                let (f, dim) = field(&mut c);
                                assert!(dim.is_none());
                                fields.push(f);
                            }
                            c.punct('}');
                            c.punct('*');
                            let name = c.ident();
                            params.push(Item::Seq(fields, name));
                        } else if c.is_punct('[') {
                            c.next();
                            c.punct('-');
                            c.punct('>');
                            let names = blocknames(&mut c);
                            c.punct(']');
                            let mut repeat = false;
                            let mut required = false;
                            if c.is_punct('!') {
                                c.next();
                                required = true;
                            } else if c.is_punct('+') {
                                c.next();
                                required = true;
                                repeat = true;
                            } else if c.is_punct('*') {
                                c.next();
                                repeat = true;
                            }
                            let (vmin, vmax) = opt_version_range(&mut c);
                            for n in names {
                                opts.push(OptRef {
                                    varname: make_varname(&n),
                                    tag: n,
                                    repeat,
                                    required,
                                    vmin,
                                    vmax,
                                });
                            }
                        } else {
                            let (f, dim) = field(&mut c);
                            match dim {
                                Some(n) => params.push(Item::Array(f, n)),
                                None => params.push(Item::Single(f)),
                            }
                        }
                    }
                    c.punct('}');
                    elements.push(Element {
                        tags,
                        is_block: kw == "block",
                        params,
                        opts,
                        typename,
                    });
                }
                other => panic!("grammar: unexpected '{other}'"),
            }
        }
        let mut by_tag = HashMap::new();
        for (i, e) in elements.iter().enumerate() {
            for t in &e.tags {
                by_tag.insert(t.clone(), i);
            }
        }
        Grammar {
            elements,
            by_tag,
            enums,
            enum_order,
        }
    }

    pub fn load_default() -> Grammar {
        let path = concat!(env!("CARGO_MANIFEST_DIR"), "/../../ref/a2l_grammar.dsl");
        let text = std::fs::read_to_string(path)
            .unwrap_or_else(|e| panic!("cannot read frozen grammar {path}: {e}"));
        Grammar::parse(&text)
    }

    pub fn elem(&self, tag: &str) -> &Element {
        &self.elements[self.by_tag[tag]]
    }

    pub fn is_tag(&self, word: &str) -> bool {
        self.by_tag.contains_key(word)
    }

    /// all tags (every family member counted)
    pub fn all_tags(&self) -> Vec<String> {
        let mut v: Vec<String> = self.by_tag.keys().cloned().collect();
        v.sort();
        v
    }

    /// does the element (by tag) end in an open-ended list parameter (sequence as last parameter)?
    pub fn ends_in_list(&self, tag: &str) -> bool {
        matches!(self.elem(tag).params.last(), Some(Item::Seq(..)))
    }
}

/// the RECORD_LAYOUT children that are ordered by their `position` parameter on output
pub fn is_position_restricted_tag(g: &Grammar, tag: &str) -> bool {
    if !g.is_tag(tag) {
        return false;
    }
    let e = g.elem(tag);
    let in_record_layout = g.elem("RECORD_LAYOUT").opts.iter().any(|o| o.tag == tag);
    in_record_layout
        && matches!(e.params.first(), Some(Item::Single(Field { name, .. })) if name == "position")
}

pub fn in_range(ver: Ver, vmin: Option<Ver>, vmax: Option<Ver>) -> bool {
    vmin.map_or(true, |m| ver >= m) && vmax.map_or(true, |m| ver <= m)
}
