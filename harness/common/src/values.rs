//! Value pools: identifiers, strings, integers and floats with nasty but legal spellings.

use crate::doc::{Tok, TK};
use crate::grammar::Grammar;
use crate::rng::Rng;

#[derive(Clone, Debug)]
pub struct ValCfg {
    /// allow non-ASCII characters in strings
    pub unicode: bool,
    /// allow raw line breaks / raw tabs inside strings
    pub raw_breaks_in_strings: bool,
    /// allow hex spelling for integers / floats
    pub hex: bool,
    /// allow extreme values (field min/max, huge floats, long identifiers)
    pub extremes: bool,
    /// use `""` as an alternative escape of `"`
    pub alt_quote_escape: bool,
}

impl Default for ValCfg {
    fn default() -> Self {
        ValCfg {
            unicode: true,
            raw_breaks_in_strings: false,
            hex: true,
            extremes: true,
            alt_quote_escape: true,
        }
    }
}

const ID_START: &[u8] = b"abcdefghijklmnopqrstuvwxyzABCDEFGHIJKLMNOPQRSTUVWXYZ_";
const ID_REST: &[u8] = b"abcdefghijklmnopqrstuvwxyzABCDEFGHIJKLMNOPQRSTUVWXYZ_0123456789";

pub fn gen_ident_text(rng: &mut Rng, g: &Grammar, cfg: &ValCfg) -> String {
    loop {
        let len = if cfg.extremes && rng.chance(1, 300) {
            rng.urange(900, 1024)
        } else if rng.chance(1, 10) {
            rng.urange(20, 60)
        } else {
            rng.urange(1, 12)
        };
        let mut s = String::with_capacity(len);
        s.push(*rng.pick(ID_START) as char);
        while s.len() < len {
            let r = rng.below(40);
            if r == 0 && s.len() + 3 <= len {
                // array index
                s.push('[');
                s.push((b'0' + rng.below(10) as u8) as char);
                s.push(']');
            } else if r == 1 && s.len() + 2 <= len {
                s.push('.');
                s.push(*rng.pick(ID_START) as char);
            } else {
                s.push(*rng.pick(ID_REST) as char);
            }
        }
        // never a grammar tag, never one of the conventional names with a meaning
        if g.is_tag(&s) {
            continue;
        }
        return s;
    }
}

pub fn ident_tok(rng: &mut Rng, g: &Grammar, cfg: &ValCfg) -> Tok {
    Tok::word(TK::Ident, &gen_ident_text(rng, g, cfg))
}

const UNI_POOL: &[&str] = &[
    "é", "ß", "Ω", "ж", "日", "本", "語", "€", "°", "µ", "ä", "Ö", "ñ", "\u{1F600}", "\u{1F680}",
    "\u{10348}", "a\u{0301}", "e\u{0308}", "\u{200B}", "\u{FEFF}", "\u{00A0}", "\u{2028}",
];

pub fn gen_string_value(rng: &mut Rng, cfg: &ValCfg) -> String {
    let len = match rng.below(20) {
        0 => 0,
        1 if cfg.extremes => rng.urange(100, 400),
        2..=5 => rng.urange(10, 40),
        _ => rng.urange(1, 10),
    };
    let mut s = String::new();
    for _ in 0..len {
        match rng.below(30) {
            0 => s.push('"'),
            1 => s.push('\''),
            2 => s.push('\\'),
            3 => s.push('\n'),
            4 => s.push('\t'),
            5 => s.push('\r'),
            6 | 7 if cfg.unicode => s.push_str(*rng.pick(UNI_POOL)),
            8 => s.push(' '),
            9 => s.push_str("/*"),
            10 => s.push_str("*/"),
            11 => s.push_str("//"),
            12 => s.push_str("/begin"),
            13 => s.push_str("/end"),
            _ => s.push((0x20 + rng.below(0x5f) as u8) as char),
        }
    }
    s
}

/// spell a decoded string as an A2L string literal using only the escapes of the standard
pub fn spell_string(rng: &mut Rng, decoded: &str, cfg: &ValCfg) -> String {
    let mut out = String::with_capacity(decoded.len() + 2);
    out.push('"');
    for c in decoded.chars() {
        match c {
            '"' => {
                if cfg.alt_quote_escape && rng.coin() {
                    out.push_str("\"\"");
                } else {
                    out.push_str("\\\"");
                }
            }
            '\\' => out.push_str("\\\\"),
            '\'' => {
                if rng.coin() {
                    out.push_str("\\'");
                } else {
                    out.push('\'');
                }
            }
            '\n' => {
                if cfg.raw_breaks_in_strings && rng.coin() {
                    out.push('\n');
                } else {
                    out.push_str("\\n");
                }
            }
            '\t' => {
                if cfg.raw_breaks_in_strings && rng.coin() {
                    out.push('\t');
                } else {
                    out.push_str("\\t");
                }
            }
            '\r' => out.push_str("\\r"),
            c => out.push(c),
        }
    }
    out.push('"');
    out
}

pub fn string_tok(rng: &mut Rng, cfg: &ValCfg) -> Tok {
    let v = gen_string_value(rng, cfg);
    let sp = spell_string(rng, &v, cfg);
    Tok::string(&v, sp)
}

pub fn string_tok_of(rng: &mut Rng, v: &str, cfg: &ValCfg) -> Tok {
    let sp = spell_string(rng, v, cfg);
    Tok::string(v, sp)
}

pub fn int_bounds(bits: u8, signed: bool) -> (i128, i128) {
    if signed {
        (-(1i128 << (bits - 1)), (1i128 << (bits - 1)) - 1)
    } else {
        (0, (1i128 << bits) - 1)
    }
}

pub fn spell_int(rng: &mut Rng, v: i128, cfg: &ValCfg) -> String {
    if v >= 0 && cfg.hex && rng.chance(1, 3) {
        let digits = if rng.coin() {
            format!("{v:X}")
        } else {
            format!("{v:x}")
        };
        let prefix = if rng.chance(1, 6) { "0X" } else { "0x" };
        let zeros = if rng.chance(1, 8) { "00" } else { "" };
        format!("{prefix}{zeros}{digits}")
    } else if v >= 0 && rng.chance(1, 40) {
        format!("+{v}")
    } else if rng.chance(1, 40) && v >= 0 {
        format!("0{v}")
    } else {
        format!("{v}")
    }
}

pub fn gen_int_value(rng: &mut Rng, bits: u8, signed: bool, cfg: &ValCfg) -> i128 {
    let (lo, hi) = int_bounds(bits, signed);
    if cfg.extremes {
        match rng.below(12) {
            0 => return lo,
            1 => return hi,
            2 => return hi - 1,
            3 => return 0,
            4 => return 1,
            5 if signed => return -1,
            6 if signed => return lo + 1,
            _ => {}
        }
    }
    if rng.coin() {
        // small
        let small_hi = hi.min(300);
        let small_lo = lo.max(-300);
        small_lo + (rng.next_u64() as i128).rem_euclid(small_hi - small_lo + 1)
    } else {
        let span = (hi - lo + 1) as u128;
        let r = ((u128::from(rng.next_u64()) << 64) | u128::from(rng.next_u64())) % span;
        lo + r as i128
    }
}

pub fn int_tok(rng: &mut Rng, bits: u8, signed: bool, cfg: &ValCfg) -> Tok {
    let v = gen_int_value(rng, bits, signed, cfg);
    if signed && v < 0 && cfg.hex && rng.chance(1, 3) {
        // negative value of a signed field in hexadecimal notation: the two's complement bit pattern
        // (the token value is the pattern, which is also what the writer produces)
        let pattern = (1i128 << bits) + v;
        return Tok::int(pattern, format!("0x{pattern:X}"));
    }
    Tok::int(v, spell_int(rng, v, cfg))
}

/// float value with a spelling whose f64 value is exactly `v`
pub fn float_tok(rng: &mut Rng, cfg: &ValCfg) -> Tok {
    let choice = rng.below(16);
    let (v, text): (f64, String) = match choice {
        0 => (0.0, "0".into()),
        1 => (0.0, "0.0".into()),
        2 => {
            let i = rng.range(-100_000, 100_000);
            (i as f64, format!("{i}"))
        }
        3 => {
            let i = rng.range(-1000, 1000);
            let d = rng.below(1000);
            let t = format!("{i}.{d:03}");
            (t.parse().unwrap(), t)
        }
        4 => {
            let m = rng.range(-9999, 9999);
            let e = rng.range(-30, 30);
            let t = if rng.coin() {
                format!("{m}e{e}")
            } else {
                format!("{m}E{e:+}")
            };
            (t.parse().unwrap(), t)
        }
        5 if cfg.hex => {
            let i = rng.below(1 << 20) as u64;
            (i as f64, format!("0x{i:X}"))
        }
        6 if cfg.extremes => {
            let t = match rng.below(6) {
                0 => "1.7976931348623157e308".to_string(),
                1 => "-1.7976931348623157e308".to_string(),
                2 => "5e-324".to_string(),
                3 => "2.2250738585072014e-308".to_string(),
                4 => "-0.0".to_string(),
                _ => "123456789012345678901234567890".to_string(),
            };
            (t.parse().unwrap(), t)
        }
        7 => {
            // arbitrary bit pattern, finite
            let mut v;
            loop {
                v = f64::from_bits(rng.next_u64());
                if v.is_finite() {
                    break;
                }
            }
            (v, format!("{v:?}"))
        }
        8 => {
            let d = rng.below(100);
            let t = format!(".{d:02}");
            (t.parse().unwrap(), t)
        }
        9 => {
            let i = rng.range(0, 1000);
            let t = format!("{i}.");
            (t.parse().unwrap(), t)
        }
        _ => {
            let v = (rng.f64_unit() - 0.5) * 10f64.powi(rng.range(-3, 6) as i32);
            let t = format!("{v}");
            (t.parse().unwrap(), t)
        }
    };
    Tok::float(v, text)
}
