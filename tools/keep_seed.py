#!/usr/bin/env python3
"""keep_seed.py <worktree> <PROP> <variant> <needs> <caught-by> -- store a confirmed seeded change under /verif/seeded/"""
import json, os, shutil, sys
wt, prop, var, needs, caught = sys.argv[1:6]
extra = sys.argv[6] if len(sys.argv) > 6 else ""
d = "/verif/seeded/%s%s" % (prop, var)
os.makedirs(d, exist_ok=True)
shutil.copy(os.path.join(wt, "_seed", var + ".diff"), os.path.join(d, "patch.diff"))
demo = "seed_%s_%s.rs" % (prop.lower(), var)
for cand in [os.path.join(wt, "_seed", demo)]:
    if os.path.exists(cand):
        shutil.copy(cand, os.path.join(d, demo))
readme = os.path.join(wt, "_seed", "README.md")
if os.path.exists(readme):
    shutil.copy(readme, os.path.join(d, "README.agent.md"))
meta = {
    "property": prop,
    "variant": var,
    "breaks": prop,
    "needs_to_manifest": needs,
    "confirmed": "tools/verify_seed.sh: with the change `cargo test --workspace --offline` passes and the demonstration fails; without the change the demonstration passes",
    "ran": "tools/try_seed.sh patch.diff %s (git -C /repo apply; python3 vcheck.py %s --tier quick; git -C /repo checkout -- .)" % (prop, prop),
    "detected_by": caught,
}
if extra:
    meta["note"] = extra
json.dump(meta, open(os.path.join(d, "meta.json"), "w"), indent=1)
print("kept", d)
