#!/bin/bash
# Re-run the quick check of the owning property against every kept seeded change, in a scratch
# worktree of /repo and a scratch copy of the harness (neither /repo nor /verif/evidence is touched).
# usage: tools/regress_seeds.sh [seed-dir-name ...]      (default: all of /verif/seeded)
# writes tools/regress_seeds_results.txt (one line per seed: caught / MISSED / patch does not apply);
# several instances can run side by side with different VERIF_SCRATCH and REGRESS_OUT; SEED_DIR points
# at another directory of <PROPERTY><suffix>/patch.diff entries (used for the reverse patches of the fixes)
set -u
SCR=${VERIF_SCRATCH:-/tmp/verif_regress}
OUT=${REGRESS_OUT:-/verif/tools/regress_seeds_results.txt}
rm -rf "$SCR"; mkdir -p "$SCR"
git -C /repo worktree prune
git -C /repo worktree add -q --detach "$SCR/repo" HEAD || exit 9
mkdir -p "$SCR/harness"
cp -r /verif/ref "$SCR/ref"   # the frozen grammar is found relative to the harness
rsync -a --exclude target --exclude Cargo.lock /verif/harness/ "$SCR/harness/"
cp /verif/harness/Cargo.lock "$SCR/harness/" 2>/dev/null
sed -i "s|/repo/|$SCR/repo/|g" "$SCR/harness/probe/Cargo.toml" "$SCR/harness/probe20/Cargo.toml" "$SCR/harness/regen/Cargo.toml" 2>/dev/null
grep -rl '"/repo' "$SCR/harness" --include=Cargo.toml | xargs -r sed -i "s|\"/repo|\"$SCR/repo|g"
export VERIF_REPO="$SCR/repo" VERIF_HARNESS_DIR="$SCR/harness" VERIF_EVIDENCE_DIR="$SCR/evidence" VERIF_REPLAY_DIR="$SCR/replay"
if [ $# -eq 0 ]; then set -- $(ls ${SEED_DIR:-/verif/seeded}); : > "$OUT"; fi
for s in "$@"; do
  d=${SEED_DIR:-/verif/seeded}/$s
  p=${s:0:3}
  patch=$d/patch.diff
  [ -f "$d/patch.rebased.diff" ] && patch=$d/patch.rebased.diff
  git -C "$SCR/repo" checkout -q -- . 
  if ! git -C "$SCR/repo" apply "$patch" 2>/dev/null; then
     if ! git -C "$SCR/repo" apply -3 "$patch" 2>/dev/null; then
        git -C "$SCR/repo" reset -q --hard HEAD
        echo "$s patch does not apply to the current HEAD" | tee -a "$OUT"; continue
     fi
     git -C "$SCR/repo" reset -q
  fi
  out=$(cd /verif && python3 vcheck.py "$p" --tier quick 2>&1); rc=$?
  sig=$(echo "$out" | grep -a -m1 "signature:" | cut -c1-150)
  if [ $rc -eq 1 ]; then echo "$s caught $sig" | tee -a "$OUT"; else echo "$s MISSED rc=$rc $(echo "$out" | grep -a -m1 INCONCLUSIVE | cut -c1-200)" | tee -a "$OUT"; fi
done
git -C "$SCR/repo" checkout -q -- .
git -C /repo worktree remove --force "$SCR/repo"
rm -rf "$SCR"
