#!/usr/bin/env python3
"""Regenerate /verif/MANIFEST.json from the table below (run after adding a check)."""
import json, os, subprocess
VERIF = os.path.dirname(os.path.dirname(os.path.abspath(__file__)))

# id -> (category, technique, level text, level note, design ref)
CHECKS = {
 "C18": ("exploration",
         "runtime monitoring: conformance monitor - grammar-generated A2ML definitions with instances that conform or deviate by construction; validity flag, token conservation with integer notation, and ifdata_cleanup() observed per IF_DATA block",
         "For each generated A2ML definition (named / anonymous / referenced types, the 10 scalar types, arrays, char[n] strings, enums with and without values, repeated tagged items, inner repetitions, blocks, tags without content, depth <= 4) ten conforming instances and five single-token deviations (wrong token kind, unknown tag, unknown enum item, surplus token, integer out of range) are placed in IF_DATA blocks at all eleven sites of the grammar; the definition is supplied in the file, as built-in argument, both (equal) or both (conflicting, either one applying). Conforming blocks must be flagged valid (strict and non-strict), deviations must load and be flagged invalid, the written text must contain exactly the input tokens with their hex/decimal notation, and ifdata_cleanup() must remove exactly the invalid blocks. 300 / 20 000 definitions x 15 blocks x 2 modes.",
         "trusts: conformance by construction (globally unique tags and enum items, delimited repetitions); not judged: duplicate non-repeating tagged items, strings longer than char[n], empty IF_DATA",
         "DESIGN.md section 3 C18"),
 "C16": ("fault_enumeration",
         "runtime monitoring: include-transparency monitor (model of the file tree vs model of the textually flattened document), write/reload and merge_includes monitors, plus an enumerated list of include faults judged by error class",
         "Generated documents are split at element boundaries into a main file and include files in a fresh directory tree (1-3 levels, sub-directories, quoted and unquoted names, / and \\ separators, directives inside nested blocks, inside IF_DATA payloads and inside the A2ML block). load(main) must equal load_from_string of the text with every directive replaced by the file content; the file written next to main must reload to an equal model and keep the directives of the main file; after merge_includes() the output must contain no /include and load to an equal model. The fault list (missing file, directory instead of file, empty file, self inclusion, mutual inclusion, missing nested file, directive without file name) must end in an error that names the directive, never in a panic, abort or partial result. 800 / 20 000 trees + 60 / 400 fault cases.",
         "trusts: the harness' textual flattening as the definition of transparency; include files hold runs of complete sibling elements (or one balanced block inside IF_DATA); the A2ML block keeps its directive in the model and is compared in expanded form modulo whitespace",
         "DESIGN.md section 3 C16"),
 "C17": ("exploration",
         "runtime monitoring: encoding-independence monitor (model equality of load(file in encoding e) against load_from_string of the decoded text), Latin-1 fallback oracle, panic monitor on corrupted byte strings",
         "Generated documents with non-ASCII, astral and combining characters in strings and comments are written in the ten encodings (UTF-8, UTF-16LE/BE, UTF-32LE/BE, each with and without BOM) with trailing padding so that the byte length reaches every residue mod 4 the encoding permits, loaded from the file and compared with the model of the decoded text; Latin-1 files (single bytes >= 0x80, including byte pairs that are well-formed UTF-8 in front of an invalid byte) must load as the text whose code points are the bytes; truncated, bit-flipped, surrogate-injected and random byte strings must not panic. 500 / 15 000 documents x 10 encodings x paddings.",
         "trusts: the harness encoder; first character ASCII as the format requires",
         "DESIGN.md section 3 C17"),
 "C10": ("exploration",
         "runtime monitoring: reference-graph safety / completeness / idempotence monitor for cleanup() (typed reference extraction at every site before and after, protected-kind fingerprints, second run)",
         "Generated modules with consistent reference graphs (chains and cycles among SUB_GROUP / SUB_FUNCTION / REF_UNIT, helpers referenced only from STATUS_STRING_REF, typedef AXIS_DESCR, INSTANCE OVERWRITE, S_REC_LAYOUT, USER_RIGHTS, TYPEDEF_AXIS) plus knobs (unused helpers and helper chains, dangling references, empty groups/functions incl. parents that become empty) are cleaned up; protected kinds must survive with unchanged non-reference content, no resolving reference may be removed or lose its target (references to GROUP/FUNCTION may be pruned together with an empty target), no COMPU_METHOD / table / UNIT / RECORD_LAYOUT may survive unreferenced, a second cleanup must change nothing, and a consistent file must stay free of dangling references. 4 000 / 100 000 modules.",
         "trusts: the frozen site table; 'unused' judged for the four helper kinds whose use is unambiguous; dangling references may be pruned",
         "DESIGN.md section 3 C10"),
 "C08": ("exploration",
         "runtime monitoring: conservation ledger over element markers (every element of A and B accounted for after merge), name-uniqueness monitor, identity-law monitors, over generated module pairs with controlled overlap",
         "Module pairs are generated with the overlap knobs of the property (disjoint, identical twins, near twins differing in one scalar field, same-name conflicts across kinds inside one namespace, pre-existing X.MERGE / X.MERGE2 names in A and in B, singletons on none/one/both sides, chains of two merges). After merge_modules every element of A must be unchanged (same-name GROUP/FUNCTION may only gain members at the end of their lists), every element of B must be represented exactly once - shared twin, or moved under its name or a fresh name N.MERGE[k] - with content unchanged modulo names, names must be unique per namespace and nothing may be invented; merge(A, empty)=A, merge(A, copy of A)=A, merge(empty, B)=B are checked literally. 3 000 / 60 000 pairs; floors: every namespace renamed and moved at least once.",
         "trusts: unique markers written by the generator into long identifiers (ALIGNMENT_BYTE for RECORD_LAYOUT, version for TRANSFORMER); content compared through Debug text with generator names masked; USER_RIGHTS / SYSTEM_CONSTANT with equal ids are dropped by documented design and not judged",
         "DESIGN.md section 3 C08"),
 "C09": ("exploration",
         "runtime monitoring: reference-graph isomorphism monitor (typed reference extraction at every site of the frozen site table before and after merge, joined by element markers)",
         "B is internally consistent with every one of the 59 reference sites populated. For every edge (b, site, t) of B whose referrer was moved into the result, the value read at the same site of the element carrying b's marker must resolve to the element carrying t's marker (references to FUNCTION / GROUP / criterion names must keep their name and resolve). 3 000 / 60 000 pairs; floors: every site exercised, and every site whose target namespace can be renamed hit by an actual rename of its target.",
         "trusts: the frozen site table (DESIGN.md appendix A); identical twins are shared by definition and not judged",
         "DESIGN.md section 3 C09"),
 "C14": ("exploration",
         "runtime monitoring: permutation / canonical-order monitor for sort() (element multisets by name lookup and PartialEq, name-index coherence, order of /begin lines in the written text, reload equality, idempotence)",
         "Generated documents (up to 3 modules, all element kinds, shuffled and interleaved, comments, IF_DATA) are loaded and sorted; every list must hold the same elements with equal content and a coherent name index in ascending name order, singletons must be unchanged, the written text must list module-level elements grouped by kind and ascending by name, load(write(sorted)) must equal the sorted model including list order, and a second sort() must change neither model nor text. 3 000 / 80 000 documents.",
         "trusts: duplicate-free names (documents with duplicate names are skipped); the independent lexer for the written order; module-level comments are dropped by design",
         "DESIGN.md section 3 C14"),
 "C15": ("exploration",
         "runtime monitoring: placement-order monitor over generated edit histories (order model of DESIGN.md appendix F checked against the order of /begin lines after every sort_new_items / write), panic and overflow monitor",
         "Histories of up to 60 (quick) / 400 (thorough) operations over {push a new element of one of 12 kinds, merge a generated module with disjoint names, sort_new_items, write} on loaded modules of 5-400 elements, plus sweeps of k = 8, 20, 64 consecutive sort_new_items calls with interleaved pushes, are executed with overflow checks; after each sort_new_items / write the written order must keep the placed elements in their relative order and put new elements directly behind the last placed element of their kind (at the end if there is none). 300 / 10 000 histories.",
         "trusts: the order model; order inside a run of new elements unconstrained; singletons, IF_DATA and USER_RIGHTS excluded from the order comparison",
         "DESIGN.md section 3 C15"),
 "C11": ("exploration",
         "runtime monitoring: totality (panic) and purity monitor for check() on arbitrary and structurally odd models; report-vs-reference-graph monitor on generated consistent modules and all their single-reference corruptions",
         "check() runs under the crash monitor and a purity cross-check (written text before/after) on grammar-generated documents with arbitrary semantics and on structurally odd modules (6-8 STD_AXIS AXIS_DESCR, duplicate names, no MOD_PAR, empty lists, THIS. in directly used typedefs, everything dangling). Fully consistent modules from the module generator (every reference site of the frozen site table populated) must yield an empty report; each single covered reference replaced by a fresh name must yield a CrossReferenceError naming it and no unrelated cross-reference report. 2 000 / 50 000 modules, a third / all of the references corrupted one at a time; floor: every covered site corrupted at least once.",
         "trusts: the module generator's notion of consistency (DESIGN.md appendix D) and the frozen covered-site table (appendix A column C)",
         "DESIGN.md section 3 C11"),
 "C12": ("exploration",
         "runtime monitoring: limit-verdict monitor - check() verdict compared with an independent physical-range calculator over a complete grid of host element x data type x conversion x coefficient x limit placement",
         "For MEASUREMENT, CHARACTERISTIC (FNC_VALUES), AXIS_PTS (AXIS_PTS_X), STD_AXIS AXIS_DESCR and TYPEDEF_MEASUREMENT x the 11 data types x conversions {none, IDENTICAL, TAB_INTP, TAB_NOINTP, TAB_VERB, LINEAR with a,b of both signs over six magnitudes, linear RAT_FUNC with b,c,f grids, general RAT_FUNC, FORM} x limits placed clearly inside / outside-low / outside-high of the range from an independent calculator, a LimitCheckError must be reported exactly for the outside placements of evaluated conversions. The grid (~29 000 cases) is enumerated completely in both tiers; thorough adds 500 000 random coefficient draws.",
         "trusts: the independent range calculator (raw ranges of the standard's data types; LINEAR a*x+b; RAT_FUNC (f*i-c)/b); 'clearly' = 1 % (10^4 x the documented tolerance)",
         "DESIGN.md section 3 C12"),
 "C20": ("translation_validation",
         "runtime monitoring: differential transcript monitor - two builds of the crate (shipped generated code vs. fresh macro expansion of the DSL by the in-tree generator) linked into one process, fed the same bytes, transcripts compared",
         "The shipped a2lfile and a variant whose specification module is the macro invocation (specification_orig.rs, expanded by the in-tree a2lmacros; every other module is the same source file through a symlink farm recreated from /repo on every run) are linked into one binary. Every input (systematic per-kind documents with all optional sub-elements at legal and re-declared versions, random grammar documents in wide layouts with inserted unknown elements, hostile inputs; strict and non-strict, fragment entry point) is loaded by both; Ok/Err and error text, every log entry, the Debug view of the model, the written text and the texts after sort(), sort_new_items(), merge_includes() and the check() report must agree. ~44 000 / >2 000 000 transcript pairs.",
         "trusts: the two builds differ only in the specification module; Debug compared as a line multiset; programs = inputs x modes compared",
         "DESIGN.md section 3 C20"),
 "C04": ("exploration",
         "runtime monitoring: diagnostic-class monitor over a systematic enumeration of the frozen reference grammar (valid forms with sentinel read-back, single deviations, version gating x six versions) plus random whole documents judged against diagnostics predicted from the reference grammar",
         "Every element kind (all 203 tags) x {valid form with sentinel values read back from the model, each optional sub-element, each dropped parameter, each duplicated optional, missing required, wrong block form, unknown enum word} and every version-gated sub-element / enum item x the six ASAP2 versions is generated from the frozen copy of the specification DSL, loaded strict and non-strict and judged by the expected diagnostic class; random documents generated for one version are declared at another and must yield exactly the diagnostics the reference grammar predicts. ~2 800 systematic documents (complete in both tiers) + 2 000 / 100 000 random documents.",
         "trusts: ref/a2l_grammar.dsl (frozen copy of the DSL) as the reference for A2L 1.7.1; read-back through the Debug view; exclusions: wrong block form of A2ML (raw text), duplicates/keyword forms directly behind an open-ended identifier list (list member by definition)",
         "DESIGN.md section 3 C04"),
 "C06": ("exploration",
         "runtime monitoring: two-mode relation monitor (same input loaded strict and non-strict, relation R1-R4 checked on the outcomes) + diagnostic position oracle over documents with faults injected at known lines",
         "Valid documents, documents with 1-4 injected recoverable faults (unknown sub-element, duplicate optional, digit-leading / over-long identifier, identifier for string, wrong /end tag, too-new and deprecated elements and enum items by declaring another version, trailing tokens) rendered one token per line, and hostile / hard-fault inputs are each loaded in both modes; R1-R4 are evaluated for every input, and every positioned diagnostic must carry the file name passed (string and file loads) and a line inside the span of an injected fault of its class, and every injected fault must be reported. 6 000 / 200 000 input pairs.",
         "trusts: the fault injector's line bookkeeping; position-less diagnostics (MissingVersionInfo, InvalidVersion) exempt; AdditionalTokensError may carry the line of the last regular token",
         "DESIGN.md section 3 C06"),
 "C07": ("exploration",
         "runtime monitoring: insertion-locality monitor (model equality with the byte-identical document minus the inserted unknown element, log delta, strict error class) over all block-level slots",
         "For generated documents every block-level slot of every /begin../end block with optional sub-elements (up to 20 random slots per document in quick, all in thorough) receives an unknown payload (bare keyword with scalar arguments, or block with nested unknown blocks and comments); non-strict load must succeed with a model equal to that of the same bytes without the payload and a log that is the baseline log plus exactly one UnknownSubBlock naming the tag; strict load must fail with UnknownSubBlock naming the tag. ~27 000 / >1 000 000 insertions; floor: every block kind with optional sub-elements received insertions.",
         "trusts: payload alphabet disjoint from grammar tags; bare keywords are not inserted directly behind an open-ended identifier list (stated exclusion)",
         "DESIGN.md section 3 C07"),
 "C01": ("exploration",
         "runtime monitoring: k-cycle round-trip monitor (model equality by PartialEq and byte equality of texts in every cycle) over grammar-generated documents in all layouts, API-built and API-edited models, with panic/step-budget monitors",
         "Each accepted document (grammar-walk generator covering all 165 element kinds; canonical, C05-class and wide layouts incl. CRLF/mixed line ends, tabs, comments of both kinds in every gap, IF_DATA, A2ML; entry points load_from_string, load, load_fragment) and each model built or edited through the public API is taken through K=3 (quick) / 6 (thorough) load->write cycles; in every cycle load must succeed, the model must equal the previous one and the text must be byte-identical. 4 000 / 150 000 cases. Floors: every element kind of the frozen grammar must have occurred.",
         "trusts: the crate's PartialEq as model equality; the frozen reference grammar (copy of the specification DSL) as the definition of valid documents; finite floats",
         "DESIGN.md section 3 C01"),
 "C02": ("exploration",
         "runtime monitoring: token-conservation monitor (generator token list vs independent lexer over the written text) + numeric boundary sweep monitor",
         "For every generated document the written text is tokenised by an independent lexer and compared token by token (kind, normalised value, order; documented position-restriction reordering applied to the expectation; block-level comments verbatim) with the generator's own token list, incl. uninterpreted IF_DATA payloads with integers wider than 32 bit. The boundary sweep runs every integer parameter of every element through literals at and beyond the field limits (decimal and hex) and float parameters through literals beyond the f64 range: each must either be diagnosed/rejected or be written back with exactly the input value. 1 800 boundary cases x 2 modes + 4 000 / 100 000 documents.",
         "trusts: the generator's token list as ground truth, the independent lexer (vcommon::lexer) for output text; comments outside block-level slots / inside IF_DATA are not required to survive",
         "DESIGN.md section 3 C02"),
 "C05": ("exploration",
         "runtime monitoring: line-map monitor (input line of every token vs line in the written text), byte-equality monitor for writer-format input, edit-locality monitor (token/line comparison of the output before and after one API edit)",
         "(i) documents of the property's layout class (random line breaks, blank lines, indentation, block-level comments incl. multi-line ones): every significant token must be written on its input line; (ii) documents rendered in the writer's own format must be reproduced byte for byte; (iii) after one field edit / push / remove through the API every token outside the edited object must keep its text and its line (uniform shift behind the object) and every line without a token of the object must be byte-identical. 3 000 / 80 000 documents x up to 9 / 15 edits.",
         "trusts: the renderer's line bookkeeping; removal/push are judged when the object does not share its first/last line with other tokens (otherwise a shared line necessarily changes)",
         "DESIGN.md section 3 C05"),
 "C03": ("exploration",
         "runtime monitoring: crash monitor (panic capture per call, worker-abort attribution through a case journal), logical step-budget monitor (verif_hooks tick counter), allocation-peak monitor, over generated hostile inputs",
         "Every load call (load_from_string / load_fragment / load from a temp file; strict on/off; a2ml_spec none/valid/invalid) on hostile inputs (random bytes and text, every kind of truncation, token deletion/duplication/swap of grammar-generated documents, token soups, byte mutations, hostile A2ML, nesting probes up to depth 65536) runs under a panic monitor, a logical step budget proportional to the input size (non-termination becomes a deterministic event) and an allocation-peak monitor; process aborts (stack overflow) are attributed to the journalled case and confirmed in isolation. 60 000 (quick) / 3 000 000 (thorough) inputs.",
         "trusts: the tick sites of the verif_hooks feature cover every loop that advances over input (parser token cursor, tokenizers, IF_DATA interpreter); inputs <= 64 KiB except nesting probes",
         "DESIGN.md section 3 C03"),
 "C13": ("exploration",
         "runtime monitoring: model-based conformance monitor (vector-of-names reference model) over exhaustive state-space exploration, bounded sequence enumeration and long random histories, plus panic monitor",
         "Every operation of ItemList is executed on the real list and followed by a complete observation through the public API that is compared with a vector-of-names model. The abstract state space over a 4-name alphabet (65 states, every operation with every argument from every state) is explored completely, all operation sequences up to length 3 (quick) / 4 (thorough) are enumerated literally, and 1000-step random histories run on lists of up to 500 real Measurements. Held on the executions observed; not a proof for larger alphabets.",
         "trusts: the reference model (plain Vec), uniqueness of names as precondition; keys()/index()/get() observe the whole internal state, so a passing concrete state is determined by its abstract state",
         "DESIGN.md section 3 C13"),
}

NOT_YET = "check not built yet in this round (planned, see DESIGN.md section 3)"

def main():
    props = [json.loads(l)["id"] for l in open(os.path.join(VERIF, "properties.jsonl"))]
    checks = []
    na = []
    for pid in props:
        if pid in CHECKS:
            cat, tech, text, note, ref = CHECKS[pid]
            checks.append({
                "property_id": pid,
                "quick_cmd": "python3 vcheck.py %s --tier quick" % pid,
                "thorough_cmd": "python3 vcheck.py %s --tier thorough" % pid,
                "evidence_file": "/verif/evidence/%s.json" % pid,
                "replay_cmd_template": "python3 vcheck.py replay {path}",
                "engine": "a2lprobe" if pid != "C20" else "probe20",
                "level_claimed": {"category": cat, "text": text, "design_ref": ref},
                "level_note": note,
                "technique": tech,
            })
        else:
            na.append({"property_id": pid, "reason": NOT_YET})
    hooks_commits = subprocess.run(["git", "-C", "/repo", "log", "--format=%H %s"], capture_output=True, text=True).stdout.splitlines()
    hook_shas = [l.split()[0] for l in hooks_commits if l.split(" ", 1)[1].startswith("verif hooks")]
    m = {
        "version": 1,
        "setup_cmd": "python3 vcheck.py setup",
        "hooks": {
            "guard": "cargo feature verif_hooks of crate a2lfile (off by default)",
            "enable": "the harness depends on a2lfile with features = [\"verif_hooks\"] (path dependency on /repo/a2lfile)",
            "baseline_off_cmd": "cd /repo && cargo test --workspace --no-fail-fast --offline",
            "source_commits": hook_shas,
            "add_only": True,
        },
        "engines": [
            {"name": "a2lprobe", "path": "/verif/harness/probe", "serves_properties": [c["property_id"] for c in checks if c["engine"] == "a2lprobe"],
             "kind_free_text": "Rust worker binary linked against /repo/a2lfile (feature verif_hooks): generators, monitors and oracles per property; driven by vcheck.py (16 worker processes, journal-based abort attribution, rlimits, watchdog)"},
        ],
        "checks": checks,
        "not_applicable": na,
        "notes": "All checks are runtime monitors over generated workloads (see DESIGN.md). Exit 0 = held on what was observed, 1 = VIOLATION, 2 = INCONCLUSIVE. Known findings: /verif/known_findings.json.",
    }
    if any(c["engine"] == "probe20" for c in checks):
        m["engines"].append({"name": "probe20", "path": "/verif/harness/probe20", "serves_properties": ["C20"],
                             "kind_free_text": "differential binary linking the shipped a2lfile and a regenerated variant (specification_orig.rs expanded by the in-tree a2lmacros)"})
    with open(os.path.join(VERIF, "MANIFEST.json"), "w") as f:
        json.dump(m, f, indent=1)
        f.write("\n")
    print("checks:", [c["property_id"] for c in checks])

main()
