#!/bin/bash
# For every fix recorded in known_findings.json: apply the reverse of the fix commit to the working
# tree of /repo, run the check of the owning property (quick, then thorough if quick is silent),
# expect a VIOLATION, restore the tree. Writes tools/revert_fix_results.txt.
# usage: tools/revert_fix_test.sh [commit ...]     (default: all fixed entries)
set -u
cd /verif
OUT=tools/revert_fix_results.txt
if ! git -C /repo diff --quiet; then echo "repo not clean"; exit 9; fi
python3 - "$@" > /tmp/revert_list.txt <<'PY'
import json,sys
k=json.load(open('/verif/known_findings.json'))
want=set(sys.argv[1:])
seen=set()
for e in k:
    if e['status']=='fixed' and not e.get('superseded_by') and (e['commit'],e['property']) not in seen and (not want or e['commit'] in want):
        seen.add((e['commit'],e['property']))
        print(e['commit'], e['property'])
PY
[ $# -eq 0 ] && : > $OUT
while read -r c p; do
  if ! git -C /repo show "$c" -- . | git -C /repo apply -R 2>/dev/null; then
     # later fixes touched the same lines: try a 3-way reverse
     if ! git -C /repo show "$c" -- . | git -C /repo apply -R -3 2>/dev/null; then
        git -C /repo reset -q --hard HEAD
        echo "$c $p reverse patch does not apply any more (a later fix changed the same lines); last result while it applied: $(grep -a -h "^$c $p " tools/revert_fix_results_history.txt 2>/dev/null | tail -1 | cut -d' ' -f3-)" | tee -a $OUT; continue
     fi
     git -C /repo reset -q
     git -C /repo diff --quiet || true
  fi
  res=""
  for tier in quick thorough; do
    out=$(python3 vcheck.py "$p" --tier $tier 2>&1); rc=$?
    sig=$(echo "$out" | grep -a -m1 "signature:" | cut -c1-160)
    if [ $rc -eq 1 ]; then res="$tier: VIOLATION $sig"; break; fi
    res="$res$tier: rc=$rc; "
  done
  git -C /repo checkout -q -- .
  echo "$c $p $res" | tee -a $OUT
  case "$res" in *VIOLATION*) echo "$c $p $res" >> tools/revert_fix_results_history.txt;; esac
done < /tmp/revert_list.txt
rm -f /tmp/revert_list.txt
git -C /repo status --short | head -3
