#!/usr/bin/env python3
"""mkprompt.py <PROP> <va> <vb> -- print the seeding prompt of one property (property text only)"""
import json, os, sys
prop, va, vb = sys.argv[1:4]
tmpl = open('/verif/tools/' + os.environ.get('SEED_PROMPT', 'seed_prompt_r5.txt')).read()
for l in open('/verif/properties.jsonl'):
    p = json.loads(l)
    if p['id'] == prop:
        anchors = "; ".join("%s: %s" % (m['name'], m['where']) for m in p['anchors'].get('mechanism', []))
        crate = 'a2lfile'
        extra = ''
        if prop in ('C19', 'C20'):
            extra = ("- Note: the workspace's Cargo.lock resolves the a2lmacros dependency of a2lfile to the crates.io release 2.3.0, "
                     "not to the in-tree crate a2lmacros/ (2.2.0). A change in a2lmacros/src is therefore only seen by a2lfile tests after "
                     "`cargo update --offline -p a2lmacros@2.3.0 --precise 2.2.0` (restore with `git checkout -- Cargo.lock` afterwards). "
                     "If your change is in a2lmacros/src, provide a script _seed/run_demo_<variant>.sh that switches the lock file, runs the "
                     "demo test and restores the lock file; the 'test suite still passes' requirement applies to the workspace as it is "
                     "(with the unmodified Cargo.lock).\n")
        print(tmpl.format(wt='/tmp/seedwt/' + prop.lower(), id=prop, idl=prop.lower(), title=p['title'],
                          statement=p['statement'], quant=p['quantifier']['text'], anchors=anchors,
                          va=va, vb=vb, crate=crate, extra=extra))
