#!/bin/bash
# usage: try_seed.sh <patch.diff> <property> [tier]   -- apply a seeded change to /repo, run the check, undo
set -u
PATCH=$1; PROP=$2; TIER=${3:-quick}
cd /repo || exit 9
if ! git diff --quiet; then echo "repo not clean"; exit 9; fi
git apply "$PATCH" || { echo "patch does not apply"; exit 9; }
cd /verif
python3 vcheck.py "$PROP" --tier "$TIER" > /tmp/try_seed_out.txt 2>&1
rc=$?
cd /repo && git checkout -- . 
grep -a -E "^(VIOLATION|INCONCLUSIVE|KNOWN|C[0-9]+ tier)|signature" /tmp/try_seed_out.txt | cut -c1-250 | head -${LINES_MAX:-12}
echo "exit=$rc"
