#!/bin/bash
# usage: verify_seed.sh <worktree> <prop lower e.g. c13> <variant a|b> [demo-crate a2lfile|a2lmacros]
# confirms: with the change the workspace tests pass and the demo fails; without the change the demo passes
set -u
WT=$1; P=$2; V=$3; CR=${4:-a2lfile}
cd "$WT" || exit 9
git checkout -q -- . 
mkdir -p /tmp/seed/_hold && mv -f $CR/tests/seed_${P}_*.rs /tmp/seed/_hold/ 2>/dev/null
git apply _seed/$V.diff || { echo "APPLY FAILED"; exit 9; }
suite=$(cargo test --workspace --offline 2>&1 | grep -a -E "^test result" | awk '{p+=$4; f+=$6} END {print p" passed "f" failed"}')
mkdir -p $CR/tests && cp _seed/seed_${P}_$V.rs $CR/tests/
with=$(cargo test --offline -p $CR --test seed_${P}_$V 2>&1 | grep -a -E "^test result" | head -1)
git checkout -q -- .
without=$(cargo test --offline -p $CR --test seed_${P}_$V 2>&1 | grep -a -E "^test result" | head -1)
rm -f $CR/tests/seed_${P}_$V.rs
echo "suite-with-change: $suite"
echo "demo-with-change: $with"
echo "demo-without-change: $without"
